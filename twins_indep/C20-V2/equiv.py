"""Differential test for the C20 refactoring (memoisation via weak_lru_cache).

Part A loads the ORIGINAL caching module from /repo/src and the refactored one from the
worktree under different names and replays randomised interleavings of object creation,
destruction and (keyword / positional / unhashable) calls on both, comparing results,
the log of underlying computations (hits/misses), liveness of destroyed objects and
raised exception types.

Part B runs the gemdat classes that use the decorator (TrajectoryMetrics, via a worker
subprocess) with PYTHONPATH=/repo/src and PYTHONPATH=<worktree>/src on randomised
synthetic trajectories (triclinic cells, atoms crossing cell faces, a single-atom
selection, ...) and compares the printed results bit for bit.

Exit code 0 = no difference.
"""
from __future__ import annotations

import gc
import importlib.util
import json
import os
import random
import subprocess
import sys
import weakref

ORIG_SRC = '/repo/src'
NEW_SRC = '/tmp/wtu_C20/src'
PY = '/venv/bin/python'


# --------------------------------------------------------------------------- part A
def load(path, name):
    spec = importlib.util.spec_from_file_location(name, path)
    mod = importlib.util.module_from_spec(spec)
    spec.loader.exec_module(mod)
    return mod


def make_classes(caching, log):
    """Build fresh test classes decorated with `caching.weak_lru_cache`."""

    class Plain:
        """identity hash / eq"""

        def __init__(self, tag, value):
            self.tag = tag
            self.value = value

        @caching.weak_lru_cache()
        def scaled(self, factor=2, *, offset=0):
            """Docstring of scaled."""
            log.append(('scaled', self.tag, factor, offset))
            return self.value * factor + offset

        @caching.weak_lru_cache(maxsize=3)
        def small(self, x):
            log.append(('small', self.tag, x))
            return (self.value, x)

        @caching.weak_lru_cache(maxsize=None, typed=True)
        def typed(self, x):
            log.append(('typed', self.tag, repr(x)))
            return (self.value, type(x).__name__, x)

        @caching.weak_lru_cache(maxsize=0)
        def uncached(self, x=1):
            log.append(('uncached', self.tag, x))
            return self.value - x

        @caching.weak_lru_cache()
        def nested(self, n):
            log.append(('nested', self.tag, n))
            return self.value if n <= 0 else self.nested(n - 1) + self.scaled(n)

        @caching.weak_lru_cache()
        def raises(self, x):
            log.append(('raises', self.tag, x))
            raise KeyError(x)

    class Slotted:
        """small slotted objects: memory addresses are re-used quickly"""

        __slots__ = ('tag', 'value', '__weakref__')

        def __init__(self, tag, value):
            self.tag = tag
            self.value = value

        @caching.weak_lru_cache()
        def scaled(self, factor=2, *, offset=0):
            log.append(('s.scaled', self.tag, factor, offset))
            return self.value * factor + offset

        @caching.weak_lru_cache(maxsize=3)
        def small(self, x):
            log.append(('s.small', self.tag, x))
            return (self.value, x)

    class ByValue(Plain):
        """value based equality: equal live objects share entries in lru_cache"""

        def __eq__(self, other):
            return isinstance(other, ByValue) and other.value == self.value

        def __hash__(self):
            return hash(self.value)

    return Plain, Slotted, ByValue


def gen_scenario(seed):
    rng = random.Random(seed)
    ops = []
    n_slots = rng.randint(2, 6)
    alive = set()
    for _ in range(rng.randint(60, 160)):
        r = rng.random()
        slot = rng.randrange(n_slots)
        if slot not in alive or r < 0.12:
            if slot in alive:
                ops.append(('del', slot))
                alive.discard(slot)
            kind = rng.choice(['Plain', 'Slotted', 'Slotted', 'ByValue'])
            ops.append(('new', slot, kind, rng.randint(-3, 3)))
            alive.add(slot)
        elif r < 0.2:
            ops.append(('del', slot))
            alive.discard(slot)
        else:
            meth = rng.choice(
                ['scaled', 'scaled', 'small', 'typed', 'uncached', 'nested', 'raises', 'unhashable',
                 'badkw', 'selfkw']
            )
            if meth == 'scaled':
                style = rng.randrange(5)
                f, o = rng.randint(1, 3), rng.randint(0, 2)
                call = [((), {}), ((f,), {}), ((), {'factor': f}), ((f,), {'offset': o}),
                        ((), {'offset': o, 'factor': f})][style]
            elif meth == 'small':
                call = ((rng.randint(0, 6),), {})
            elif meth == 'typed':
                call = ((rng.choice([1, 1.0, True, 2, 2.0, 'a', (1,), (1.0,)]),), {})
            elif meth == 'uncached':
                call = rng.choice([((), {}), ((1,), {}), ((), {'x': 1})])
            elif meth == 'nested':
                call = ((rng.randint(0, 4),), {})
            elif meth == 'raises':
                call = ((rng.randint(0, 2),), {})
            elif meth == 'unhashable':
                meth, call = 'small', (([1, 2],), {})
            elif meth == 'badkw':
                meth, call = 'scaled', ((), {'nope': 1})
            else:  # keyword that collides with the cache plumbing
                meth, call = 'scaled', ((), {rng.choice(['_self', 'self']): 1})
            ops.append(('call', slot, meth, call))
    return ops


def replay(caching, ops):
    log: list = []
    classes = dict(zip(['Plain', 'Slotted', 'ByValue'], make_classes(caching, log)))
    objs: dict = {}
    trace: list = []
    counter = 0
    obj = None
    for op in ops:
        if op[0] == 'new':
            _, slot, kind, value = op
            counter += 1
            objs[slot] = classes[kind](f'{kind}#{counter}', value)
            trace.append(('new', objs[slot].tag))
        elif op[0] == 'del':
            ref = weakref.ref(objs[op[1]])
            del objs[op[1]]
            gc.collect()
            trace.append(('dead', ref() is None))
        else:
            _, slot, meth, (args, kwargs) = op
            obj = objs[slot]
            if not hasattr(type(obj), meth):
                meth = 'scaled'
                args, kwargs = (), {}
            n_before = len(log)
            try:
                res = ('ok', getattr(obj, meth)(*args, **kwargs))
            except Exception as exc:  # noqa: BLE001
                res = ('exc', type(exc).__name__)
            # ground truth: an uncached recomputation on the same object
            if res[0] == 'ok':
                m = len(log)
                truth = getattr(type(obj), meth).__wrapped__(obj, *args, **kwargs)
                del log[m:]
                if truth != res[1]:  # (== : lru_cache itself treats (1,) and (1.0,) as one key)
                    trace.append(('MISMATCH-vs-uncached', obj.tag, meth, repr(truth), repr(res[1])))
            trace.append((obj.tag, meth, repr(args), repr(sorted(kwargs.items())), repr(res),
                          tuple(map(repr, log[n_before:]))))
            obj = None
    # nothing may be kept alive by the caches
    refs = [weakref.ref(o) for o in objs.values()]
    objs.clear()
    obj = None
    gc.collect()
    trace.append(('all dead', [r() is None for r in refs]))
    # metadata of the decorated function
    P = classes['Plain']
    trace.append((P.scaled.__name__, P.scaled.__qualname__.split('.')[-2:], P.scaled.__doc__,
                  P.scaled.__module__, callable(P.scaled.__wrapped__),
                  type(P.scaled).__name__, type(P.__dict__['scaled']).__name__))
    return trace


def misuse(caching):
    """Stage at which invalid arguments are rejected."""
    out = []
    for args in [('x',), (1.5,), (None, 1), (-1,)]:
        try:
            deco = caching.weak_lru_cache(*args)
            out.append((args, 'factory ok'))
            deco(lambda self: 1)
            out.append((args, 'decorate ok'))
        except Exception as exc:  # noqa: BLE001
            out.append((args, type(exc).__name__))
    return out


def part_a():
    orig = load(os.path.join(ORIG_SRC, 'gemdat/caching.py'), 'orig_caching')
    new = load(os.path.join(NEW_SRC, 'gemdat/caching.py'), 'new_caching')
    assert orig.__file__ != new.__file__
    bad = 0
    for seed in range(60):
        ops = gen_scenario(seed)
        t0, t1 = replay(orig, ops), replay(new, ops)
        if t0 != t1 or any(e[0] == 'MISMATCH-vs-uncached' for e in t1):
            bad += 1
            for a, b in zip(t0, t1):
                if a != b:
                    print('A: seed', seed, 'orig', a, '\n          new ', b)
                    break
            else:
                print('A: seed', seed, 'mismatch against uncached recomputation / length')
    if misuse(orig) != misuse(new):
        bad += 1
        print('A: misuse differs', misuse(orig), misuse(new))
    print(f'part A: 60 scenarios, {bad} differing')
    return bad


# --------------------------------------------------------------------------- part B
WORKER = r'''
import gc, json, sys, weakref, warnings
import numpy as np
from pymatgen.core import Element, Lattice
import gemdat
from gemdat import Trajectory
from gemdat.metrics import TrajectoryMetrics, TrajectoryMetricsStd
warnings.simplefilter('ignore')

def hx(v):
    a = np.asarray(v, dtype=float)
    return [a.shape, [float(x).hex() for x in a.ravel()], type(v).__name__, str(getattr(v, 'unit', ''))]

def build(rng, case):
    kind = case % 4
    if kind == 0:
        lat = Lattice.cubic(rng.uniform(4, 9))
    elif kind == 1:
        lat = Lattice.from_parameters(rng.uniform(4, 8), rng.uniform(4, 8), rng.uniform(4, 8),
                                      rng.uniform(60, 120), rng.uniform(60, 120), rng.uniform(70, 110))
    elif kind == 2:  # rotated triclinic
        m = Lattice.from_parameters(5, 6, 7, 75, 95, 105).matrix
        q, _ = np.linalg.qr(rng.normal(size=(3, 3)))
        lat = Lattice(m @ q)
    else:
        lat = Lattice.hexagonal(rng.uniform(3, 6), rng.uniform(5, 9))
    n_atoms = int(rng.integers(1, 6)) if case % 5 else 1
    n_steps = int(rng.integers(12, 60))
    species = [Element(rng.choice(['Li', 'Na', 'S', 'O'])) for _ in range(n_atoms)]
    start = rng.uniform(0, 1, size=(1, n_atoms, 3))
    start[0, 0] = [0.999, 0.001, 0.5]          # sits on a cell face, will cross it
    steps = rng.normal(scale=0.03, size=(n_steps, n_atoms, 3))
    coords = np.mod(start + np.cumsum(steps, axis=0), 1)
    return Trajectory(species=species, coords=coords, lattice=lat.matrix, time_step=rng.uniform(0.5, 2) * 1e-15,
                      metadata={'temperature': float(rng.integers(200, 900))})

CALLS = [
    ('speed', {}), ('particle_density', {}), ('mol_per_liter', {}), ('tracer_diffusivity', {}),
    ('tracer_diffusivity', {'dimensions': 2}), ('tracer_diffusivity', {'dimensions': 1}),
    ('tracer_diffusivity_center_of_mass', {}), ('tracer_diffusivity_center_of_mass', {'dimensions': 2}),
    ('haven_ratio', {}), ('haven_ratio', {'dimensions': 1}),
    ('tracer_conductivity', {'z_ion': 1}), ('tracer_conductivity', {'z_ion': 2, 'dimensions': 2}),
    ('attempt_frequency', {}), ('vibration_amplitude', {}), ('amplitudes', {}),
]

out = []
for case in range(int(sys.argv[1])):
    rng = np.random.default_rng(1000 + case)
    pool = {}
    for step in range(40):
        slot = int(rng.integers(0, 3))
        r = rng.random()
        if slot not in pool or r < 0.15:
            old = pool.pop(slot, None)
            ref = weakref.ref(old) if old is not None else None
            del old
            gc.collect()
            if ref is not None:
                out.append([case, step, 'dead', ref() is None])
            pool[slot] = TrajectoryMetrics(build(rng, case + step))
            continue
        name, kw = CALLS[int(rng.integers(0, len(CALLS)))]
        m = pool[slot]
        try:
            res = getattr(m, name)(**kw)
            again = getattr(m, name)(**kw)
            fresh = getattr(TrajectoryMetrics(m.trajectory), name)(**kw)
            same = hx(res) == hx(again) == hx(fresh) if not isinstance(res, tuple) else \
                [hx(x) for x in res] == [hx(x) for x in again] == [hx(x) for x in fresh]
            rec = [hx(x) for x in res] if isinstance(res, tuple) else hx(res)
            out.append([case, step, name, kw, rec, same])
        except Exception as exc:
            out.append([case, step, name, kw, 'EXC', type(exc).__name__])
        m = None
    if case % 6 == 0:
        trajs = [m.trajectory for m in pool.values()]
        std = TrajectoryMetricsStd(trajs)
        for fn, kw in [('tracer_diffusivity', {'dimensions': 3}), ('vibration_amplitude', {}),
                       ('tracer_conductivity', {'z_ion': 1, 'dimensions': 3}), ('attempt_frequency', {})]:
            try:
                v = getattr(std, fn)(**kw)
                out.append([case, 'std', fn, float(v.nominal_value).hex(), float(v.std_dev).hex()])
            except Exception as exc:
                out.append([case, 'std', fn, 'EXC', type(exc).__name__])
print(json.dumps(out))
'''


def run_worker(src, n_cases):
    env = dict(os.environ, PYTHONPATH=src)
    proc = subprocess.run([PY, '-c', WORKER, str(n_cases)], env=env, capture_output=True, text=True)
    if proc.returncode != 0:
        print(proc.stderr[-3000:])
        raise SystemExit(f'worker failed for {src}')
    return json.loads(proc.stdout.strip().splitlines()[-1])


def part_b(n_cases=24):
    o, n = run_worker(ORIG_SRC, n_cases), run_worker(NEW_SRC, n_cases)
    bad = 0
    if len(o) != len(n):
        print('B: different number of records', len(o), len(n))
        bad += 1
    for a, b in zip(o, n):
        if a != b:
            bad += 1
            if bad < 6:
                print('B: orig', str(a)[:300], '\n   new ', str(b)[:300])
    incoherent = [r for r in n if r[-1] is False]
    n_exc = sum(1 for r in n if 'EXC' in r)
    print(f'part B: {n_cases} trajectories families, {len(n)} records ({n_exc} raising), {bad} differing, '
          f'{len(incoherent)} cached!=uncached or leaked')
    return bad + len(incoherent)


if __name__ == '__main__':
    failures = part_a() + part_b()
    print('EQUIVALENT' if not failures else f'DIFFERENCES: {failures}')
    sys.exit(1 if failures else 0)
