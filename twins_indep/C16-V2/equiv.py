#!/venv/bin/python
"""Differential test for property C16 (trajectory caching) -- refactoring 2.

Refactoring 2 moves the derivation of the default cache file name of
Trajectory.from_vasprun / from_lammps / from_gromacs into one variadic,
keyword-only-options helper _sibling_cache(source, *tags, options=...): the
options are serialised with a hoisted json.JSONEncoder(sort_keys=True)
instance instead of json.dumps(..., sort_keys=True), the suffix is assembled
with '.'.join(('', *map(format, tags), hashid, 'cache')) instead of three
different f-strings, and the `if not cache:` blocks became
`cache = cache or _sibling_cache(...)` (short-circuit, so nothing is
serialised or formatted when a cache is given); the NPT flag of from_vasprun
is merged with a conditional expression instead of copy + item assignment.

The same randomised scenario script (DRIVER below) is executed twice in a
subprocess, once with PYTHONPATH=<original src> and once with
PYTHONPATH=/tmp/wtu_C16/src (refactored implementation).  Both runs work in the
*same* freshly created directory path so that every file name, every printed
message and every cache file is directly comparable.  The driver emits one JSON
record per step (trajectory digests, directory listings, sha256 of the cache
files, captured stdout, exception type + message + cause type); the two record
lists must be identical, otherwise the exit status is 1.

Where the ORIGINAL implementation comes from (first that applies):
  1. $GEMDAT_ORIG_SRC, if set;
  2. /repo/src (read-only, only ever put on PYTHONPATH of a subprocess);
  3. if /repo/src is absent: a pristine export of the worktree's HEAD commit
     (`git archive HEAD src/gemdat`, the tree patch.diff is relative to).

Scenarios (N_CASES randomised cases, all three loaders, cubic / orthorhombic /
triclinic cells, coordinates outside [0, 1), numeric LAMMPS types, NPT flag,
explicit cache paths, ...):
  * cold load, warm load (cache hit), cache file bytes
  * cache truncated at random prefix lengths (incl. 0, 1, len-1), garbage
    cache, cache holding a foreign pickle (None, dict, 0), flipped byte,
    removed cache, repeated fault/recover cycles
  * different loader options -> different default cache names
  * explicit cache= argument (str and Path), falsy cache arguments
  * error paths (broken xml, NPT lammps, NPT gromacs, broken lammps data file,
    non-serialisable options, missing files)
  * plain to_cache / from_cache round trip on synthetic trajectories
  * default cache file names for 200 random option / source-name / flag
    combinations of the three loaders (probed through a subclass whose
    from_cache reports the file it is asked for, nothing is parsed)
  * trajectory state primitives the cache content depends on: to_positions
    wrap-around (exact 1.0, -0.0, tiny negative values, nan/inf, integer and
    non-contiguous coordinate arrays), metadata defaults, slicing
  * all loaders called on subclasses whose from_cache raises 18 kinds of
    exceptions (Exception subclasses incl. StopIteration are reported and
    parsing continues, BaseExceptions such as KeyboardInterrupt / SystemExit /
    GeneratorExit escape) and whose to_cache / to_positions / from_cache
    overrides log their calls (order of calls, arguments and the bytes that
    end up in the cache file)
"""

import io
import json
import os
import shutil
import subprocess
import sys
import tarfile
import tempfile

WORKTREE = '/tmp/wtu_C16'
NEW_SRC = WORKTREE + '/src'
N_CASES = 35


def original_src(top: str) -> str:
    env = os.environ.get('GEMDAT_ORIG_SRC')
    if env:
        return env
    if os.path.isdir('/repo/src/gemdat'):
        return '/repo/src'
    blob = subprocess.run(['git', '-C', WORKTREE, 'archive', 'HEAD', 'src/gemdat'],
                          capture_output=True, check=True).stdout
    dest = os.path.join(top, 'orig')
    os.makedirs(dest)
    with tarfile.open(fileobj=io.BytesIO(blob)) as tar:
        tar.extractall(dest)
    return os.path.join(dest, 'src')


DRIVER = r'''
import contextlib, glob, hashlib, io, json, os, pickle, sys, warnings
from pathlib import Path
warnings.filterwarnings('ignore')
import numpy as np
import MDAnalysis as mda
from pymatgen.core import Element, Lattice
import gemdat
from gemdat import Trajectory

assert gemdat.__file__.startswith(sys.argv[1]), (gemdat.__file__, sys.argv[1])
N_CASES = int(sys.argv[2])
RECORDS = []


def sha(b):
    return hashlib.sha256(b).hexdigest()


def digest(t):
    if not isinstance(t, Trajectory):
        return {'notraj': repr(t)}
    sp = t.site_properties
    return {
        'cls': type(t).__module__ + '.' + type(t).__name__,
        'coords': sha(np.ascontiguousarray(t.coords).tobytes()),
        'cshape': list(np.shape(t.coords)),
        'cdtype': str(np.asarray(t.coords).dtype),
        'lattice': sha(np.ascontiguousarray(t.lattice).tobytes()),
        'lshape': list(np.shape(t.lattice)),
        'species': [str(s) for s in t.species],
        'time_step': repr(t.time_step),
        'metadata': repr(t.metadata),
        'constant_lattice': repr(t.constant_lattice),
        'disp': repr(t.coords_are_displacement),
        'base': sha(np.ascontiguousarray(t.base_positions).tobytes()) if t.base_positions is not None else None,
        'site_properties': repr(sp),
        'charge': repr(t.charge), 'spin': repr(t.spin_multiplicity),
    }


def listing():
    out = {}
    for p in sorted(glob.glob('*')):
        out[p] = sha(open(p, 'rb').read()) if p.endswith('.cache') or '.cache' in p or p.endswith('.pkl') else None
    return out


def step(label, fn):
    buf = io.StringIO()
    rec = {'label': label}
    try:
        with contextlib.redirect_stdout(buf):
            res = fn()
        rec['result'] = digest(res)
    except BaseException as exc:  # noqa
        rec['exc'] = [type(exc).__name__, str(exc), type(exc.__cause__).__name__]
    rec['stdout'] = buf.getvalue()
    rec['files'] = listing()
    RECORDS.append(rec)
    return rec


# ---------------------------------------------------------------- input files
def write_vasprun(path, lattice, species, frames, tebeg, potim, broken=False):
    def vec(v):
        return '<v> ' + ' '.join(f'{x:.8f}' for x in v) + ' </v>'

    def structure(coords, name=None):
        n = f' name="{name}"' if name else ''
        rec = np.linalg.inv(lattice).T
        s = ([f'<structure{n}>', '<crystal>', '<varray name="basis">'] + [vec(v) for v in lattice]
             + ['</varray>', f'<i name="volume"> {abs(np.linalg.det(lattice)):.8f} </i>', '<varray name="rec_basis">']
             + [vec(v) for v in rec] + ['</varray>', '</crystal>', '<varray name="positions">']
             + [vec(v) for v in coords] + ['</varray>', '</structure>'])
        return '\n'.join(s)

    uniq = []
    for s in species:
        if s not in uniq:
            uniq.append(s)
    n = len(frames)
    out = ['<?xml version="1.0" encoding="ISO-8859-1"?>', '<modeling>',
           '<generator><i name="program" type="string">vasp </i><i name="version" type="string">5.4.4 </i></generator>',
           f'<incar><i type="int" name="IBRION"> 0</i><i name="POTIM"> {potim:.4f}</i><i name="TEBEG"> {tebeg:.4f}</i>'
           f'<i type="int" name="NSW"> {n}</i></incar>',
           '<kpoints><generation param="Gamma"><v type="int" name="divisions"> 1 1 1 </v><v name="usershift"> 0 0 0 </v>'
           '</generation><varray name="kpointlist"><v> 0 0 0 </v></varray><varray name="weights"><v> 1.0 </v></varray></kpoints>',
           f'<parameters><separator name="ionic"><i type="int" name="NSW"> {n}</i><i type="int" name="IBRION"> 0</i>'
           f'<i name="POTIM"> {potim:.4f}</i></separator><separator name="ionic md"><i name="TEBEG"> {tebeg:.4f}</i>'
           f'<i name="TEEND"> {tebeg:.4f}</i></separator><separator name="electronic"><i type="int" name="NELM"> 60</i>'
           '</separator></parameters>',
           f'<atominfo><atoms> {len(species)} </atoms><types> {len(uniq)} </types>',
           '<array name="atoms"><dimension dim="1">ion</dimension><field type="string">element</field>'
           '<field type="int">atomtype</field><set>']
    for s in species:
        out.append(f'<rc><c>{s:<2}</c><c> {uniq.index(s) + 1}</c></rc>')
    out += ['</set></array>',
            '<array name="atomtypes"><dimension dim="1">type</dimension><field type="int">atomspertype</field>'
            '<field type="string">element</field><field>mass</field><field>valence</field>'
            '<field type="string">pseudopotential</field><set>']
    for u in uniq:
        out.append(f'<rc><c> {species.count(u)}</c><c>{u:<2}</c><c> 1.0</c><c> 1.0</c><c> PAW_PBE {u} 01Jan2000 </c></rc>')
    out += ['</set></array></atominfo>', structure(frames[0], 'initialpos')]
    en = '<energy><i name="e_fr_energy"> -1.0 </i><i name="e_wo_entrp"> -1.0 </i><i name="e_0_energy"> -1.0 </i></energy>'
    for fr in frames:
        out += ['<calculation>', f'<scstep>{en}</scstep>', structure(fr), en, '</calculation>']
    out += [structure(frames[-1], 'finalpos'), '</modeling>']
    txt = '\n'.join(out)
    if broken:
        txt = txt[: int(len(txt) * 0.6)]
    Path(path).write_text(txt)


MASSES = {'Li': 6.94, 'S': 32.06, 'P': 30.97, 'Na': 22.99, 'O': 15.999, 'Cl': 35.45}


def write_lammps(data_path, xyz_path, box, species, frames_cart, numeric_types=False, broken=False):
    lx, ly, lz, xy, xz, yz = box
    uniq = []
    for s in species:
        if s not in uniq:
            uniq.append(s)
    L = ['LAMMPS data file', '', f'{len(species)} atoms', f'{len(uniq)} atom types', '',
         f'0.0 {lx:.6f} xlo xhi', f'0.0 {ly:.6f} ylo yhi', f'0.0 {lz:.6f} zlo zhi']
    if xy or xz or yz:
        L.append(f'{xy:.6f} {xz:.6f} {yz:.6f} xy xz yz')
    L += ['', 'Masses', '']
    for i, u in enumerate(uniq):
        L.append(f'{i + 1} {MASSES[u]}')
    L += ['', 'Atoms', '']
    for i, (s, c) in enumerate(zip(species, frames_cart[0])):
        if broken and i == 1:
            L.append(f'{i + 1} {uniq.index(s) + 1} {c[0]:.6f} {c[1]:.6f} {c[2]:.6f} 1 2 3 4 5 6 7')
        else:
            L.append(f'{i + 1} {uniq.index(s) + 1} {c[0]:.6f} {c[1]:.6f} {c[2]:.6f}')
    Path(data_path).write_text('\n'.join(L) + '\n')
    X = []
    for k, fr in enumerate(frames_cart):
        X.append(str(len(species)))
        X.append(f'Atoms. Timestep: {k}')
        for s, c in zip(species, fr):
            name = str(uniq.index(s) + 1) if numeric_types else s
            X.append(f'{name} {c[0]:.6f} {c[1]:.6f} {c[2]:.6f}')
    Path(xyz_path).write_text('\n'.join(X) + '\n')
    return {str(i + 1): u for i, u in enumerate(uniq)}


def write_gromacs(gro_path, xtc_path, dims_per_frame, names, frames_cart, dt):
    n = len(names)
    u = mda.Universe.empty(n, n_residues=n, atom_resindex=np.arange(n), trajectory=True)
    u.add_TopologyAttr('name', names)
    u.add_TopologyAttr('resname', ['MOL'] * n)
    u.add_TopologyAttr('resid', list(range(1, n + 1)))
    u.atoms.positions = frames_cart[0]
    u.dimensions = dims_per_frame[0]
    u.atoms.write(gro_path)
    with mda.Writer(xtc_path, n) as w:
        for k, (d, fr) in enumerate(zip(dims_per_frame, frames_cart)):
            u.atoms.positions = fr
            u.dimensions = d
            u.trajectory.ts.time = k * dt
            u.trajectory.ts.frame = k
            w.write(u.atoms)


# ------------------------------------------------------------------ scenarios
def damage_cycle(rng, label, load, cache_name, n_cuts):
    """Truncate / corrupt `cache_name` in several ways, reload each time."""
    good = Path(cache_name).read_bytes()
    cuts = [0, 1, len(good) - 1] + [int(c) for c in rng.integers(0, len(good), size=n_cuts)]
    for c in cuts:
        Path(cache_name).write_bytes(good[:c])
        step(f'{label}:trunc{c}', load)
        step(f'{label}:trunc{c}:again', load)
    Path(cache_name).write_bytes(rng.bytes(int(rng.integers(1, 200))))
    step(f'{label}:garbage', load)
    Path(cache_name).write_bytes(b'not a pickle at all\n')
    step(f'{label}:text', load)
    # a perfectly valid pickle that is not a trajectory: loaders hand back whatever is stored
    Path(cache_name).write_bytes(pickle.dumps(None))
    step(f'{label}:pickled-None', load)
    Path(cache_name).write_bytes(pickle.dumps({'a': 1}))
    step(f'{label}:pickled-dict', load)
    Path(cache_name).write_bytes(pickle.dumps(0))
    step(f'{label}:pickled-zero', load)
    os.remove(cache_name)
    step(f'{label}:removed', load)
    # flipped byte in the middle
    b = bytearray(good)
    pos = int(rng.integers(0, len(b)))
    b[pos] ^= 0xFF
    Path(cache_name).write_bytes(bytes(b))
    step(f'{label}:flip{pos}', load)
    os.remove(cache_name)
    step(f'{label}:final', load)


def new_cache_files(before):
    return sorted(set(glob.glob('*cache*')) - set(before))


def random_cell(rng):
    kind = rng.integers(0, 3)
    if kind == 0:
        a = rng.uniform(3, 9)
        return np.diag([a, a, a])
    if kind == 1:
        return np.diag(rng.uniform(3, 9, size=3))
    m = np.diag(rng.uniform(4, 9, size=3)) + rng.uniform(-1.5, 1.5, size=(3, 3))
    if np.linalg.det(m) < 0:
        m[0] *= -1
    return m


def random_species(rng):
    pool = ['Li', 'S', 'P', 'Na', 'O', 'Cl']
    k = int(rng.integers(1, 4))
    chosen = list(rng.choice(pool, size=k, replace=False))
    n = int(rng.integers(k, 7))
    sp = chosen + [chosen[int(i)] for i in rng.integers(0, k, size=n - k)]
    return sorted(sp, key=chosen.index)


def case_vasprun(rng, tag):
    lat = random_cell(rng)
    species = random_species(rng)
    nfr = int(rng.integers(1, 7))
    frames = rng.uniform(-0.6, 1.6, size=(nfr, len(species), 3))  # atoms cross the cell faces
    frames[0, 0] = [0.0, 1.0, -1e-9]
    xml = f'{tag}.xml'
    write_vasprun(xml, lat, species, frames, tebeg=float(rng.choice([300, 650.5, 1000])), potim=float(rng.choice([1, 2, 0.5])))
    combos = [
        {},
        {'constant_lattice': False},
        {'constant_lattice': True, 'parse_dos': False},
        {'exception_on_bad_xml': False},
        {'parse_potcar_file': False, 'parse_eigen': False},
        {'ionic_step_skip': 2},
        {'ionic_step_offset': 1, 'constant_lattice': False},
        {'separate_spins': True, 'parse_dos': False},
    ]
    picks = [0, 1] + [int(i) for i in rng.choice(np.arange(2, len(combos)), size=2, replace=False)]
    for i in picks:
        kw = combos[i]
        before = glob.glob('*cache*')
        src = xml if rng.random() < 0.5 else Path(xml)
        load = lambda: Trajectory.from_vasprun(src, **kw)  # noqa
        step(f'{tag}:vasp{i}:cold', load)
        step(f'{tag}:vasp{i}:warm', load)
        new = new_cache_files(before)
        RECORDS.append({'label': f'{tag}:vasp{i}:newcache', 'new': new})
        if len(new) == 1 and i in picks[:3]:
            damage_cycle(rng, f'{tag}:vasp{i}', load, new[0], n_cuts=4)
    # explicit cache argument (str / Path), with damage
    for j, c in enumerate([f'{tag}.explicit.pkl', Path(f'{tag}.explicit2.pkl')]):
        kw = {'constant_lattice': bool(j)}
        load = lambda: Trajectory.from_vasprun(xml, cache=c, **kw)  # noqa
        step(f'{tag}:vasp-explicit{j}:cold', load)
        step(f'{tag}:vasp-explicit{j}:warm', load)
        damage_cycle(rng, f'{tag}:vasp-explicit{j}', load, str(c), n_cuts=2)
        # an explicit cache is returned whatever the other arguments say
        step(f'{tag}:vasp-explicit{j}:otherargs',
             lambda: Trajectory.from_vasprun(xml, c, not bool(j), parse_dos=False))
    # positional cache argument, falsy cache values
    step(f'{tag}:vasp-emptycache', lambda: Trajectory.from_vasprun(xml, ''))
    step(f'{tag}:vasp-nonecache', lambda: Trajectory.from_vasprun(xml, None, False))
    # broken source
    bad = f'{tag}_bad.xml'
    write_vasprun(bad, lat, species, frames, tebeg=300, potim=1, broken=True)
    step(f'{tag}:vasp-bad', lambda: Trajectory.from_vasprun(bad))
    step(f'{tag}:vasp-bad-explicit', lambda: Trajectory.from_vasprun(bad, cache=f'{tag}.explicit.pkl'))
    step(f'{tag}:vasp-missing', lambda: Trajectory.from_vasprun(f'{tag}_nonexistent.xml'))
    step(f'{tag}:vasp-unserialisable', lambda: Trajectory.from_vasprun(xml, parse_dos=Path('x')))
    step(f'{tag}:vasp-unserialisable-src', lambda: Trajectory.from_vasprun(None, parse_dos=Path('x')))
    step(f'{tag}:vasp-none-src', lambda: Trajectory.from_vasprun(None))
    step(f'{tag}:vasp-dir-src', lambda: Trajectory.from_vasprun('.'))
    step(f'{tag}:vasp-zero-lattice-flag', lambda: Trajectory.from_vasprun(xml, None, 0))
    step(f'{tag}:vasp-one-lattice-flag', lambda: Trajectory.from_vasprun(xml, None, 1))
    step(f'{tag}:vasp-cache-is-dir', lambda: Trajectory.from_vasprun(xml, cache='.'))


def case_lammps(rng, tag):
    tric = rng.random() < 0.6
    box = tuple(rng.uniform(4, 9, size=3)) + (tuple(rng.uniform(-1.2, 1.2, size=3)) if tric else (0.0, 0.0, 0.0))
    species = random_species(rng)
    nfr = int(rng.integers(1, 7))
    frames = rng.uniform(-4, 12, size=(nfr, len(species), 3))
    numeric = rng.random() < 0.5
    data, xyz = f'{tag}.data', f'{tag}.xyz'
    mapping = write_lammps(data, xyz, box, species, frames, numeric_types=numeric)
    base = dict(coords_file=xyz, data_file=data, temperature=float(rng.choice([300, 450.5])),
                time_step=float(rng.choice([1, 2.5])))
    if numeric:
        base['type_mapping'] = mapping
    combos = [
        {},
        {'coords_format': 'xyz', 'atom_style': 'atomic'},
        {'temperature': 999},
        {'time_step': 0.25},
        {'coords_file': Path(xyz), 'data_file': Path(data)},
        {'constant_lattice': True},
    ]
    picks = [0] + [int(i) for i in rng.choice(np.arange(1, len(combos)), size=3, replace=False)]
    for i in picks:
        kw = {**base, **combos[i]}
        before = glob.glob('*cache*')
        load = lambda: Trajectory.from_lammps(**kw)  # noqa
        step(f'{tag}:lammps{i}:cold', load)
        step(f'{tag}:lammps{i}:warm', load)
        new = new_cache_files(before)
        RECORDS.append({'label': f'{tag}:lammps{i}:newcache', 'new': new})
        if len(new) == 1 and i in picks[:2]:
            damage_cycle(rng, f'{tag}:lammps{i}', load, new[0], n_cuts=4)
    if not numeric:
        # a mapping on a file with element labels -> Element(None) failure, same in both
        step(f'{tag}:lammps-badmap', lambda: Trajectory.from_lammps(**{**base, 'type_mapping': {'1': 'Li'}}))
    # NPT is refused, but only after the cache has been consulted
    step(f'{tag}:lammps-npt', lambda: Trajectory.from_lammps(**{**base, 'constant_lattice': False}))
    c = f'{tag}.lmp.pkl'
    load = lambda: Trajectory.from_lammps(**base, cache=c)  # noqa
    step(f'{tag}:lammps-explicit:cold', load)
    step(f'{tag}:lammps-explicit:warm', load)
    step(f'{tag}:lammps-explicit:npt-hit', lambda: Trajectory.from_lammps(**{**base, 'constant_lattice': False}, cache=Path(c)))
    damage_cycle(rng, f'{tag}:lammps-explicit', load, c, n_cuts=2)
    Path(c).write_bytes(b'')
    step(f'{tag}:lammps-explicit:npt-miss', lambda: Trajectory.from_lammps(**{**base, 'constant_lattice': False}, cache=c))
    step(f'{tag}:lammps-emptycache', lambda: Trajectory.from_lammps(**base, cache=''))
    bdata, bxyz = f'{tag}_bad.data', f'{tag}_bad.xyz'
    write_lammps(bdata, bxyz, box, species, frames, numeric_types=numeric, broken=True)
    step(f'{tag}:lammps-bad', lambda: Trajectory.from_lammps(**{**base, 'data_file': bdata, 'coords_file': bxyz}))
    step(f'{tag}:lammps-badstyle', lambda: Trajectory.from_lammps(**{**base, 'atom_style': 'charge'}))
    step(f'{tag}:lammps-slashformat', lambda: Trajectory.from_lammps(**{**base, 'coords_format': 'a/b'}))
    step(f'{tag}:lammps-unserialisable', lambda: Trajectory.from_lammps(**{**base, 'temperature': Path('x')}))
    step(f'{tag}:lammps-intkeys', lambda: Trajectory.from_lammps(**{**base, 'type_mapping': {2: 'Li', 1: 'S', '3': 'P'}}))
    step(f'{tag}:lammps-cache-is-dir', lambda: Trajectory.from_lammps(**base, cache='.'))
    step(f'{tag}:lammps-badformat', lambda: Trajectory.from_lammps(**{**base, 'coords_format': 'nonsense'}))


def case_gromacs(rng, tag):
    names_pool = ['LI1', 'li2', 'S1', 'P', 'NA3', 'O2', 'CL']
    n = int(rng.integers(1, 6))
    names = [str(x) for x in rng.choice(names_pool, size=n)]
    nfr = int(rng.integers(1, 6))
    tric = rng.random() < 0.6
    dims0 = np.concatenate([rng.uniform(5, 9, size=3), rng.uniform(75, 105, size=3) if tric else [90.0, 90.0, 90.0]])
    dims = [dims0 * np.array([1 + 0.01 * k] * 3 + [1, 1, 1]) for k in range(nfr)]
    frames = rng.uniform(-3, 12, size=(nfr, n, 3))
    gro, xtc = f'{tag}.gro', f'{tag}.xtc'
    write_gromacs(gro, xtc, dims, names, frames, dt=float(rng.choice([1.0, 2.0, 0.5])))
    base = dict(topology_file=gro, coords_file=xtc, temperature=float(rng.choice([300, 450.5])))
    combos = [
        {},
        {'constant_lattice': True, 'extract_edr': True},
        {'temperature': 999},
        {'topology_file': Path(gro), 'coords_file': Path(xtc)},
        {'edr_file': None},
    ]
    picks = [0] + [int(i) for i in rng.choice(np.arange(1, len(combos)), size=2, replace=False)]
    for i in picks:
        kw = {**base, **combos[i]}
        before = glob.glob('*cache*')
        load = lambda: Trajectory.from_gromacs(**kw)  # noqa
        step(f'{tag}:gmx{i}:cold', load)
        step(f'{tag}:gmx{i}:warm', load)
        new = new_cache_files(before)
        RECORDS.append({'label': f'{tag}:gmx{i}:newcache', 'new': new})
        if len(new) == 1 and i in picks[:2]:
            damage_cycle(rng, f'{tag}:gmx{i}', load, new[0], n_cuts=3)
    step(f'{tag}:gmx-npt', lambda: Trajectory.from_gromacs(**{**base, 'constant_lattice': False}))
    step(f'{tag}:gmx-edr', lambda: Trajectory.from_gromacs(**{**base, 'edr_file': f'{tag}_missing.edr'}))
    step(f'{tag}:gmx-edr-path', lambda: Trajectory.from_gromacs(**{**base, 'edr_file': Path(f'{tag}_missing.edr')}))
    c = Path(f'{tag}.gmx.pkl')
    load = lambda: Trajectory.from_gromacs(**base, cache=c)  # noqa
    step(f'{tag}:gmx-explicit:cold', load)
    step(f'{tag}:gmx-explicit:warm', load)
    step(f'{tag}:gmx-explicit:npt-hit', lambda: Trajectory.from_gromacs(**{**base, 'constant_lattice': False}, cache=str(c)))
    damage_cycle(rng, f'{tag}:gmx-explicit', load, str(c), n_cuts=2)
    step(f'{tag}:gmx-emptycache', lambda: Trajectory.from_gromacs(**base, cache=''))
    step(f'{tag}:gmx-missing', lambda: Trajectory.from_gromacs(**{**base, 'coords_file': f'{tag}_nope.xtc'}))


def case_roundtrip(rng, tag):
    lat = random_cell(rng)
    species = [Element(s) for s in random_species(rng)]
    nfr = int(rng.integers(1, 8))
    coords = rng.uniform(-0.5, 1.5, size=(nfr, len(species), 3))
    npt = rng.random() < 0.4
    kwargs = dict(species=species, coords=coords, time_step=float(rng.choice([1e-15, 2e-15])),
                  metadata={'temperature': float(rng.choice([300, 700])), 'note': tag} if rng.random() < 0.8 else None)
    if npt:
        kwargs.update(lattice=np.stack([lat * (1 + 0.01 * k) for k in range(nfr)]), constant_lattice=False)
    else:
        kwargs.update(lattice=lat, constant_lattice=True)
    t = Trajectory(**kwargs)
    if rng.random() < 0.5:
        t.to_displacements()
    RECORDS.append({'label': f'{tag}:rt:source', 'result': digest(t)})
    for name in (f'{tag}.rt.cache', Path(f'{tag}.rt2.cache')):
        step(f'{tag}:rt:to_cache', lambda: t.to_cache(name))
        step(f'{tag}:rt:from_cache', lambda: Trajectory.from_cache(name))
    sub = t[::2] if nfr > 1 else t
    step(f'{tag}:rt:slice-to', lambda: sub.to_cache(f'{tag}.rt.cache'))  # overwrite an existing cache
    step(f'{tag}:rt:slice-from', lambda: Trajectory.from_cache(f'{tag}.rt.cache'))
    filt = t.filter(str(species[0])) if not npt else t[-1:]  # filter() does not support NPT trajectories
    step(f'{tag}:rt:filter-to', lambda: filt.to_cache(f'{tag}.rt3.cache'))
    step(f'{tag}:rt:filter-from', lambda: Trajectory.from_cache(Path(f'{tag}.rt3.cache')))
    good = Path(f'{tag}.rt3.cache').read_bytes()
    for c in [0] + [int(x) for x in rng.integers(0, len(good), size=3)]:
        Path(f'{tag}.rt3.cache').write_bytes(good[:c])
        step(f'{tag}:rt:trunc{c}', lambda: Trajectory.from_cache(f'{tag}.rt3.cache'))
    step(f'{tag}:rt:missing', lambda: Trajectory.from_cache(f'{tag}.does-not-exist'))
    step(f'{tag}:rt:baddir', lambda: t.to_cache(f'no_such_dir_{tag}/x.cache'))
    Path(f'{tag}.foreign.cache').write_bytes(pickle.dumps([1, 2, 3]))
    step(f'{tag}:rt:foreign', lambda: Trajectory.from_cache(f'{tag}.foreign.cache'))


def case_state(rng, tag):
    """to_positions / metadata / slicing: what ends up inside the cache."""
    lat = random_cell(rng)
    species = [Element(s) for s in random_species(rng)]
    n = len(species)
    nfr = int(rng.integers(1, 7))
    kind = int(rng.integers(0, 6))
    if kind == 0:      # boundary values
        pool = np.array([0.0, -0.0, 1.0, -1.0, 2.0, 1 - 2.0 ** -53, 1 + 2.0 ** -52, -1e-17, -1e-300, 5e-324, -5e-324,
                         1e-9, -1e-9, 0.5, -0.5, 1e16, -1e16, 123456.789, -123456.789])
        coords = rng.choice(pool, size=(nfr, n, 3))
    elif kind == 1:    # non-finite
        coords = rng.uniform(-2, 2, size=(nfr, n, 3))
        coords[rng.random(coords.shape) < 0.2] = np.nan
        coords[rng.random(coords.shape) < 0.1] = np.inf
        coords[rng.random(coords.shape) < 0.1] = -np.inf
    elif kind == 2:    # integer coordinates
        coords = rng.integers(-3, 4, size=(nfr, n, 3))
    elif kind == 3:    # Fortran ordered / non-contiguous view
        big = np.asfortranarray(rng.uniform(-1.5, 2.5, size=(nfr, n, 6)))
        coords = big[:, :, ::2]
    elif kind == 4:    # float32
        coords = rng.uniform(-1.5, 2.5, size=(nfr, n, 3)).astype(np.float32)
        coords[0, 0] = [1.0, -1e-9, -0.0]
    else:
        coords = rng.uniform(-1.5, 2.5, size=(nfr, n, 3))
        coords[0, 0] = [0.0, 1.0, -1e-9]
    meta = [None, {}, {'temperature': 300}, {'temperature': 650.5, 'x': [1, 2]}][int(rng.integers(0, 4))]
    disp = rng.random() < 0.5
    kw = dict(species=species, coords=coords, lattice=lat, time_step=1e-15, metadata=meta)
    if disp:
        kw.update(coords_are_displacement=True, base_positions=rng.uniform(-0.5, 1.5, size=(n, 3)))
    holder = {}

    def make():
        holder['t'] = Trajectory(**kw)
        return holder['t']

    if step(f'{tag}:st:make{kind}', make).get('exc'):
        return
    t = holder['t']

    def positions():
        t.to_positions()
        return t

    step(f'{tag}:st:to_positions', positions)
    step(f'{tag}:st:to_positions-again', positions)
    RECORDS.append({'label': f'{tag}:st:raw', 'coords': repr(np.asarray(t.coords).tolist()),
                    'flags': [bool(t.coords.flags.c_contiguous), bool(t.coords.flags.f_contiguous)],
                    'metadata-is-arg': meta is not None and t.metadata is meta, 'metadata': repr(t.metadata)})
    step(f'{tag}:st:cache', lambda: t.to_cache(f'{tag}.st.cache'))
    step(f'{tag}:st:uncache', lambda: Trajectory.from_cache(f'{tag}.st.cache'))
    for j, idx in enumerate([slice(None, None, 2), slice(1, None), [0], slice(0, 0), 0, -1, nfr]):
        def sub():
            new = t[idx]
            holder['sub'] = new
            return new if isinstance(new, Trajectory) else repr((type(new).__name__, getattr(new, 'metadata', 'no-metadata')))
        r = step(f'{tag}:st:getitem{j}', sub)
        if 'exc' not in r:
            new = holder['sub']
            RECORDS.append({'label': f'{tag}:st:getitem{j}:meta', 'same': new.metadata is t.metadata,
                            'cls': type(new).__name__})
            if isinstance(new, Trajectory):
                step(f'{tag}:st:getitem{j}:cache', lambda: new.to_cache(f'{tag}.st{j}.cache'))
                step(f'{tag}:st:getitem{j}:uncache', lambda: Trajectory.from_cache(Path(f'{tag}.st{j}.cache')))
    # an instance that lost its metadata attribute (old pickles): __getitem__ supplies {}
    bare = Trajectory(species=species, coords=np.asarray(coords, dtype=float), lattice=lat, time_step=1e-15)
    del bare.metadata
    step(f'{tag}:st:bare-slice', lambda: bare[0:1])
    step(f'{tag}:st:displacements', lambda: (t.displacements, t)[1])
    step(f'{tag}:st:positions', lambda: (t.positions, t)[1])
    # unpicklable payload: to_cache fails the same way and leaves the same file behind
    bad = Trajectory(species=species, coords=np.asarray(coords, dtype=float), lattice=lat, time_step=1e-15,
                     metadata={'temperature': 1, 'f': (lambda: 0)})
    step(f'{tag}:st:unpicklable', lambda: bad.to_cache(f'{tag}.bad.cache'))
    RECORDS.append({'label': f'{tag}:st:unpicklable:size', 'size': os.path.getsize(f'{tag}.bad.cache')})



class _Probe(BaseException):
    """Carries the cache argument out of a loader; not caught by `except Exception`."""


class _ProbeTrajectory(Trajectory):
    @classmethod
    def from_cache(cls, cache):
        raise _Probe(repr(cache))


def case_names(rng, tag):
    """Default cache file names for many option combinations, without parsing anything.

    Path.exists is patched to say yes and from_cache to report the file it was asked for.
    """
    def value(depth=0):
        k = int(rng.integers(0, 9 if depth < 2 else 7))
        if k == 0: return bool(rng.integers(0, 2))
        if k == 1: return int(rng.integers(-5, 1000))
        if k == 2: return float(rng.choice([0.0, -0.0, 1.5, 1e-15, 300.0, 1e22, float('inf'), float('nan')]))
        if k == 3: return None
        if k == 4: return str(rng.choice(['', 'x', 'Li', 'a b', 'café', 'αβ', 'q"uote', 'back\\slash']))
        if k == 5: return 300
        if k == 6: return 'atomic'
        if k == 7: return [value(depth + 1) for _ in range(int(rng.integers(0, 4)))]
        return {str(rng.choice(['a', 'b', 'Z', '1', '10', '2', 'é'])): value(depth + 1) for _ in range(int(rng.integers(0, 4)))}

    sources = ['run.xml', 'vasprun.xml', 'sub.dir/vasprun.xml', 'noext', 'a.b.c.xml', '.hidden', 'trail.', '/abs/p/x.xml',
               'sp ace.xml', 'x.xyz', 'traj.lammpstrj', 'md.xtc', 'md.part0001.trr', '..', '', 'dir/', 'a.xml.gz']
    flags = [True, False, 0, 1, None, '', 'yes', 0.0, 2]
    vasp_names = ['parse_dos', 'parse_eigen', 'parse_projected_eigen', 'parse_potcar_file', 'ionic_step_skip',
                  'ionic_step_offset', 'exception_on_bad_xml', 'separate_spins', 'occu_tol', 'zeta', 'Alpha', '_x']
    real_exists = Path.exists
    Path.exists = lambda self, *a, **k: True
    try:
        for j in range(40):
            src = str(rng.choice(sources))
            if rng.random() < 0.4:
                src = Path(src)
            which = int(rng.integers(0, 3))
            if which == 0:
                kw = {str(n): value() for n in rng.choice(vasp_names, size=int(rng.integers(0, 6)), replace=False)}
                pos = [src]
                if rng.random() < 0.7:
                    pos.append(rng.choice(['', None, 0]) if rng.random() < 0.8 else 'given.cache')
                    if rng.random() < 0.8:
                        pos.append(flags[int(rng.integers(0, len(flags)))])
                elif rng.random() < 0.5:
                    kw['constant_lattice'] = flags[int(rng.integers(0, len(flags)))]
                pos = [None if isinstance(x, np.generic) and False else x for x in pos]
                pos = [x.item() if isinstance(x, np.generic) else x for x in pos]
                call = lambda: _ProbeTrajectory.from_vasprun(*pos, **kw)  # noqa
                desc = ('vasp', repr(pos), repr(sorted(kw.items(), key=lambda kv: kv[0])))
            elif which == 1:
                kw = dict(coords_file=src, data_file=rng.choice(['d.data', 'x/y.data']).item() if rng.random() < 0.7 else Path('d.data'),
                          temperature=value(), time_step=value())
                if rng.random() < 0.5: kw['coords_format'] = str(rng.choice(['xyz', 'lammpsdump', '', 'a b', 'XYZ', '.x', 'x.']))
                if rng.random() < 0.25: kw['coords_format'] = [None, 5, 1.5, True, Path('sub/x'), Path('x'), b'xyz', ('a', 1)][int(rng.integers(0, 8))]
                if rng.random() < 0.5: kw['atom_style'] = str(rng.choice(['atomic', 'charge', 'full', '']))
                if rng.random() < 0.6: kw['type_mapping'] = rng.choice([None, {}, {'1': 'Li'}, {'2': 'S', '1': 'Li'}, {'1': 'Li', '2': 'S'}, {'a': {'b': 1}}])
                if rng.random() < 0.6: kw['constant_lattice'] = flags[int(rng.integers(0, len(flags)))]
                if rng.random() < 0.3: kw['cache'] = rng.choice(['', None, 'given.cache'])
                call = lambda: _ProbeTrajectory.from_lammps(**kw)  # noqa
                desc = ('lammps', repr(sorted(kw.items())))
            else:
                kw = dict(coords_file=src, topology_file=rng.choice(['t.gro', 'x/t.tpr']).item() if rng.random() < 0.7 else Path('t.gro'),
                          temperature=value())
                if rng.random() < 0.5: kw['edr_file'] = rng.choice([None, '', 'e.edr', 'x/e.edr'])
                if rng.random() < 0.3: kw['extract_edr'] = bool(rng.integers(0, 2))
                if rng.random() < 0.6: kw['constant_lattice'] = flags[int(rng.integers(0, len(flags)))]
                if rng.random() < 0.3: kw['cache'] = rng.choice(['', None, Path('given.cache')])
                call = lambda: _ProbeTrajectory.from_gromacs(**kw)  # noqa
                desc = ('gmx', repr(sorted(kw.items())))
            rec = {'label': f'{tag}:name{j}', 'call': desc}
            try:
                call()
                rec['cache'] = 'no probe?!'
            except _Probe as probe:
                rec['cache'] = str(probe)
            except Exception as exc:
                rec['exc'] = [type(exc).__name__, str(exc)]
            RECORDS.append(rec)
    finally:
        Path.exists = real_exists



class Failing(Trajectory):
    exc = None

    @classmethod
    def from_cache(cls, cache):
        print('from_cache called with', repr(cache))
        raise cls.exc


LOG = []


class Recording(Trajectory):
    def to_cache(self, cache):
        LOG.append(('to_cache', repr(cache), bool(self.coords_are_displacement)))
        if LOG.count(LOG[-1]) % 2:
            Path(cache).write_bytes(b'custom ' + repr(cache).encode())
        else:
            super().to_cache(cache)

    def to_positions(self):
        LOG.append(('to_positions',))
        super().to_positions()

    @classmethod
    def from_cache(cls, cache):
        LOG.append(('from_cache', repr(cache)))
        return super().from_cache(cache)


def case_hooks(rng, tag):
    """Loaders on subclasses whose from_cache / to_cache / to_positions hooks are overridden."""
    lat = random_cell(rng)
    species = random_species(rng)
    nfr = int(rng.integers(1, 5))
    frames = rng.uniform(-0.6, 1.6, size=(nfr, len(species), 3))
    xml = f'{tag}.xml'
    write_vasprun(xml, lat, species, frames, tebeg=300.0, potim=1.0)
    box = tuple(rng.uniform(4, 9, size=3)) + tuple(rng.uniform(-1.2, 1.2, size=3))
    data, xyz = f'{tag}.data', f'{tag}.xyz'
    write_lammps(data, xyz, box, species, rng.uniform(-4, 12, size=(nfr, len(species), 3)))
    names = [s.upper() + '1' for s in species]
    dims = [np.concatenate([rng.uniform(5, 9, size=3), rng.uniform(75, 105, size=3)])] * nfr
    gro, xtc = f'{tag}.gro', f'{tag}.xtc'
    write_gromacs(gro, xtc, dims, names, rng.uniform(-3, 12, size=(nfr, len(species), 3)), dt=1.0)
    loaders = {
        'vasp': lambda T, **kw: T.from_vasprun(xml, **kw),
        'vasp-npt': lambda T, **kw: T.from_vasprun(Path(xml), constant_lattice=False, **kw),
        'lammps': lambda T, **kw: T.from_lammps(coords_file=xyz, data_file=data, temperature=300, time_step=1, **kw),
        'gmx': lambda T, **kw: T.from_gromacs(topology_file=gro, coords_file=xtc, temperature=300, **kw),
    }
    failures = [StopIteration('stop'), StopIteration(), RuntimeError('boom'), KeyError('k'), OSError(5, 'io'), EOFError(),
                MemoryError('m'), pickle.UnpicklingError('u'), AssertionError(), ValueError('v\nw'), Exception(),
                GeneratorExit('g'), KeyboardInterrupt('kb'), SystemExit(3), RecursionError('deep'),
                UnicodeDecodeError('utf-8', b'\xff', 0, 1, 'bad'), ImportError('no module'), AttributeError('a')]
    for name, load in loaders.items():
        before = glob.glob('*cache*')
        step(f'{tag}:hooks:{name}:cold', lambda: load(Trajectory))
        new = new_cache_files(before)
        RECORDS.append({'label': f'{tag}:hooks:{name}:newcache', 'new': new})
        picks = [int(i) for i in rng.choice(len(failures), size=6, replace=False)]
        for i in picks:
            exc = failures[i]

            Failing.exc = exc
            step(f'{tag}:hooks:{name}:fail{i}', lambda: load(Failing))
            step(f'{tag}:hooks:{name}:fail{i}:explicit', lambda: load(Failing, cache=f'{tag}.{name}.pkl'))
            step(f'{tag}:hooks:{name}:fail{i}:after', lambda: load(Trajectory))

        log = LOG
        del log[:]
        for f in glob.glob('*cache*') + glob.glob('*.pkl'):
            os.remove(f)
        for j, kw in enumerate([{}, {'cache': f'{tag}.{name}.rec.pkl'}, {'cache': Path(f'{tag}.{name}.rec.pkl')}, {'cache': ''}]):
            step(f'{tag}:hooks:{name}:rec{j}', lambda: load(Recording, **kw))
            step(f'{tag}:hooks:{name}:rec{j}:again', lambda: load(Recording, **kw))
            step(f'{tag}:hooks:{name}:rec{j}:plain', lambda: load(Trajectory, **kw))
            RECORDS.append({'label': f'{tag}:hooks:{name}:rec{j}:log', 'log': repr(log)})
            del log[:]
        for f in glob.glob('*cache*') + glob.glob('*.pkl'):
            os.remove(f)



rng = np.random.default_rng(20260116)
kinds = [case_vasprun, case_lammps, case_gromacs, case_roundtrip, case_state, case_names, case_hooks]
for case in range(N_CASES):
    kinds[case % len(kinds)](rng, f'c{case:02d}')

json.dump(RECORDS, sys.stdout)
'''


def run(src: str, workdir: str, driver: str) -> list:
    if os.path.exists(workdir):
        shutil.rmtree(workdir)
    os.makedirs(workdir)
    env = dict(os.environ, PYTHONPATH=src, PYTHONHASHSEED='0')
    proc = subprocess.run([sys.executable, '-W', 'ignore', driver, src, str(N_CASES)], cwd=workdir, env=env,
                          capture_output=True, text=True)
    if proc.returncode != 0:
        print(proc.stderr[-4000:])
        raise SystemExit(f'driver failed for {src}')
    return json.loads(proc.stdout)


def main() -> int:
    top = tempfile.mkdtemp(prefix='c16_equiv_')
    try:
        driver = os.path.join(top, 'driver.py')
        with open(driver, 'w') as f:
            f.write(DRIVER)
        work = os.path.join(top, 'work')  # identical path for both runs
        orig_src = original_src(top)
        print(f'original: {orig_src}   refactored: {NEW_SRC}')
        ref = run(orig_src, work, driver)
        new = run(NEW_SRC, work, driver)
    finally:
        shutil.rmtree(top, ignore_errors=True)

    if os.environ.get('EQUIV_DUMP'):
        with open(os.environ['EQUIV_DUMP'], 'w') as f:
            json.dump({'orig': ref, 'new': new}, f)
    n_ok = sum('result' in r and 'notraj' not in r['result'] for r in ref)
    n_exc = sum('exc' in r for r in ref)
    n_names = sum('cache' in r for r in ref)
    n_fallback = sum('Error reading from cache' in r.get('stdout', '') for r in ref)
    print(f'{N_CASES} cases, {len(ref)} records: {n_ok} trajectories, {n_exc} exceptions, {n_fallback} cache fallbacks, {n_names} probed cache names')
    bad = 0
    if len(ref) != len(new):
        print(f'DIFF: record count {len(ref)} vs {len(new)}')
        bad += 1
    for a, b in zip(ref, new):
        if a != b:
            bad += 1
            if bad <= 10:
                print('DIFF at', a.get('label'))
                for k in sorted(set(a) | set(b)):
                    if a.get(k) != b.get(k):
                        print('   ', k, '\n      orig:', str(a.get(k))[:600], '\n      new :', str(b.get(k))[:600])
    if bad:
        print(f'FAILED: {bad} differing records')
        return 1
    print('OK: original and refactored implementations agree on every record')
    return 0


if __name__ == '__main__':
    sys.exit(main())
