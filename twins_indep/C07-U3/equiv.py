"""Differential test for refactoring 3 (rdf.radial_distribution: per-frame generator, two-step row/column selection,
itertools.product in _get_states, np.flatnonzero in _get_symbol_indices).

The same randomised cases are run once against the ORIGINAL tree and once against the refactored worktree,
each in its own subprocess (PYTHONPATH decides which gemdat is imported); the pickled results are compared.
gemdat.rdf orders labels through list(set(labels)), which depends on string hashing, so both trees are run with
the same PYTHONHASHSEED; the whole comparison is repeated for several hash seeds.
Exit code 0 iff every result is identical.

ORIGINAL tree: /repo/src (read-only).  It can be redirected with GEMDAT_ORIG_SRC=<dir>, e.g. to an export of
the untouched HEAD (`git -C /tmp/wtu_C07 archive HEAD src | tar -x -C <dir>`).
"""
import os
import pickle
import subprocess
import sys
import tempfile

ORIG = os.environ.get('GEMDAT_ORIG_SRC', '/repo/src')
NEW = '/tmp/wtu_C07/src'
HASH_SEEDS = ('0', '1', '12345')
N_HELPER = 30
N_DIRECT = 24
N_PIPELINE = 12


def arr(a):
    import numpy as np

    a = np.asarray(a)
    return (str(a.dtype), a.shape, a.tolist())


def rdf_summary(rdfs):
    return [
        (state, type(coll).__name__, [(d.label, d.state, arr(d.x), arr(d.y)) for d in coll])
        for state, coll in rdfs.items()
    ]


def call(func, summarize, *args, **kwargs):
    try:
        return ('ok', summarize(func(*args, **kwargs)))
    except Exception as exc:
        return ('exc', type(exc).__name__, str(exc))


def random_matrix(rng, kind):
    import numpy as np
    from pymatgen.core import Lattice
    from scipy.spatial.transform import Rotation

    if kind == 0:
        return np.eye(3) * rng.uniform(5, 8)
    if kind == 1:
        return np.diag(rng.uniform(5, 9, size=3))
    m = Lattice.from_parameters(*rng.uniform(5, 9, size=3), *rng.uniform(65, 115, size=3)).matrix.copy()
    if kind == 3:
        m = m @ Rotation.from_rotvec(rng.normal(size=3)).as_matrix().T
    return m


LABEL_POOL = ['A', 'B', 'Li1', 'Li2', '48h', '24g', 'x', '']


def run_helper_case(seed):
    import numpy as np
    from gemdat import rdf
    from pymatgen.core import Lattice, Structure

    rng = np.random.default_rng(seed)
    n_labels = int(rng.integers(1, 5))
    pool = list(rng.permutation(LABEL_POOL)[:n_labels])
    labels = [str(x) for x in rng.choice(pool, size=int(rng.integers(1, 9)))]
    out = {'labels': labels}
    out['states'] = call(rdf._get_states, lambda d: [(type(k).__name__, k, v) for k, v in d.items()], labels)
    states = rng.integers(-1, len(labels), size=(int(rng.integers(1, 6)), int(rng.integers(1, 5))))
    out['uniqify'] = call(rdf._uniqify_labels, arr, states, labels)
    elements = [str(x) for x in rng.choice(['Li', 'S', 'P', 'Cl', 'O'], size=int(rng.integers(1, 8)))]
    species = [e if rng.random() < 0.7 else e + ('+' if e in ('Li', 'P') else '2-') for e in elements]
    structure = Structure(Lattice(random_matrix(rng, seed % 4)), species, rng.random((len(species), 3)))
    out['symbol_indices'] = call(rdf._get_symbol_indices, lambda d: [(k, arr(v)) for k, v in d.items()],
                                 structure)
    return out


def make_trajectory(rng, seed, n_steps, n_li, others):
    import numpy as np
    from gemdat import Trajectory
    from pymatgen.core import Element

    matrix = random_matrix(rng, seed % 4)
    n_atoms = n_li + len(others)
    base = rng.random((n_atoms, 3))
    walk = np.cumsum(rng.normal(scale=0.02, size=(n_steps, n_atoms, 3)), axis=0)
    walk[:, n_li:] *= 0.1
    coords = base + walk
    if seed % 3 != 2:
        coords = np.mod(coords + rng.uniform(-1, 1, size=3), 1.0)  # atoms wrap through the cell faces
    order = rng.permutation(n_atoms) if seed % 2 else np.arange(n_atoms)
    species = [Element(s) for s in np.array(['Li'] * n_li + others)[order]]
    traj = Trajectory(species=species, coords=coords[:, order], lattice=matrix, time_step=1e-15,
                      metadata={'temperature': 300})
    return traj, matrix


def run_direct_case(seed):
    """Transitions built directly from random state arrays: every kind of state name ('@A', '~>A', 'A->B')."""
    import numpy as np
    import pandas as pd
    from gemdat.rdf import radial_distribution
    from gemdat.transitions import Transitions
    from pymatgen.core import Lattice, Structure

    rng = np.random.default_rng(1_000 + seed)
    n_steps = int(rng.integers(1, 25))
    n_li = int(rng.integers(1, 5))
    others = [str(x) for x in rng.choice(['S', 'P', 'Cl'], size=int(rng.integers(0, 5)))]
    traj, matrix = make_trajectory(rng, seed, n_steps, n_li, others)
    n_sites = int(rng.integers(1, 7))
    pool = list(rng.permutation(LABEL_POOL[:7])[: int(rng.integers(1, 4))])
    labels = [str(x) for x in rng.choice(pool, size=n_sites)]
    sites = Structure(Lattice(matrix), ['Li'] * n_sites, rng.random((n_sites, 3)), labels=labels)
    states = np.full((n_steps, n_li), -1)
    for a in range(n_li):
        t = 0
        while t < n_steps:
            dwell = int(rng.integers(1, 6))
            states[t:t + dwell, a] = int(rng.integers(-1, n_sites))
            t += dwell
    if seed % 5 == 0:
        states[:] = -1  # nobody is ever at a site
    if seed % 5 == 1:
        states[:] = 0  # everybody always at site 0
    transitions = Transitions(trajectory=traj, diff_trajectory=traj.filter('Li'), sites=sites,
                              events=pd.DataFrame(), states=states, inner_states=states.copy())
    out = {}
    for max_dist, resolution in ((5.0, 0.1), (3.0, 0.25), (float(rng.uniform(1, 8)), float(rng.uniform(0.05, 1)))):
        out[max_dist, resolution] = call(radial_distribution, rdf_summary, transitions=transitions,
                                         floating_specie='Li', max_dist=max_dist, resolution=resolution)
    out['default'] = call(transitions.radial_distribution, rdf_summary, floating_specie='Li')
    out['missing specie'] = call(radial_distribution, rdf_summary, transitions=transitions, floating_specie='Na')
    return out


def run_pipeline(seed):
    """Trajectory -> Transitions.from_trajectory -> radial_distribution, sites and atoms shifted together."""
    import warnings

    import numpy as np
    from gemdat import Trajectory
    from gemdat.transitions import Transitions
    from pymatgen.core import Element, Lattice, Structure

    rng = np.random.default_rng(2_000 + seed)
    matrix = random_matrix(rng, seed % 4)
    grid = np.array([(i, j, k) for i in range(2) for j in range(2) for k in range(2)]) / 2.0
    n_sites = int(rng.integers(2, 9))
    site_frac = grid[rng.permutation(8)[:n_sites]] + rng.uniform(-0.03, 0.03, size=(n_sites, 3))
    n_li = int(rng.integers(1, 4))
    n_steps = int(rng.integers(20, 60))
    coords = np.zeros((n_steps, n_li + 3, 3))
    for a in range(n_li):
        cur = int(rng.integers(n_sites))
        t = 0
        while t < n_steps:
            dwell = int(rng.integers(2, 10))
            coords[t:t + dwell, a] = site_frac[cur]
            t += dwell
            nxt = int(rng.integers(n_sites))
            delta = site_frac[nxt] - site_frac[cur]
            delta -= np.round(delta)
            for g in range(int(rng.integers(0, 3))):
                if t < n_steps:
                    coords[t, a] = site_frac[cur] + delta * (g + 1) / 3
                    t += 1
            cur = nxt
    coords[:, :n_li] += rng.normal(scale=0.004, size=(n_steps, n_li, 3))
    coords[:, n_li:] = rng.random((3, 3)) + rng.normal(scale=0.002, size=(n_steps, 3, 3))
    shift = rng.uniform(-1, 1, size=3) if seed % 2 else np.zeros(3)
    coords = np.mod(coords + shift, 1.0)
    site_frac = np.mod(site_frac + shift, 1.0)
    labels = [('A', 'B', 'C')[int(x)] for x in rng.integers(0, 3, size=n_sites)]
    sites = Structure(Lattice(matrix), ['Li'] * n_sites, site_frac, labels=labels)
    traj = Trajectory(species=[Element('Li')] * n_li + [Element('S'), Element('P'), Element('S')], coords=coords,
                      lattice=matrix, time_step=1e-15, metadata={'temperature': 300})
    with warnings.catch_warnings():
        warnings.simplefilter('ignore')
        try:
            transitions = Transitions.from_trajectory(trajectory=traj, sites=sites, floating_specie='Li',
                                                      site_radius=float(rng.uniform(0.5, 1.0)))
        except Exception as exc:
            return ('exc-transitions', type(exc).__name__, str(exc))
        return {
            'rdf': call(transitions.radial_distribution, rdf_summary, floating_specie='Li', max_dist=6.0,
                        resolution=0.2),
            'n_nosite': int((transitions.states == -1).sum()),
        }


def worker(path):
    results = {}
    for seed in range(N_HELPER):
        results['helper', seed] = run_helper_case(seed)
    for seed in range(N_DIRECT):
        results['direct', seed] = run_direct_case(seed)
    for seed in range(N_PIPELINE):
        results['pipeline', seed] = run_pipeline(seed)
    with open(path, 'wb') as fh:
        pickle.dump(results, fh)


def run_tree(src, path, hash_seed):
    env = dict(os.environ, PYTHONPATH=src, PYTHONHASHSEED=hash_seed)
    subprocess.run([sys.executable, os.path.abspath(__file__), '--worker', path], env=env, check=True,
                   stdout=subprocess.DEVNULL)
    with open(path, 'rb') as fh:
        return pickle.load(fh)


def main():
    total_differing = 0
    for hash_seed in HASH_SEEDS:
        with tempfile.TemporaryDirectory() as td:
            a = run_tree(ORIG, os.path.join(td, 'orig.pkl'), hash_seed)
            b = run_tree(NEW, os.path.join(td, 'new.pkl'), hash_seed)
        assert a.keys() == b.keys()
        differing = [k for k in a if a[k] != b[k]]
        calls = [v for case in a.values() if isinstance(case, dict) for v in case.values()
                 if isinstance(v, tuple) and v and v[0] in ('ok', 'exc')]
        n_ok = sum(1 for v in calls if v[0] == 'ok')
        n_exc = sum(1 for v in calls if v[0] == 'exc')
        state_names = {s[0] for case in a.values() if isinstance(case, dict) for v in case.values()
                       if isinstance(v, tuple) and v and v[0] == 'ok' and isinstance(v[1], list)
                       for s in v[1] if isinstance(s, tuple) and len(s) == 3 and isinstance(s[2], list)
                       and isinstance(s[0], str)}
        kinds = (sum(n.startswith('@') for n in state_names), sum(n.startswith('~>') for n in state_names),
                 sum('->' in n for n in state_names))
        print(f'PYTHONHASHSEED={hash_seed}: cases={len(a)} calls_ok={n_ok} exceptions={n_exc} '
              f'distinct_state_names(@,~>,->)={kinds} differing={len(differing)}')
        for k in differing[:10]:
            print('  DIFFERS', k)
        total_differing += len(differing)
    sys.exit(1 if total_differing else 0)


if __name__ == '__main__':
    if len(sys.argv) == 3 and sys.argv[1] == '--worker':
        import gemdat  # noqa: F401

        expected = os.environ['PYTHONPATH'].split(os.pathsep)[0]
        assert os.path.abspath(gemdat.__file__).startswith(os.path.abspath(expected)), gemdat.__file__
        worker(sys.argv[2])
    else:
        main()
