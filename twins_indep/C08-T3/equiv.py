"""Differential test: Volume voxel <-> fractional/cartesian conversions and voxel_size
(original /repo/src vs refactored worktree). Each tree runs in its own subprocess with the
same seeded random inputs; results are compared bit-for-bit (dtype, shape, bytes)."""
import os
import pickle
import subprocess
import sys

WORKER = r'''
import pickle, sys, warnings
import numpy as np
warnings.filterwarnings('ignore')
from pymatgen.core import Lattice, PeriodicSite, Structure
import gemdat
from gemdat.volume import Volume, trajectory_to_volume
assert gemdat.__file__.startswith(sys.argv[1]), (gemdat.__file__, sys.argv[1])

def make_lattice(rng, kind):
    if kind == 0:
        return Lattice.cubic(rng.uniform(1.0, 9.0))
    if kind == 1:
        return Lattice.orthorhombic(*rng.uniform(1.0, 9.0, 3))
    if kind == 2:
        return Lattice.from_parameters(*rng.uniform(2.0, 9.0, 3), *rng.uniform(60, 120, 3))
    if kind == 3:
        return Lattice(rng.normal(size=(3, 3)) * 3 + np.eye(3) * 4)
    return Lattice.hexagonal(rng.uniform(2, 6), rng.uniform(2, 9))

def enc(v):
    v = np.asarray(v)
    return (v.dtype.str, v.shape, v.tobytes())

def run(fn):
    try:
        return ('ok',) + enc(fn())
    except BaseException as e:
        return ('exc', type(e).__name__)

out = []
rng = np.random.default_rng(8)
for case in range(40):
    lat = make_lattice(rng, case % 5)
    dims = tuple(int(d) for d in rng.integers(1, 40, 3))
    if case % 7 == 0:
        dims = (1, 1, int(rng.integers(1, 500)))
    vol = Volume(data=rng.integers(0, 9, size=dims), lattice=lat)
    out.append(run(lambda: vol.voxel_size))
    # every index along the diagonal-ish + random voxels; several container types
    vox = np.stack([rng.integers(0, d, 25) for d in dims], axis=1)
    for v in (vox[0], vox[0].tolist(), tuple(vox[1].tolist()), vox, vox.tolist(), vox.astype(float) + 0.25,
              -vox[2], np.array(dims), np.array(dims) - 1, [0, 0, 0], np.zeros((0, 3), dtype=int)):
        out.append(run(lambda: vol.voxel_to_frac_coords(v)))
        out.append(run(lambda: vol.voxel_to_cart_coords(v)))
        # round trip
        out.append(run(lambda: vol.frac_coords_to_voxel(vol.voxel_to_frac_coords(v))))
    fr = rng.uniform(-1.2, 2.2, size=(25, 3))
    edge = rng.integers(-2 * max(dims), 2 * max(dims), size=(25, 3)) / np.array(dims)  # on voxel faces
    for f in (fr[0], fr[0].tolist(), tuple(fr[1]), fr, fr.tolist(), edge, edge[3], np.ones(3), np.zeros(3),
              np.array([np.nextafter(1.0, 0.0)] * 3), np.array([-1e-18, 1 - 1e-17, 0.5]), [0, 1, 2],
              np.zeros((0, 3))):
        out.append(run(lambda: vol.frac_coords_to_voxel(f)))
    for f in (fr[2], edge[5], [0.0, 0.0, 1.0], -fr[3]):
        site = PeriodicSite('Li', f, lat)
        out.append(run(lambda: vol.site_to_voxel(site)))
    struct = Structure(lat, ['Li', 'Na'], [edge[7], fr[4]])
    for site in struct:
        out.append(run(lambda: vol.site_to_voxel(site)))
# full round trip for every index of every grid size up to a bound
for n in range(1, 400):
    vol = Volume(data=np.zeros((n, 1, 1 + n % 3)), lattice=Lattice.cubic(3.0))
    idx = np.zeros((n, 3), dtype=int); idx[:, 0] = np.arange(n)
    out.append(run(lambda: vol.frac_coords_to_voxel(vol.voxel_to_frac_coords(idx))))
# wrong shapes / types -> same exception type
vol = Volume(data=np.zeros((3, 4, 5)), lattice=Lattice.cubic(3.0))
for bad in ([1, 2], 'abc', None, [[1, 2, 3, 4]], np.zeros((2, 2))):
    out.append(run(lambda: vol.voxel_to_frac_coords(bad)))
    out.append(run(lambda: vol.frac_coords_to_voxel(bad)))
    out.append(run(lambda: vol.voxel_to_cart_coords(bad)))
vol2d = Volume(data=np.zeros((3, 4)), lattice=Lattice.cubic(3.0))
out.append(run(lambda: vol2d.voxel_size))
# voxel_size of a volume produced by trajectory_to_volume
from pymatgen.core import Element
for case in range(10):
    lat = make_lattice(rng, case % 5)
    traj = gemdat.Trajectory(species=[Element('Li')] * 3, coords=rng.uniform(-1, 2, (6, 3, 3)),
                             lattice=lat.matrix, time_step=1e-15, metadata={'temperature': 300})
    v = trajectory_to_volume(traj, resolution=float(rng.uniform(0.1, min(lat.lengths))))
    out.append(run(lambda: v.voxel_size))
    out.append(run(lambda: v.voxel_to_cart_coords(np.argwhere(v.data > 0))))
pickle.dump(out, sys.stdout.buffer)
'''


def collect(root):
    env = dict(os.environ, PYTHONPATH=root)
    p = subprocess.run(['/venv/bin/python', '-c', WORKER, root], env=env, capture_output=True)
    if p.returncode != 0:
        sys.stderr.write(p.stderr.decode())
        sys.exit(2)
    return pickle.loads(p.stdout)


orig = collect('/repo/src')
new = collect('/tmp/wtt_C08/src')
assert len(orig) == len(new) and len(orig) >= 20
bad = [i for i, (a, b) in enumerate(zip(orig, new)) if a != b]
n_ok = sum(1 for r in orig if r[0] == 'ok')
print(f'cases={len(orig)} ok_results={n_ok} exceptions={len(orig) - n_ok} differing={len(bad)}')
for i in bad[:10]:
    print('DIFF case', i, orig[i][:3], new[i][:3])
sys.exit(1 if bad else 0)
