"""Differential test for refactoring 4 (volume.trajectory_to_volume).

Runs the same randomised cases once against /repo/src (original) and once against
/tmp/wtt_C07/src (refactored), each in its own subprocess, and compares the pickled results.
Exit code 0 iff all results are identical.
"""
import os
import pickle
import subprocess
import sys
import tempfile

ORIG = '/repo/src'
NEW = '/tmp/wtt_C07/src'
N_CASES = 60


def random_matrix(rng, kind):
    import numpy as np
    from pymatgen.core import Lattice
    from scipy.spatial.transform import Rotation

    if kind == 0:
        return np.eye(3) * float(rng.choice([2.0, 3.0, 4.0, 1.0]))  # lengths that divide evenly
    if kind == 1:
        return np.diag(rng.uniform(1.5, 6, size=3))
    m = Lattice.from_parameters(*rng.uniform(2, 7, size=3), *rng.uniform(65, 115, size=3)).matrix.copy()
    if kind == 3:
        m = m @ Rotation.from_rotvec(rng.normal(size=3)).as_matrix().T
    return m


def run_case(seed):
    import warnings

    import numpy as np
    from pymatgen.core import Element

    import gemdat
    from gemdat.volume import trajectory_to_volume

    rng = np.random.default_rng(seed)
    m = random_matrix(rng, seed % 4)
    n_steps, n_li, n_s = int(rng.integers(1, 30)), int(rng.integers(1, 6)), int(rng.integers(0, 3))
    n_atoms = n_li + n_s
    base = rng.random((1, n_atoms, 3))
    coords = base + np.cumsum(rng.normal(scale=0.05, size=(n_steps, n_atoms, 3)), axis=0)
    coords += rng.integers(-2, 3, size=(1, n_atoms, 1))  # unwrapped periodic images
    if seed % 5 == 0:
        coords[0, 0] = [0.0, 0.0, 0.0]
        coords[-1, 0] = [1.0, -1e-18, 1 - 1e-17]  # wraps to exactly 0 / tiny negative / 1.0
    if seed % 5 == 1:
        # atoms exactly on voxel boundaries of a 0.5 A grid
        coords[:, 0] = np.round(coords[:, 0] * 4) / 4
    if seed % 7 == 3:
        coords[:] = coords[0]  # static: all counts in few voxels
    traj = gemdat.Trajectory(
        species=[Element('Li')] * n_li + [Element('S')] * n_s, coords=coords, lattice=m,
        time_step=1e-15, metadata={'temperature': 300},
    )
    if seed % 9 == 4:
        resolution = 50.0  # coarser than the cell -> zero-size grid (error path)
    elif seed % 9 == 5:
        resolution = float(min(np.linalg.norm(m, axis=1)))  # exactly one cell length
    else:
        resolution = float(rng.choice([0.2, 0.5, 0.25, 0.3, 1.0, 0.7]))

    out = {}
    for name, trj in (('all', traj), ('li', traj.filter('Li')), ('s', traj.filter('S'))):
        try:
            vol = trajectory_to_volume(trj, resolution=resolution)
            assert vol.data.sum() == trj.positions.shape[0] * trj.positions.shape[1]
            with warnings.catch_warnings(), np.errstate(all='ignore'):
                warnings.simplefilter('ignore')
                fe = vol.get_free_energy(temperature=300.0)
            out[name] = (
                'ok', str(vol.data.dtype), vol.data.shape, vol.data.flags['C_CONTIGUOUS'],
                vol.data.tolist(), vol.label, vol.dims, str(vol.units),
                vol.lattice.matrix.tolist(), vol.voxel_size.tolist(), fe.data.tolist(),
                type(vol).__name__,
            )
        except Exception as exc:
            out[name] = ('exc', type(exc).__name__, str(exc))
    try:
        vol = traj.to_volume(resolution=resolution)
        out['method'] = ('ok', vol.data.tolist())
    except Exception as exc:
        out['method'] = ('exc', type(exc).__name__, str(exc))
    return out


def worker(path):
    import gemdat

    results = {'__file__': os.path.dirname(gemdat.__file__)}
    for seed in range(N_CASES):
        results[seed] = run_case(seed)
    with open(path, 'wb') as fh:
        pickle.dump(results, fh)


def main():
    with tempfile.TemporaryDirectory() as td:
        outs = {}
        for tag, src in (('orig', ORIG), ('new', NEW)):
            path = os.path.join(td, tag + '.pkl')
            env = dict(os.environ, PYTHONPATH=src, PYTHONHASHSEED='0')
            subprocess.run([sys.executable, os.path.abspath(__file__), '--worker', path],
                           env=env, check=True)
            with open(path, 'rb') as fh:
                outs[tag] = pickle.load(fh)
    assert outs['orig'].pop('__file__') == ORIG + '/gemdat', 'original not imported from /repo'
    assert outs['new'].pop('__file__') == NEW + '/gemdat', 'refactored not imported from worktree'
    assert outs['orig'].keys() == outs['new'].keys()

    bad = n_ok = n_exc = 0
    for seed, a in outs['orig'].items():
        b = outs['new'][seed]
        if a != b:
            bad += 1
            for key in a:
                if a[key] != b.get(key):
                    print(f'DIFF seed={seed} key={key}\n  orig={str(a[key])[:300]}\n  new ={str(b.get(key))[:300]}')
        for key in a:
            n_ok += a[key][0] == 'ok'
            n_exc += a[key][0] == 'exc'
    print(f'cases={len(outs["orig"])} volumes_ok={n_ok} exceptions={n_exc} differing={bad}')
    sys.exit(1 if bad else 0)


if __name__ == '__main__':
    if len(sys.argv) == 3 and sys.argv[1] == '--worker':
        worker(sys.argv[2])
    else:
        main()
