"""Differential test for refactoring 2 (TrajectoryMetricsStd: methodcaller gathering + shared summarising helpers).

Runs the same randomised trajectories through the ORIGINAL code (/repo/src, read-only) and the
refactored code (/tmp/wtu_C14/src), each in its own subprocess, and compares bit-for-bit.
"""
import os
import pickle
import subprocess
import sys
import tempfile

ORIG = '/repo/src'
NEW = '/tmp/wtu_C14/src'
N_CASES = 40


def random_lattice(rng, kind):
    import numpy as np
    from pymatgen.core import Lattice

    a, b, c = rng.uniform(3.0, 12.0, 3)
    if kind == 0:
        return Lattice.cubic(a)
    if kind == 1:
        return Lattice.orthorhombic(a, b, c)
    if kind == 2:
        return Lattice.from_parameters(a, b, c, *rng.uniform(60, 120, 3))
    if kind == 3:
        return Lattice.hexagonal(a, c)
    # rotated triclinic cell
    base = Lattice.from_parameters(a, b, c, *rng.uniform(65, 115, 3)).matrix
    q, _ = np.linalg.qr(rng.normal(size=(3, 3)))
    if np.linalg.det(q) < 0:
        q[:, 0] *= -1
    return Lattice(base @ q)


def make_cases():
    import numpy as np
    from pymatgen.core import Element, Species

    from gemdat import Trajectory

    rng = np.random.default_rng(20261001)
    pool = [Element('Li'), Element('Na'), Element('S'), Element('P'), Species('Li', 1), Species('O', -2)]
    cases = []
    for i in range(N_CASES):
        n_atoms = int(rng.integers(1, 7))
        n_frames = int(rng.choice([2, 3, 4, 5, 17, 64, 150]))
        lattice = random_lattice(rng, i % 5)
        step = rng.choice([0.002, 0.02, 0.2])  # large steps => atoms cross cell faces
        start = rng.uniform(0, 1, size=(1, n_atoms, 3))
        incr = rng.normal(scale=step, size=(n_frames, n_atoms, 3))
        mode = i % 8
        if mode == 1:  # one atom at rest (all speeds zero)
            incr[:, 0, :] = 0.0
        elif mode == 2:  # rigid translation, monotone distances
            incr[:] = np.abs(incr[:, :1, :])
        elif mode == 3:  # piecewise constant: zero speeds interleaved with moves
            incr[::2] = 0.0
        elif mode == 4:  # oscillation with exact sign alternation
            incr = np.tile(np.array([step, -step])[:, None, None], (n_frames // 2 + 1, n_atoms, 3))[:n_frames]
        elif mode == 5:  # start on a cell face
            start[:] = np.round(start)
        coords = start + np.cumsum(incr, axis=0)
        coords[0] = start[0]
        if mode == 6:
            coords = coords % 1.0
        species = [pool[int(k)] for k in rng.integers(0, len(pool), n_atoms)]
        traj = Trajectory(
            species=species,
            coords=coords,
            lattice=lattice,
            time_step=float(rng.choice([1e-15, 2e-15, 5e-16])),
            metadata={'temperature': float(rng.choice([300, 650, 1000]))},
        )
        cases.append(traj)
    return cases


def attempt(fn):
    import warnings

    try:
        with warnings.catch_warnings():
            warnings.simplefilter('ignore')
            return ('ok', fn())
    except Exception as exc:  # noqa: BLE001
        return ('err', type(exc).__name__, str(exc))


def describe(x):
    """Flatten a ufloat into comparable primitives (values, types and units)."""
    return (
        type(x).__name__,
        float(x.n),
        float(x.s),
        type(x.n).__name__,
        str(getattr(x.n, 'unit', None)),
        type(x.std_dev).__name__,
        str(getattr(x.std_dev, 'unit', None)),
        repr(x),
    )


def worker(out):
    import numpy as np

    from gemdat.metrics import TrajectoryMetricsStd

    results = []
    for i, traj in enumerate(make_cases()):
        rec = {}
        variants = {
            'whole': [traj],
            'twice': [traj, traj],
            'none': [],
        }
        for n_parts in (2, 3, 5, 10):
            if len(traj) > n_parts:
                variants[f'eq{n_parts}'] = traj.split(n_parts, equal_parts=True)
                variants[f'ragged{n_parts}'] = traj.split(n_parts, equal_parts=False)
        if i % 3 == 0 and len(traj) > 4:
            # sub-trajectories without a temperature -> conductivity raises
            parts = traj.split(2, equal_parts=True)
            parts[1].metadata = {}
            variants['no_temperature'] = parts
        for name, parts in variants.items():
            ms = TrajectoryMetricsStd(parts)
            rec[name, 'n_metrics'] = attempt(lambda: (type(ms.metrics).__name__, len(ms.metrics)))
            rec[name, 'speed'] = attempt(lambda: tuple(np.array(x) for x in ms.speed()))
            rec[name, 'speed_type'] = attempt(lambda: type(ms.speed()).__name__)
            rec[name, 'amplitudes'] = attempt(lambda: tuple(np.array(x) for x in ms.amplitudes()))
            rec[name, 'vib'] = attempt(lambda: describe(ms.vibration_amplitude()))
            for dims in (1, 2, 3):
                rec[name, 'diff', dims] = attempt(lambda: describe(ms.tracer_diffusivity(dimensions=dims)))
                for z in (1, -2):
                    rec[name, 'cond', dims, z] = attempt(
                        lambda: describe(ms.tracer_conductivity(z_ion=z, dimensions=dims))
                    )
        results.append(rec)
    with open(out, 'wb') as fh:
        pickle.dump(results, fh)


def same(a, b):
    import numpy as np

    if isinstance(a, (tuple, list)):
        return type(a) is type(b) and len(a) == len(b) and all(same(x, y) for x, y in zip(a, b))
    if isinstance(a, np.ndarray):
        return (
            isinstance(b, np.ndarray)
            and a.shape == b.shape
            and a.dtype == b.dtype
            and np.array_equal(a, b, equal_nan=a.dtype.kind == 'f')
        )
    if isinstance(a, float) and a != a:
        return isinstance(b, float) and b != b
    return a == b


def main():
    outs = []
    with tempfile.TemporaryDirectory() as td:
        for tag, src in (('orig', ORIG), ('new', NEW)):
            out = os.path.join(td, tag + '.pkl')
            env = dict(os.environ, PYTHONPATH=src)
            subprocess.run([sys.executable, os.path.abspath(__file__), '--worker', out], check=True, env=env)
            with open(out, 'rb') as fh:
                outs.append(pickle.load(fh))
    orig, new = outs
    assert len(orig) == len(new) and len(orig) >= 20
    bad = 0
    n_ok = 0
    for i, (ro, rn) in enumerate(zip(orig, new)):
        for key in ro:
            n_ok += ro[key][0] == 'ok'
            if not same(ro[key], rn[key]):
                bad += 1
                print(f'DIFF case {i} {key}:\n  orig={ro[key]}\n  new ={rn[key]}')
    print(f'cases={len(orig)} ok-results={n_ok} differences={bad}')
    sys.exit(1 if bad else 0)


if __name__ == '__main__':
    if len(sys.argv) > 2 and sys.argv[1] == '--worker':
        import gemdat

        assert os.path.abspath(gemdat.__file__).startswith(os.environ['PYTHONPATH']), gemdat.__file__
        worker(sys.argv[2])
    else:
        main()
