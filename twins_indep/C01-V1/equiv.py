"""Differential test for refactoring 1 (Trajectory.to_positions -> _wrap_to_unit_cell helper).

Runs the same randomised workload once with PYTHONPATH=/repo/src (original) and once with
PYTHONPATH=/tmp/wtu_C01/src (refactored) in subprocesses, and compares every result bit for bit.
"""
import os
import pickle
import subprocess
import sys
import tempfile

import numpy as np

ORIG = '/repo/src'
NEW = '/tmp/wtu_C01/src'
N_CASES = 40


def random_lattice(rng, kind):
    from pymatgen.core import Lattice
    if kind == 0:
        return Lattice.cubic(rng.uniform(3, 12))
    if kind == 1:
        return Lattice.from_parameters(*rng.uniform(3, 12, 3), *rng.uniform(60, 120, 3))
    if kind == 2:  # rotated triclinic
        m = Lattice.from_parameters(*rng.uniform(3, 12, 3), *rng.uniform(70, 110, 3)).matrix
        q, _ = np.linalg.qr(rng.normal(size=(3, 3)))
        return Lattice(m @ q)
    return Lattice.hexagonal(rng.uniform(3, 6), rng.uniform(4, 12))


def make_coords(rng, case):
    n_t = int(rng.integers(1, 30))
    n_s = int(rng.integers(1, 7))
    start = rng.uniform(-1, 2, size=(1, n_s, 3))
    steps = rng.normal(scale=0.08, size=(n_t, n_s, 3))
    coords = start + np.cumsum(steps, axis=0)
    mode = case % 5
    if mode == 1:  # exact faces and tiny offsets around them
        specials = np.array([0.0, 1.0, -1.0, 2.0, -1e-17, 1e-17, 1 - 1e-16, -1e-300, 5e-324, -5e-324,
                             -0.0, 1 + 2e-16, -2.0 - 1e-16, 0.5, 3.0])
        mask = rng.random(coords.shape) < 0.5
        coords[mask] = rng.choice(specials, size=int(mask.sum()))
    elif mode == 2:  # whole lattice shifts
        coords = coords + rng.integers(-4, 5, size=coords.shape)
    elif mode == 3:  # large magnitudes
        coords = coords * 1e3
    elif mode == 4:  # fortran ordered / float32-origin values
        coords = np.asfortranarray(coords.astype(np.float32).astype(np.float64))
    return coords


def worker(out):
    from pymatgen.core import Element
    import gemdat
    from gemdat import Trajectory
    assert gemdat.__file__.startswith(os.environ['PYTHONPATH']), gemdat.__file__
    results = []
    pool = ['Li', 'Na', 'S', 'P', 'O', 'Cl']
    for case in range(N_CASES):
        rng = np.random.default_rng(1000 + case)
        lattice = random_lattice(rng, case % 4)
        coords = make_coords(rng, case)
        n_s = coords.shape[1]
        species = [Element(pool[int(i)]) for i in rng.integers(0, len(pool), n_s)]
        res = {}

        def build(c=coords, **kw):
            return Trajectory(species=species, coords=c.copy(), lattice=lattice, time_step=1e-15,
                              metadata={'temperature': 300}, **kw)

        t = build()
        res['pos'] = t.positions
        res['pos_dtype'] = str(t.positions.dtype)
        res['disp'] = build().displacements
        t = build()
        _ = t.displacements
        res['pos_roundtrip'] = t.positions            # goes through super().to_positions() cumsum branch
        res['pos_again'] = t.positions
        res['flag'] = t.coords_are_displacement
        res['cum'] = build().cumulative_displacements
        res['dist'] = build().distances_from_base_position()
        res['filter'] = build().filter(species[0].symbol).positions
        res['filter_none'] = build().filter('Xe').positions
        res['drift'] = build().drift()
        res['corrected'] = build().apply_drift_correction().positions
        res['com'] = build().center_of_mass().positions
        res['slice'] = build()[::2].positions
        # displacement-constructed trajectory
        d = build().displacements
        t2 = Trajectory(species=species, coords=d, lattice=lattice, time_step=1e-15, coords_are_displacement=True,
                        base_positions=coords[0] + rng.integers(-3, 4, size=coords[0].shape))
        res['from_disp'] = t2.positions
        # direct call of to_positions: return value and in-place state
        t3 = build()
        res['ret'] = t3.to_positions()
        res['coords_after'] = t3.coords
        if case % 7 == 0:   # integer coordinates
            ti = Trajectory(species=species, coords=rng.integers(-3, 4, size=coords.shape), lattice=lattice,
                            time_step=1e-15)
            res['int_pos'] = ti.positions
            res['int_dtype'] = str(ti.positions.dtype)
        if case % 9 == 0:   # NaN / inf entries survive unchanged
            c = coords.copy()
            c[0, 0, 0] = np.nan
            with np.errstate(all='ignore'):
                res['nan_pos'] = build(c).positions
        results.append(res)
    with open(out, 'wb') as fh:
        pickle.dump(results, fh)


def same(a, b):
    if isinstance(a, np.ndarray) or isinstance(b, np.ndarray):
        a = np.asarray(a)
        b = np.asarray(b)
        return a.shape == b.shape and a.dtype == b.dtype and np.array_equal(a, b, equal_nan=True) \
            and np.array_equal(np.signbit(a), np.signbit(b))
    return a == b


def main():
    outs = []
    with tempfile.TemporaryDirectory() as td:
        for name, path in (('orig', ORIG), ('new', NEW)):
            out = os.path.join(td, name + '.pkl')
            env = dict(os.environ, PYTHONPATH=path)
            subprocess.run([sys.executable, '-W', 'ignore', __file__, '--worker', out], env=env, check=True)
            with open(out, 'rb') as fh:
                outs.append(pickle.load(fh))
    orig, new = outs
    bad = 0
    assert len(orig) == len(new) == N_CASES
    for i, (ro, rn) in enumerate(zip(orig, new)):
        assert ro.keys() == rn.keys()
        for k in ro:
            if not same(ro[k], rn[k]):
                bad += 1
                print(f'DIFF case {i} key {k}')
        p = rn['pos']
        assert ((p >= 0) & (p < 1)).all(), f'case {i}: positions outside [0, 1)'
    print(f'cases={N_CASES} differences={bad}')
    sys.exit(1 if bad else 0)


if __name__ == '__main__':
    if len(sys.argv) > 2 and sys.argv[1] == '--worker':
        worker(sys.argv[2])
    else:
        main()
