"""Differential test for refactoring 3 (C07): Collective._compute / site_pair_count_matrix.

Same randomised cases are run in two subprocesses (PYTHONPATH=/repo/src = original,
PYTHONPATH=/tmp/wtu_C07/src = refactored); the pickled results are compared exactly.
"""
import os
import pickle
import subprocess
import sys
import tempfile

ORIG = '/repo/src'
NEW = '/tmp/wtu_C07/src'
N_SYNTH = 40
N_TRAJ = 16


def random_lattice(rng, seed):
    from pymatgen.core import Lattice
    from scipy.spatial.transform import Rotation

    if seed % 3 == 0:
        return Lattice.cubic(rng.uniform(4, 7))
    lattice = Lattice.from_parameters(*rng.uniform(4, 8, 3), *rng.uniform(65, 115, 3))
    if seed % 3 == 2:
        lattice = Lattice(lattice.matrix @ Rotation.random(random_state=seed).as_matrix().T)
    return lattice


def random_sites(rng, lattice, n_sites, n_labels, min_dist=1.2):
    import numpy as np
    from pymatgen.core import Structure

    site_frac = [np.array([0.998, 0.0, 0.001])]  # next to the cell corner
    tries = 0
    while len(site_frac) < n_sites:
        c = rng.random(3)
        tries += 1
        if tries > 2000:  # cell is full
            min_dist *= 0.9
            tries = 0
        if all(lattice.get_all_distances(c, s)[0, 0] > min_dist for s in site_frac):
            site_frac.append(c)
    site_frac = [site_frac[i] for i in rng.permutation(n_sites)]
    labels = [f'S{i % n_labels}' for i in range(n_sites)]
    return Structure(lattice, ['Li'] * n_sites, np.array(site_frac), labels=labels)


def series_key(s):
    return (list(s.index), str(s.dtype), s.tolist(), s.name)


def describe(coll):
    import numpy as np

    out = {
        'n_solo': (type(coll.n_solo_jumps).__name__, int(coll.n_solo_jumps)),
        'n_coll': (type(coll.n_coll_jumps).__name__, int(coll.n_coll_jumps)),
        'coll_jumps': [
            tuple((type(x).__name__, int(x)) for pair in cj for x in pair) for cj in coll.coll_jumps
        ],
        'collective': [(series_key(a), series_key(b)) for a, b in coll.collective],
    }
    mat = coll.site_pair_count_matrix()
    out['count_matrix'] = (mat.dtype.str, mat.tolist())
    out['count_labels'] = coll.site_pair_count_matrix_labels()
    try:
        jumps, counts = coll.multiple_collective()
        out['multiple'] = (jumps.tolist(), counts.tolist())
    except Exception as exc:
        out['multiple'] = ('EXC', type(exc).__name__)
    return out


def synth_case(seed):
    """Collective on a random jump table (bypasses the trajectory)."""
    from types import SimpleNamespace

    import numpy as np
    import pandas as pd

    from gemdat.collective import Collective

    rng = np.random.default_rng(500 + seed)
    lattice = random_lattice(rng, seed)
    n_sites = int(rng.integers(2, 9))
    sites = random_sites(rng, lattice, n_sites, n_labels=int(rng.integers(1, 4)))
    n_events = [0, 1, 2][seed] if seed < 3 else int(rng.integers(2, 40))
    start_time = rng.integers(0, 60, n_events)
    data = pd.DataFrame(
        {
            'atom index': rng.integers(0, 4, n_events),
            'start site': rng.integers(0, n_sites, n_events),
            'destination site': rng.integers(0, n_sites, n_events),
            'start time': start_time,
            # long and short flights, ties in the stop time
            'stop time': start_time + rng.integers(1, [3, 25][seed % 2], n_events),
        }
    )
    if seed % 4 == 0:
        data = data.sample(frac=1, random_state=seed)  # non-trivial original index
    res = {}
    for max_steps, max_dist in ((0, 1.0), (3, 1.0), (8, 2.5), (1000, 4.0), (5, 0.0)):
        coll = Collective(
            jumps=SimpleNamespace(data=data),
            sites=sites,
            lattice=lattice,
            max_steps=max_steps,
            max_dist=max_dist,
        )
        res[max_steps, max_dist] = describe(coll)
    return res


def traj_case(seed):
    """Full pipeline trajectory -> transitions -> jumps -> collective."""
    import numpy as np
    from pymatgen.core import Element

    from gemdat import Trajectory, Transitions

    rng = np.random.default_rng(seed)
    lattice = random_lattice(rng, seed)
    sites = random_sites(rng, lattice, int(rng.integers(4, 8)), n_labels=2, min_dist=1.7)
    n_steps = int(rng.integers(150, 300))
    n_li = int(rng.integers(2, 5))
    start = sites.frac_coords[rng.integers(0, len(sites), n_li)]
    li = start[None] + np.cumsum(rng.normal(0, 0.035, (n_steps, n_li, 3)), axis=0)
    fix = rng.random((1, 2, 3)) + rng.normal(0, 0.004, (n_steps, 2, 3))
    coords = np.concatenate([li, fix], axis=1) + rng.integers(-1, 2, 3)
    traj = Trajectory(
        species=[Element('Li')] * n_li + [Element('O')] * 2,
        coords=coords,
        lattice=lattice,
        time_step=2e-15,
        metadata={'temperature': 300},
    )
    try:
        tr = Transitions.from_trajectory(
            trajectory=traj, sites=sites, floating_specie='Li', site_radius=0.95, site_inner_fraction=0.8
        )
        jumps = tr.jumps()
    except ValueError as exc:
        return ('EXC', str(exc))
    res = {'n_jumps': jumps.n_jumps}
    for max_dist in (1.0, 3.0, 6.0):
        coll = jumps.collective(max_dist=max_dist)
        res[max_dist] = describe(coll)
        res[max_dist, 'max_steps'] = coll.max_steps
    res['n_solo'] = int(jumps.n_solo_jumps)
    res['solo_fraction'] = float(jumps.solo_fraction)
    return res


def worker(path):
    import warnings

    warnings.simplefilter('ignore')
    out = {}
    for seed in range(N_SYNTH):
        out['synth', seed] = synth_case(seed)
    for seed in range(N_TRAJ):
        out['traj', seed] = traj_case(seed)
    with open(path, 'wb') as fh:
        pickle.dump(out, fh)


def main():
    outs = []
    with tempfile.TemporaryDirectory() as td:
        for tag, src in (('orig', ORIG), ('new', NEW)):
            path = os.path.join(td, tag + '.pkl')
            env = dict(os.environ, PYTHONPATH=src, PYTHONHASHSEED='0')
            subprocess.run([sys.executable, __file__, '--worker', path], env=env, check=True)
            with open(path, 'rb') as fh:
                outs.append(pickle.load(fh))
    orig, new = outs
    bad = 0
    n_pairs = 0
    n_traj_ok = 0
    for key in orig:
        if orig[key] != new[key]:
            bad += 1
            print('DIFF', key)
        if isinstance(orig[key], dict):
            n_traj_ok += key[0] == 'traj'
            n_pairs += sum(len(v['collective']) for v in orig[key].values() if isinstance(v, dict))
    print(f'cases={len(orig)} traj_with_jumps={n_traj_ok} collective_pairs={n_pairs} differences={bad}')
    sys.exit(1 if bad else 0)


if __name__ == '__main__':
    if len(sys.argv) > 2 and sys.argv[1] == '--worker':
        import gemdat

        assert gemdat.__file__.startswith(os.environ['PYTHONPATH']), gemdat.__file__
        worker(sys.argv[2])
    else:
        main()
