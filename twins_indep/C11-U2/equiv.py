"""Differential test for property C11 (radial distributions).

Loads the ORIGINAL `gemdat/rdf.py` (default: /repo/src, read-only; override with
the environment variable ORIG_SRC) under another module name next to the
refactored implementation from the worktree (default: /tmp/wtu_C11/src,
override with NEW_SRC), runs both on randomised inputs and exits non-zero as
soon as a result differs.

Usage:  /venv/bin/python equiv.py
"""

from __future__ import annotations

import importlib.util
import os
import sys
import warnings

ORIG_SRC = os.environ.get('ORIG_SRC', '/repo/src')
NEW_SRC = os.environ.get('NEW_SRC', '/tmp/wtu_C11/src')

sys.path.insert(0, NEW_SRC)

import numpy as np  # noqa: E402
import pandas as pd  # noqa: E402
from pymatgen.core import Element, Lattice, Structure  # noqa: E402

import gemdat  # noqa: E402
from gemdat import rdf as new_rdf  # noqa: E402
from gemdat.transitions import Transitions  # noqa: E402

assert os.path.realpath(new_rdf.__file__).startswith(os.path.realpath(NEW_SRC)), new_rdf.__file__


def _load_original():
    path = os.path.join(ORIG_SRC, 'gemdat', 'rdf.py')
    name = 'gemdat._rdf_original'
    spec = importlib.util.spec_from_file_location(name, path)
    module = importlib.util.module_from_spec(spec)
    sys.modules[name] = module
    spec.loader.exec_module(module)
    return module


old_rdf = _load_original()
assert os.path.realpath(old_rdf.__file__) != os.path.realpath(new_rdf.__file__)

warnings.simplefilter('ignore')

N_FAILED = 0
N_CHECKED = 0


def fail(msg):
    global N_FAILED
    N_FAILED += 1
    print('DIFF:', msg)


def same_array(a, b, *, exact=True):
    a = np.asarray(a)
    b = np.asarray(b)
    if a.shape != b.shape or a.dtype != b.dtype:
        return False
    if exact:
        return a.tobytes() == b.tobytes()
    return bool(np.allclose(a, b, rtol=0, atol=1e-12, equal_nan=True)) and bool(
        np.array_equal(np.isnan(a), np.isnan(b))
    )


def call(func, *args, **kwargs):
    """Return ('ok', value) or ('err', exception type name)."""
    try:
        return 'ok', func(*args, **kwargs)
    except Exception as exc:  # noqa: BLE001
        return 'err', type(exc).__name__


def random_lattice(rng, kind):
    if kind == 'cubic':
        return Lattice.cubic(rng.uniform(4, 9))
    if kind == 'ortho':
        return Lattice.orthorhombic(*rng.uniform(4, 10, 3))
    if kind == 'triclinic':
        return Lattice.from_parameters(
            *rng.uniform(5, 10, 3), *rng.uniform(65, 115, 3)
        )
    if kind == 'rotated':
        base = Lattice.from_parameters(*rng.uniform(5, 10, 3), *rng.uniform(70, 110, 3))
        q, _ = np.linalg.qr(rng.normal(size=(3, 3)))
        return Lattice(base.matrix @ q)
    # general matrix, possibly left-handed
    return Lattice(rng.uniform(-1, 1, (3, 3)) * 3 + np.eye(3) * rng.uniform(5, 8))


def random_case(rng, n):
    kinds = ['cubic', 'ortho', 'triclinic', 'rotated', 'general']
    lattice = random_lattice(rng, kinds[n % len(kinds)])

    pool = ['Li', 'P', 'S', 'Br', 'Na']
    if n % 7 == 3:
        pool.remove('Li')  # empty selection of the floating species
    n_symbols = int(rng.integers(1, 5))
    symbols = list(rng.choice(pool, size=n_symbols, replace=False))
    if n % 7 != 3 and 'Li' not in symbols:
        symbols[0] = 'Li'  # most cases contain the floating species
    n_atoms = int(rng.integers(len(symbols), 12))
    species = symbols + list(rng.choice(symbols, size=n_atoms - len(symbols)))
    rng.shuffle(species)

    n_steps = int(rng.integers(1, 9))
    # coordinates outside [0, 1) cross the cell faces and are wrapped by Trajectory
    coords = rng.uniform(-0.6, 1.6, (n_steps, n_atoms, 3))
    if n % 3 == 0:
        # boundary values: exactly on a face / coinciding atoms
        coords[0, 0] = [0.0, 1.0, -1e-17]
        coords[-1, -1] = coords[-1, 0]
        coords[:, 1 % n_atoms, 0] = 1.0

    trajectory = gemdat.Trajectory(
        species=[Element(s) for s in species],
        coords=coords,
        lattice=lattice,
        time_step=1e-15,
        metadata={'temperature': 300},
    )

    n_sites = int(rng.integers(1, 7))
    label_pool = [['A'], ['A', 'B'], ['48h', '16e', '4a'], ['x', 'y', 'z', 'w']][n % 4]
    labels = list(rng.choice(label_pool, size=n_sites))
    sites = Structure(
        lattice,
        ['Li'] * n_sites,
        rng.uniform(0, 1, (n_sites, 3)),
        labels=labels,
    )

    diff_trajectory = trajectory.filter('Li')
    n_floating = len(diff_trajectory.species)
    mode = n % 5
    if mode == 0:
        states = np.full((n_steps, n_floating), -1)  # only 'no site' states
    elif mode == 1:
        states = rng.integers(0, n_sites, (n_steps, n_floating))  # always at a site
    else:
        states = rng.integers(-1, n_sites, (n_steps, n_floating))
        # make the walks sticky so that prev / next differ from the current state
        keep = rng.random((n_steps, n_floating)) < 0.5
        for t in range(1, n_steps):
            states[t] = np.where(keep[t], states[t - 1], states[t])

    transitions = Transitions(
        trajectory=trajectory,
        diff_trajectory=diff_trajectory,
        sites=sites,
        events=pd.DataFrame(),
        states=states,
        inner_states=states.copy(),
    )

    max_dist = float(rng.choice([0.3, 1.0, 2.5, 5.0, 7.3, 12.0]))
    resolution = float(rng.choice([0.05, 0.1, 0.25, 0.3, 1.0]))
    return trajectory, sites, transitions, symbols, max_dist, resolution


def compare_state_rdfs(tag, a, b):
    if a[0] != b[0]:
        return fail(f'{tag}: outcome {a[0]} vs {b[0]} ({a[1]!r} / {b[1]!r})')
    if a[0] == 'err':
        if a[1] != b[1]:
            fail(f'{tag}: exception {a[1]} vs {b[1]}')
        return
    ra, rb = a[1], b[1]
    if list(ra) != list(rb):
        return fail(f'{tag}: states {list(ra)} vs {list(rb)}')
    for state in ra:
        ca, cb = ra[state], rb[state]
        if type(ca).__name__ != type(cb).__name__ or len(ca) != len(cb):
            return fail(f'{tag}: collection {state}')
        for da, db in zip(ca, cb):
            if (da.label, da.state) != (db.label, db.state):
                fail(f'{tag}: {state}: {(da.label, da.state)} vs {(db.label, db.state)}')
            if not same_array(da.x, db.x) or not same_array(da.y, db.y):
                fail(f'{tag}: {state}/{da.label}: arrays differ')


def compare_pair_rdf(tag, a, b):
    if a[0] != b[0]:
        return fail(f'{tag}: outcome {a[0]} vs {b[0]} ({a[1]!r} / {b[1]!r})')
    if a[0] == 'err':
        if a[1] != b[1]:
            fail(f'{tag}: exception {a[1]} vs {b[1]}')
        return
    da, db = a[1], b[1]
    if (da.label, da.state) != (db.label, db.state):
        fail(f'{tag}: {(da.label, da.state)} vs {(db.label, db.state)}')
    if not same_array(da.x, db.x):
        fail(f'{tag}: x differs')
    if not same_array(da.y, db.y, exact=True):  # refactoring keeps the float operation order
        fail(f'{tag}: y differs')


def compare_helpers(tag, rng, transitions, labels):
    """The private state-encoding helpers exist in both versions."""
    a = call(old_rdf._get_states, labels)
    b = call(new_rdf._get_states, labels)
    if a != b or (a[0] == 'ok' and list(a[1].items()) != list(b[1].items())):
        fail(f'{tag}: _get_states')
    if a[0] == 'ok' and [type(k) for k in a[1]] != [type(k) for k in b[1]]:
        fail(f'{tag}: _get_states key types')

    arr = rng.integers(-1, len(labels), (4, 3))
    for value in (arr, arr.tolist(), transitions.states):
        a = call(old_rdf._uniqify_labels, value, labels)
        b = call(new_rdf._uniqify_labels, value, labels)
        if a[0] != b[0] or (a[0] == 'ok' and not same_array(a[1], b[1])):
            fail(f'{tag}: _uniqify_labels')

    a = call(old_rdf._get_states_array, transitions, labels)
    b = call(new_rdf._get_states_array, transitions, labels)
    if a[0] != b[0] or (a[0] == 'ok' and not same_array(a[1], b[1])):
        fail(f'{tag}: _get_states_array')

    a = call(old_rdf._get_symbol_indices, transitions.trajectory.get_structure(0))
    b = call(new_rdf._get_symbol_indices, transitions.trajectory.get_structure(0))
    if a[0] != b[0] or list(a[1]) != list(b[1]) or any(
        not same_array(a[1][k], b[1][k]) for k in a[1]
    ):
        fail(f'{tag}: _get_symbol_indices')


def main():
    global N_CHECKED
    rng = np.random.default_rng(20261001)
    n_cases = 60

    for n in range(n_cases):
        trajectory, sites, transitions, symbols, max_dist, resolution = random_case(rng, n)
        tag = f'case {n}'

        # --- per-state radial distribution of the floating species
        kwargs = dict(transitions=transitions, floating_specie='Li',
                      max_dist=max_dist, resolution=resolution)
        compare_state_rdfs(f'{tag} state-rdf', call(old_rdf.radial_distribution, **kwargs),
                           call(new_rdf.radial_distribution, **kwargs))
        N_CHECKED += 1

        compare_helpers(tag, rng, transitions, sites.labels)

        # --- species-pair radial distribution
        pairs = [(symbols[0], symbols[-1]), (symbols[-1], symbols[0]),
                 (symbols[0], symbols[0]), (list(symbols), symbols[0]),
                 (symbols[0], tuple(symbols[:2])), ('Xe', symbols[0]), (symbols[0], 'Xe')]
        for sp1, sp2 in pairs:
            kwargs = dict(trajectory=trajectory, specie_1=sp1, specie_2=sp2,
                          max_dist=max_dist, resolution=resolution)
            compare_pair_rdf(f'{tag} pair-rdf {sp1}-{sp2}',
                             call(old_rdf.radial_distribution_between_species, **kwargs),
                             call(new_rdf.radial_distribution_between_species, **kwargs))
            N_CHECKED += 1

    # --- end-to-end through Transitions.from_trajectory (states computed by gemdat)
    n_e2e = 0
    for n in range(40):
        trajectory, sites, _, symbols, max_dist, resolution = random_case(rng, 5 * n + 2)
        if 'Li' not in symbols:
            continue
        try:
            # shared set-up code (not under test); it cannot handle event-free input
            transitions = Transitions.from_trajectory(
                trajectory=trajectory, sites=sites, floating_specie='Li',
                site_radius=float(rng.uniform(1.5, 3.0)),
            )
        except ValueError:
            continue
        n_e2e += 1
        kwargs = dict(transitions=transitions, floating_specie='Li',
                      max_dist=max_dist, resolution=resolution)
        compare_state_rdfs(f'e2e {n} (default kwargs)',
                           call(old_rdf.radial_distribution, transitions=transitions,
                                floating_specie='Li'),
                           call(new_rdf.radial_distribution, transitions=transitions,
                                floating_specie='Li'))
        compare_state_rdfs(f'e2e {n}', call(old_rdf.radial_distribution, **kwargs),
                           call(new_rdf.radial_distribution, **kwargs))
        N_CHECKED += 2
    if n_e2e < 5:
        fail(f'only {n_e2e} end-to-end cases could be built')

    print(f'checked={N_CHECKED} failed={N_FAILED}')
    return 1 if N_FAILED else 0


if __name__ == '__main__':
    sys.exit(main())
