"""Differential test for refactoring 3 (drift/_drift_reference, _derive builder, _symbol helper).

Runs the same randomised workload once with PYTHONPATH=/repo/src (original) and once with
PYTHONPATH=/tmp/wtu_C01/src (refactored) in subprocesses, and compares every result bit for bit.
"""
import os
import pickle
import subprocess
import sys
import tempfile

import numpy as np

ORIG = '/repo/src'
NEW = '/tmp/wtu_C01/src'
N_CASES = 40


def random_lattice(rng, kind):
    from pymatgen.core import Lattice
    if kind == 0:
        return Lattice.cubic(rng.uniform(3, 12))
    if kind == 1:
        return Lattice.from_parameters(*rng.uniform(3, 12, 3), *rng.uniform(60, 120, 3))
    if kind == 2:  # rotated triclinic
        m = Lattice.from_parameters(*rng.uniform(3, 12, 3), *rng.uniform(70, 110, 3)).matrix
        q, _ = np.linalg.qr(rng.normal(size=(3, 3)))
        return Lattice(m @ q)
    return Lattice.hexagonal(rng.uniform(3, 6), rng.uniform(4, 12))


def make_coords(rng, case):
    n_t = int(rng.integers(1, 30))
    n_s = int(rng.integers(1, 7))
    start = rng.uniform(-1, 2, size=(1, n_s, 3))
    steps = rng.normal(scale=0.08, size=(n_t, n_s, 3))
    coords = start + np.cumsum(steps, axis=0)
    mode = case % 5
    if mode == 1:  # exact faces and tiny offsets around them
        specials = np.array([0.0, 1.0, -1.0, 2.0, -1e-17, 1e-17, 1 - 1e-16, -1e-300, 5e-324, -5e-324,
                             -0.0, 1 + 2e-16, -2.0 - 1e-16, 0.5, 3.0])
        mask = rng.random(coords.shape) < 0.5
        coords[mask] = rng.choice(specials, size=int(mask.sum()))
    elif mode == 2:  # whole lattice shifts
        coords = coords + rng.integers(-4, 5, size=coords.shape)
    elif mode == 3:  # large magnitudes
        coords = coords * 1e3
    elif mode == 4:  # fortran ordered / float32-origin values
        coords = np.asfortranarray(coords.astype(np.float32).astype(np.float64))
    return coords


def describe(t):
    """Everything observable about a trajectory object."""
    return {
        'cls': type(t).__name__,
        'species': [str(sp) for sp in t.species],
        'species_types': [type(sp).__name__ for sp in t.species],
        'coords': np.array(t.coords),
        'is_disp': t.coords_are_displacement,
        'base': np.array(t.base_positions),
        'lattice': np.array(t.lattice),
        'const': t.constant_lattice,
        'meta': dict(t.metadata),
        'dt': t.time_step,
        'positions': np.array(t.positions),
        'displacements': np.array(t.displacements),
        'cum': np.array(t.cumulative_displacements),
        'dist': t.distances_from_base_position(),
    }


def attempt(fn):
    import warnings
    with warnings.catch_warnings(record=True) as caught:
        warnings.simplefilter('always')
        try:
            out = fn()
        except Exception as exc:  # same exception type and message expected
            out = ('EXC', type(exc).__name__, str(exc))
    return out, sorted({(w.category.__name__, str(w.message)) for w in caught})


def worker(out):
    from pymatgen.core import Element, Species
    import gemdat
    from gemdat import Trajectory
    from gemdat.metrics import TrajectoryMetrics
    assert gemdat.__file__.startswith(os.environ['PYTHONPATH']), gemdat.__file__
    results = []
    pool = ['Li', 'Na', 'S', 'P', 'O', 'Cl']
    for case in range(N_CASES):
        rng = np.random.default_rng(3000 + case)
        lattice = random_lattice(rng, case % 4)
        coords = make_coords(rng, case)
        n_s = coords.shape[1]
        species = [Element(pool[int(i)]) for i in rng.integers(0, len(pool), n_s)]
        if case % 3 == 0:  # oxidation-state decorated species
            species = [Species(sp.symbol, 1) if i % 2 else sp for i, sp in enumerate(species)]
        present = sorted({sp.symbol for sp in species})
        absent = [x for x in pool if x not in present]
        res = {}

        def build(c=coords, **kw):
            return Trajectory(species=species, coords=c.copy(), lattice=lattice, time_step=1e-15,
                              metadata={'temperature': 300, 'case': case}, **kw)

        selections = {
            'none': {},
            'fixed_str': {'fixed_species': present[0]},
            'fixed_list': {'fixed_species': present[:2]},
            'fixed_tuple_all': {'fixed_species': tuple(present)},
            'fixed_absent': {'fixed_species': 'Xe'},
            'fixed_empty': {'fixed_species': []},
            'floating_str': {'floating_species': present[-1]},
            'floating_substr': {'floating_species': 'LiClNa'},   # str membership is a substring test
            'floating_set': {'floating_species': set(present[1:])},
            'floating_all': {'floating_species': present},
            'floating_absent': {'floating_species': absent[:1] or ['Xe']},
            'floating_empty': {'floating_species': ''},
            'both': {'fixed_species': present[0], 'floating_species': present[-1]},
        }
        for name, kw in selections.items():
            t = build()
            res['drift_' + name] = attempt(lambda: t.drift(**kw))
            res['state_after_drift_' + name] = (t.coords_are_displacement, np.array(t.coords))
            t = build()
            if case % 2:
                _ = t.displacements  # start from the other representation
            res['corr_' + name] = attempt(lambda: describe(t.apply_drift_correction(**kw)))
            res['state_after_corr_' + name] = (t.coords_are_displacement, np.array(t.coords))

        # lattice-shifted input
        shifted = coords + rng.integers(-3, 4, size=coords.shape)
        res['drift_shifted'] = attempt(lambda: build(shifted).drift(fixed_species=present[0]))
        res['corr_shifted'] = attempt(lambda: describe(build(shifted).apply_drift_correction()))

        # filter
        for name, sel in (('str', present[0]), ('list', present[:2]), ('set', set(present)), ('absent', 'Xe'),
                          ('empty', []), ('substr', 'LiCl')):
            t = build()
            res['filter_' + name] = attempt(lambda: describe(t.filter(sel)))
            res['state_after_filter_' + name] = (t.coords_are_displacement, np.array(t.coords))

        # centre of mass (and chained calls on its string species 'X')
        t = build()
        res['com'] = attempt(lambda: describe(t.center_of_mass()))
        res['state_after_com'] = (t.coords_are_displacement, np.array(t.coords))
        com = build().center_of_mass()
        res['com_drift_floating'] = attempt(lambda: com.drift(floating_species='Li'))
        res['com_drift_fixed'] = attempt(lambda: com.drift(fixed_species='X'))
        res['com_filter'] = attempt(lambda: describe(com.filter('X')))
        res['com_com'] = attempt(lambda: describe(com.center_of_mass()))
        res['com_corr'] = attempt(lambda: describe(com.apply_drift_correction()))
        res['com_empty'] = attempt(lambda: describe(build().filter('Xe').center_of_mass()))

        # chained / derived objects and subclasses keep their class
        class Sub(Trajectory):
            pass
        sub = Sub(species=species, coords=coords.copy(), lattice=lattice, time_step=2e-15, metadata={'a': 1})
        res['sub_filter'] = attempt(lambda: describe(sub.filter(present[0])))
        res['sub_corr'] = attempt(lambda: describe(sub.apply_drift_correction(floating_species=present[0])))
        res['sub_com'] = attempt(lambda: describe(sub.center_of_mass()))
        res['slice_corr'] = attempt(lambda: describe(build()[1::2].apply_drift_correction(fixed_species=present[0])))
        res['corr_filter'] = attempt(lambda: describe(build().apply_drift_correction().filter(present[0])))
        # metadata object is shared, not copied
        t = build()
        res['meta_shared'] = (t.filter(present[0]).metadata is t.metadata,
                              t.center_of_mass().metadata is t.metadata,
                              t.apply_drift_correction().metadata is t.metadata)
        # displacement-constructed trajectory without base positions
        d = build().displacements
        tb = Trajectory(species=species, coords=d, lattice=lattice, time_step=1e-15, coords_are_displacement=True,
                        base_positions=None)
        res['nobase_com'] = attempt(lambda: describe(tb.center_of_mass()))
        res['nobase_drift'] = attempt(lambda: tb.drift())
        # no time step
        tn = Trajectory(species=species, coords=coords.copy(), lattice=lattice)
        res['nodt_corr'] = attempt(lambda: describe(tn.apply_drift_correction()))
        # consumers
        m = TrajectoryMetrics(build())
        res['tracer_com'] = attempt(lambda: float(m.tracer_diffusivity_center_of_mass()))
        res['haven'] = attempt(lambda: float(m.haven_ratio()))
        results.append(res)
    with open(out, 'wb') as fh:
        pickle.dump(results, fh)


def same(a, b):
    if isinstance(a, (list, tuple)):
        return type(a) is type(b) and len(a) == len(b) and all(same(x, y) for x, y in zip(a, b))
    if isinstance(a, dict):
        return isinstance(b, dict) and a.keys() == b.keys() and all(same(a[k], b[k]) for k in a)
    if isinstance(a, np.ndarray) or isinstance(b, np.ndarray):
        a = np.asarray(a)
        b = np.asarray(b)
        return a.shape == b.shape and a.dtype == b.dtype and np.array_equal(a, b, equal_nan=True) \
            and np.array_equal(np.signbit(a), np.signbit(b))
    return a == b


def main():
    outs = []
    with tempfile.TemporaryDirectory() as td:
        for name, path in (('orig', ORIG), ('new', NEW)):
            out = os.path.join(td, name + '.pkl')
            env = dict(os.environ, PYTHONPATH=path)
            subprocess.run([sys.executable, '-W', 'ignore', __file__, '--worker', out], env=env, check=True)
            with open(out, 'rb') as fh:
                outs.append(pickle.load(fh))
    orig, new = outs
    bad = 0
    assert len(orig) == len(new) == N_CASES
    for i, (ro, rn) in enumerate(zip(orig, new)):
        assert ro.keys() == rn.keys()
        for k in ro:
            if not same(ro[k], rn[k]):
                bad += 1
                print(f'DIFF case {i} key {k}')
    print(f'cases={N_CASES} differences={bad}')
    sys.exit(1 if bad else 0)


if __name__ == '__main__':
    if len(sys.argv) > 2 and sys.argv[1] == '--worker':
        worker(sys.argv[2])
    else:
        main()
