"""Differential test for refactoring 2 (Trajectory.split: edge arrays, early return, single slice per part).

ORIGINAL implementation: src/gemdat/trajectory.py as committed at HEAD of the repository
(identical to /repo/src/gemdat/trajectory.py; obtained read-only through `git show HEAD:...`),
loaded under another module name.  REFACTORED implementation: the worktree's gemdat.trajectory.
"""
import importlib.util
import os
import subprocess
import sys
import tempfile
import warnings

WT = '/tmp/wtu_C15'
sys.path.insert(0, os.path.join(WT, 'src'))
warnings.filterwarnings('ignore')

import numpy as np  # noqa: E402
from pymatgen.core import Element, Lattice, Species  # noqa: E402

import gemdat  # noqa: E402
import gemdat.trajectory as new_mod  # noqa: E402

assert new_mod.__file__.startswith(WT), new_mod.__file__


def load_original():
    src = subprocess.run(
        ['git', '-C', WT, 'show', 'HEAD:src/gemdat/trajectory.py'],
        check=True, capture_output=True, text=True,
    ).stdout
    tmp = tempfile.NamedTemporaryFile('w', suffix='_orig_trajectory.py', delete=False)
    tmp.write(src)
    tmp.close()
    spec = importlib.util.spec_from_file_location('gemdat._orig_trajectory', tmp.name)
    mod = importlib.util.module_from_spec(spec)
    sys.modules['gemdat._orig_trajectory'] = mod
    spec.loader.exec_module(mod)
    os.unlink(tmp.name)
    return mod


old_mod = load_original()
OldT, NewT = old_mod.Trajectory, new_mod.Trajectory
assert OldT is not NewT

FAIL = []
STATS: dict = {}


def random_lattice(rng, kind):
    if kind == 0:
        return Lattice.cubic(rng.uniform(3, 12))
    if kind == 1:
        return Lattice.from_parameters(*rng.uniform(3, 12, 3), *rng.uniform(60, 120, 3))
    if kind == 2:  # rotated (non lower-triangular) triclinic cell
        base = Lattice.from_parameters(*rng.uniform(4, 9, 3), *rng.uniform(70, 110, 3)).matrix
        q, _ = np.linalg.qr(rng.normal(size=(3, 3)))
        return Lattice(base @ q)
    return Lattice.hexagonal(rng.uniform(3, 6), rng.uniform(5, 14))


def random_inputs(rng, case):
    pool = [Element('Li'), Element('S'), Element('P'), Species('Li', 1), Species('O', -2), Element('Na')]
    n_sites = int(rng.integers(1, 9))
    n_frames = int(rng.integers(1, 25)) if case % 11 else int(rng.integers(1, 4))
    species = [pool[i] for i in rng.integers(0, len(pool), n_sites)]
    start = rng.uniform(-0.2, 1.2, (1, n_sites, 3))
    steps = rng.normal(0, 0.15, (n_frames, n_sites, 3))
    coords = start + np.cumsum(steps, axis=0)  # unwrapped: atoms cross cell faces
    if case % 5 == 0:
        coords = np.round(coords, 1)  # exact 0 / 1 / negative-integer boundary values
    if case % 7 == 0:
        coords[0, 0] = [-1e-17, 1.0, 0.0]  # tiny negative -> mod gives 1.0 -> reset to 0
    return dict(
        species=species,
        coords=coords,
        lattice=random_lattice(rng, case % 4),
        time_step=float(rng.uniform(1e-16, 5e-15)),
        metadata={'temperature': float(rng.integers(100, 1000)), 'tag': case},
    )


def make(cls, inputs, mode):
    t = cls(
        species=list(inputs['species']),
        coords=inputs['coords'].copy(),
        lattice=inputs['lattice'],
        time_step=inputs['time_step'],
        metadata=inputs['metadata'],
        site_properties=inputs.get('site_properties'),
        frame_properties=inputs.get('frame_properties'),
    )
    if mode == 'disp':
        t.to_displacements()
    elif mode == 'pos':
        t.to_positions()
    return t


def snapshot(t):
    """Full observable state of a trajectory WITHOUT triggering a mode switch."""
    return {
        'cls': type(t).__name__,
        'species': [(type(s).__name__, str(s)) for s in t.species],
        'coords': np.array(t.coords, copy=True),
        'coords_dtype': str(np.asarray(t.coords).dtype),
        'mode': bool(t.coords_are_displacement),
        'base': None if t.base_positions is None else np.array(t.base_positions, copy=True),
        'lattice': np.array(t.lattice, copy=True),
        'constant_lattice': t.constant_lattice,
        'time_step': t.time_step,
        'metadata': dict(t.metadata),
        'site_properties': t.site_properties,
        'frame_properties': t.frame_properties,
    }


def same(a, b, path=''):
    if isinstance(a, dict):
        assert isinstance(b, dict) and a.keys() == b.keys(), f'{path}: keys {a.keys()} vs {b.keys()}'
        for k in a:
            same(a[k], b[k], f'{path}/{k}')
    elif isinstance(a, (list, tuple)):
        assert isinstance(b, (list, tuple)) and len(a) == len(b), f'{path}: len {len(a)} vs {len(b)}'
        for i, (x, y) in enumerate(zip(a, b)):
            same(x, y, f'{path}[{i}]')
    elif isinstance(a, np.ndarray):
        assert isinstance(b, np.ndarray), f'{path}: type {type(b)}'
        assert a.shape == b.shape and a.dtype == b.dtype, f'{path}: {a.shape}{a.dtype} vs {b.shape}{b.dtype}'
        assert np.array_equal(a, b, equal_nan=True), f'{path}: values differ, max {np.max(np.abs(a - b))}'
    else:
        assert type(a) is type(b) and a == b, f'{path}: {a!r} vs {b!r}'


def outcome(fn):
    try:
        return ('ok', fn())
    except Exception as exc:  # noqa: BLE001
        return ('raised', type(exc).__name__, str(exc))


def add_properties(rng, inputs, case):
    n_frames, n_sites, _ = inputs['coords'].shape
    if case % 4 == 1:
        inputs['site_properties'] = {'label': [f's{i}' for i in range(n_sites)]}
    elif case % 4 == 2:
        inputs['site_properties'] = [
            {'magmom': [float(f * 100 + i) for i in range(n_sites)]} for f in range(n_frames)
        ]
    if case % 3 == 0:
        inputs['frame_properties'] = [{'energy': float(e)} for e in rng.normal(size=n_frames)]
    return inputs


def scenario(cls, inputs, mode, n_parts, equal_parts, follow_up):
    src = make(cls, inputs, mode)
    out = {}
    holder = {}

    def do_split():
        parts = src.split(n_parts, equal_parts=equal_parts)
        holder['parts'] = parts
        return {
            'type': type(parts).__name__,
            'parts': [snapshot(p) for p in parts],
            'meta_is_shared': [p.metadata is src.metadata for p in parts],
            'exact_class': [type(p) is cls for p in parts],
            'lens': [len(p) for p in parts],
        }

    out['split'] = outcome(do_split)
    out['src_after_split'] = snapshot(src)
    parts = holder.get('parts', [])
    if follow_up == 0:
        out['q'] = outcome(lambda: [p.distances_from_base_position() for p in parts])
    elif follow_up == 1:
        out['q'] = outcome(lambda: [np.array(p.displacements, copy=True) for p in parts])
    elif follow_up == 2:
        out['q'] = outcome(lambda: [snapshot(p.filter(str(inputs['species'][0].symbol))) for p in parts])
    elif follow_up == 3:
        def glue():
            first = parts[0]
            for p in parts[1:]:
                first.extend(p)
            return snapshot(first)
        out['q'] = outcome(glue)
    elif follow_up == 4:
        out['q'] = outcome(lambda: [[snapshot(q) for q in p.split(2, equal_parts=True)] for p in parts])
    else:
        out['q'] = outcome(lambda: [p.mean_squared_displacement() for p in parts])
    out['parts_final'] = [snapshot(p) for p in parts]
    out['src_final'] = snapshot(src)
    out['positions_final'] = np.array(src.positions, copy=True)
    out['displacements_final'] = np.array(src.displacements, copy=True)
    return out


def main():
    rng = np.random.default_rng(20261002)
    n_cases = 120
    for case in range(n_cases):
        inputs = add_properties(rng, random_inputs(rng, case), case)
        n_frames = inputs['coords'].shape[0]
        n_parts_choices = [0, 1, 2, 3, 5, 10, n_frames - 1, n_frames, n_frames + 3, 7, -1, 4]
        n_parts = n_parts_choices[case % len(n_parts_choices)]
        equal_parts = bool((case // 2) % 2 == 0) if case % 13 else True
        mode = ('fresh', 'pos', 'disp')[case % 3]
        follow_up = case % 6
        try:
            a = scenario(OldT, inputs, mode, n_parts, equal_parts, follow_up)
            b = scenario(NewT, inputs, mode, n_parts, equal_parts, follow_up)
            same(a, b, f'case{case}')
            key = f"{a['split'][0]}{'_eq' if equal_parts else ''}"
            STATS[key] = STATS.get(key, 0) + 1
            STATS['q_' + a['q'][0]] = STATS.get('q_' + a['q'][0], 0) + 1
        except AssertionError as exc:
            FAIL.append(f'case {case} mode={mode} n_parts={n_parts} equal={equal_parts} frames={n_frames}: {exc}')
    # default arguments + long trajectories
    for case in range(10):
        inputs = random_inputs(rng, 500 + case)
        big = np.concatenate([inputs['coords']] * 12)
        inputs['coords'] = big[: int(rng.integers(11, len(big) + 1))] if len(big) > 11 else big
        try:
            for eq in (False, True):
                a = scenario(OldT, inputs, 'disp', 10, eq, 0)
                b = scenario(NewT, inputs, 'disp', 10, eq, 0)
                same(a, b, f'default{case}')
                STATS['default_' + a['split'][0]] = STATS.get('default_' + a['split'][0], 0) + 1
        except AssertionError as exc:
            FAIL.append(f'default case {case}: {exc}')
    print(f'cases={n_cases + 20} failures={len(FAIL)} outcomes={STATS}')
    for f in FAIL:
        print('  FAIL', f)
    return 1 if FAIL else 0


if __name__ == '__main__':
    sys.exit(main())
