"""Differential test for refactoring 2 of property C02 (_compute_site_radius: guard clauses + extracted message helper).

Runs the ORIGINAL gemdat (PYTHONPATH=/repo/src, read-only) and the REFACTORED gemdat
(PYTHONPATH=/tmp/wtu_C02/src) in two subprocesses on the same seeded random inputs and
compares every result bit for bit (arrays: dtype + shape + raw bytes; floats: repr;
exceptions: type + message; warnings: category + message).  Exits non-zero on any difference.
"""
import os
import pickle
import subprocess
import sys
import tempfile

ORIG = '/repo/src'
NEW = '/tmp/wtu_C02/src'
N_CASES = 66
FOCUS = 'C02 twin 2 (_compute_site_radius early returns)'


# --------------------------------------------------------------------------- worker
def _enc(x):
    import numpy as np
    import pandas as pd

    if isinstance(x, pd.DataFrame):
        return ('df', list(x.columns), _enc(x.to_numpy()))
    if isinstance(x, np.ndarray):
        a = np.ascontiguousarray(x)
        return ('nd', str(a.dtype), a.shape, a.tobytes())
    if isinstance(x, (float, np.floating)):
        return ('f', type(x).__name__, repr(float(x)))
    if isinstance(x, (tuple, list)):
        return ('seq', [_enc(v) for v in x])
    if isinstance(x, dict):
        return ('map', [(k, _enc(v)) for k, v in x.items()])
    return ('obj', repr(x))


def _call(fn, *args, **kwargs):
    import warnings

    with warnings.catch_warnings(record=True) as rec:
        warnings.simplefilter('always')
        try:
            out = ('ok', _enc(fn(*args, **kwargs)))
        except Exception as exc:  # noqa: BLE001
            out = ('exc', type(exc).__name__, str(exc))
    warns = [(w.category.__name__, str(w.message)) for w in rec]
    return out, warns


def _random_lattice(rng, kind):
    import numpy as np
    from pymatgen.core import Lattice
    from scipy.spatial.transform import Rotation

    if kind == 0:
        return Lattice.cubic(rng.uniform(6, 10))
    if kind == 1:
        return Lattice.orthorhombic(*rng.uniform(5, 11, size=3))
    if kind == 2:
        return Lattice.hexagonal(rng.uniform(5, 8), rng.uniform(6, 12))
    if kind == 3:
        return Lattice.from_parameters(
            *rng.uniform(6, 10, size=3), *rng.uniform(62, 118, size=3)
        )
    base = Lattice.from_parameters(*rng.uniform(6, 10, size=3), *rng.uniform(65, 115, size=3))
    rot = Rotation.random(random_state=int(rng.integers(1 << 30))).as_matrix()
    if kind == 4:
        # rotated triclinic cell: a is not along x, b not in the xy-plane
        return Lattice(base.matrix @ rot.T)
    # strongly sheared, rotated cell
    shear = np.eye(3) + np.triu(rng.uniform(-0.6, 0.6, size=(3, 3)), k=1)
    return Lattice(shear @ base.matrix @ rot.T)


def _random_case(i):
    import numpy as np
    from pymatgen.core import Element, Structure

    from gemdat import Trajectory

    rng = np.random.default_rng(9000 + 17 * i)
    lattice = _random_lattice(rng, i % 6)

    # ---- sites: random, but kept a minimum distance apart (unless a 'close' case)
    n_sites = int(rng.integers(2, 7))
    close_mode = i % 11  # 3 -> overlapping spheres, 7 -> unrealistically close sites
    min_sep = 2.2
    fracs = []
    guard = 0
    while len(fracs) < n_sites and guard < 5000:
        guard += 1
        cand = rng.uniform(0, 1, size=3)
        if rng.random() < 0.3:  # put sites on / next to a cell face
            cand[rng.integers(3)] = rng.choice([0.0, 0.002, 0.998])
        if all(
            lattice.get_distance_and_image(cand, f)[0] > min_sep for f in fracs
        ):
            fracs.append(cand)
    n_sites = len(fracs)
    fracs = np.array(fracs)
    if close_mode == 3 and n_sites >= 2:
        d = rng.normal(size=3)
        d *= 1.1 / np.linalg.norm(d)
        fracs[1] = fracs[0] + lattice.get_fractional_coords(d)
    if close_mode == 7 and n_sites >= 2:
        d = rng.normal(size=3)
        d *= 0.3 / np.linalg.norm(d)
        fracs[1] = fracs[0] + lattice.get_fractional_coords(d)
    label_pool = ['A', 'B', 'C'][: int(rng.integers(1, 4))]
    labels = [str(rng.choice(label_pool)) for _ in range(n_sites)]
    sites = Structure(
        lattice,
        ['Li'] * n_sites,
        fracs,
        labels=labels,
        coords_are_cartesian=False,
        to_unit_cell=bool(i % 2),
    )

    # ---- trajectory: Li hop between sites, O vibrate around fixed points
    n_li = int(rng.integers(1, 5))
    n_o = int(rng.integers(1, 4))
    n_frames = int(rng.integers(6, 40))
    species = [Element('Li')] * n_li + [Element('O')] * n_o
    coords = np.empty((n_frames, n_li + n_o, 3))
    sigma = rng.choice([0.05, 0.2, 0.5])
    for a in range(n_li):
        cur = int(rng.integers(n_sites))
        for t in range(n_frames):
            u = rng.random()
            if u < 0.15:
                cur = int(rng.integers(n_sites))
            if u > 0.9:  # somewhere in the cell -> most likely 'no site'
                coords[t, a] = rng.uniform(0, 1, size=3)
                continue
            shift = lattice.get_fractional_coords(rng.normal(scale=sigma, size=3))
            coords[t, a] = sites.frac_coords[cur] + shift
            if u < 0.05:  # exactly on the site centre
                coords[t, a] = sites.frac_coords[cur]
    o_home = rng.uniform(0, 1, size=(n_o, 3))
    for t in range(n_frames):
        for b in range(n_o):
            coords[t, n_li + b] = o_home[b] + lattice.get_fractional_coords(
                rng.normal(scale=0.05, size=3)
            )
    wrap = i % 3
    if wrap == 0:
        coords = coords % 1.0
    elif wrap == 1:
        # atoms that crossed a face are stored in the neighbouring image
        coords = coords + rng.integers(-1, 2, size=(1, n_li + n_o, 3))
    trajectory = Trajectory(
        species=species,
        coords=coords,
        lattice=lattice.matrix,
        time_step=1e-15,
        metadata={'temperature': 300},
    )

    # ---- radius specification
    present = sorted(set(labels))
    mode = i % 9
    if mode in (0, 5):
        radius = float(rng.uniform(0.4, 1.4))
    elif mode in (1, 6):
        radius = {lab: float(rng.uniform(0.3, 1.5)) for lab in present}
    elif mode == 2:
        radius = None
    elif mode == 3:
        radius = {'': float(rng.uniform(0.4, 1.2))}
    elif mode == 4:
        # partial dict (in reversed order) -> sites of the other labels are never assigned
        radius = {lab: float(rng.uniform(0.3, 1.5)) for lab in present[::-1][: max(1, len(present) - 1)]}
    elif mode == 7:
        # one radius so small that nothing is in range -> warning path
        radius = {lab: 1e-7 for lab in present}
        radius[present[0]] = float(rng.uniform(0.5, 1.0))
    else:
        # label that does not exist among the sites / integer radius -> error paths
        radius = {present[0]: 0.8, 'ZZ': 1.0} if i % 2 else 1
    inner = float(rng.choice([1.0, 0.5, 0.8, 0.25, 0.0]))
    return trajectory, sites, radius, inner


def rng_vib(i):
    import numpy as np

    return float(np.random.default_rng(500 + i).uniform(0.02, 1.2))


def worker(out_path, expect_root):
    import numpy as np

    import gemdat
    from gemdat import transitions as tr

    assert os.path.realpath(gemdat.__file__).startswith(os.path.realpath(expect_root)), (
        gemdat.__file__,
        expect_root,
    )
    results = []
    for i in range(N_CASES):
        trajectory, sites, radius, inner = _random_case(i)
        diff = trajectory.filter('Li')
        rec = {}

        # 1. the state calculation itself (outer + inner), dict radius as the function expects
        if isinstance(radius, dict):
            rdict = radius
        elif radius is None:
            rdict = {'': 0.9}
        else:
            rdict = {'': float(radius)}
        rec['states'] = _call(tr._calculate_atom_states, sites, diff, rdict)
        rec['inner'] = _call(
            tr._calculate_atom_states, sites, diff, rdict, site_inner_fraction=inner
        )
        rec['kw'] = _call(
            tr._calculate_atom_states,
            sites=sites,
            trajectory=diff,
            site_radius=dict(reversed(list(rdict.items()))),
            site_inner_fraction=inner,
        )
        # empty selection of floating atoms
        if i % 10 == 0:
            rec['frames1'] = _call(tr._calculate_atom_states, sites, diff[0:1], rdict)
            # species that is absent from the trajectory -> empty selection
            rec['absent'] = _call(
                lambda: tr.Transitions.from_trajectory(
                    trajectory=trajectory, sites=sites, floating_specie='Na', site_radius=1.0
                ).states
            )

        # 2. the automatic radius
        for vib in (0.05, 0.35, 0.9, float('nan')):
            rec[f'auto{vib}'] = _call(
                tr._compute_site_radius,
                trajectory=trajectory,
                sites=sites,
                vibration_amplitude=vib,
            )
        from pymatgen.core.units import FloatWithUnit

        pd_ = trajectory.get_lattice().get_all_distances(sites.frac_coords, sites.frac_coords)
        dmin = float(np.min(pd_[np.triu_indices_from(pd_, k=1)]))
        # boundary: spheres exactly touching (2 * radius == min_dist), and just either side of it
        for tag, vib in (('touch', dmin / 4), ('below', np.nextafter(dmin / 4, 0)), ('above', np.nextafter(dmin / 4, 9))):
            rec['auto_' + tag] = _call(tr._compute_site_radius, trajectory, sites, vib)
        rec['auto_unit'] = _call(
            tr._compute_site_radius, trajectory, sites, FloatWithUnit(rng_vib(i), 'ang')
        )
        rec['auto_pos'] = _call(tr._compute_site_radius, trajectory, sites, np.float64(0.4))
        rec['auto_single'] = _call(
            tr._compute_site_radius, trajectory, sites.copy().remove_sites(range(1, len(sites))), 0.3
        )

        # 3. the public entry point
        def public():
            t = tr.Transitions.from_trajectory(
                trajectory=trajectory,
                sites=sites,
                floating_specie='Li',
                site_radius=radius,
                site_inner_fraction=inner,
            )
            return (t.states, t.inner_states, t.events, t.n_sites, t.n_floating)

        rec['public'] = _call(public)
        results.append(rec)
    with open(out_path, 'wb') as fh:
        pickle.dump(results, fh)


# --------------------------------------------------------------------------- driver
def run(root, out_path):
    env = dict(os.environ)
    env['PYTHONPATH'] = root
    env['PYTHONHASHSEED'] = '0'
    subprocess.run(
        [sys.executable, os.path.abspath(__file__), '--worker', out_path, root],
        env=env,
        check=True,
    )
    with open(out_path, 'rb') as fh:
        return pickle.load(fh)


def main():
    with tempfile.TemporaryDirectory() as td:
        old = run(ORIG, os.path.join(td, 'old.pkl'))
        new = run(NEW, os.path.join(td, 'new.pkl'))
    assert len(old) == len(new) == N_CASES
    bad = 0
    stats = {}
    for i, (a, b) in enumerate(zip(old, new)):
        if a.keys() != b.keys():
            print(f'case {i}: different keys')
            bad += 1
            continue
        for k in a:
            (res, warns) = a[k]
            kind = res[0] if res[0] == 'ok' else res[1]
            stats[(k.rstrip('0123456789.na'), kind, bool(warns))] = (
                stats.get((k.rstrip('0123456789.na'), kind, bool(warns)), 0) + 1
            )
            if a[k] != b[k]:
                bad += 1
                print(f'case {i} [{k}] DIFFERS')
                print('   original  :', str(a[k])[:300])
                print('   refactored:', str(b[k])[:300])
    for key in sorted(stats):
        print('  coverage', key, stats[key])
    print(f'{FOCUS}: cases={N_CASES} differences={bad}')
    sys.exit(1 if bad else 0)


if __name__ == '__main__':
    if len(sys.argv) > 1 and sys.argv[1] == '--worker':
        worker(sys.argv[2], sys.argv[3])
    else:
        main()
