"""Differential test for refactoring C04/2 (boolean frame masks instead of index arrays,
hoisted "has next frame" mask in `gemdat.transitions._calculate_transition_events`).

The same randomised inputs are evaluated in two subprocesses: one imports the ORIGINAL
gemdat (PYTHONPATH = $GEMDAT_ORIG_SRC if set, otherwise the untouched HEAD of the
worktree exported with `git archive`), the other the refactored worktree code.
Every result (DataFrame values, dtypes, index, columns, or exception type+message)
must be identical.  Exit status is non-zero on any difference.
"""
from __future__ import annotations

import os
import pickle
import subprocess
import sys
import tempfile

WORKTREE = os.environ.get('GEMDAT_NEW_ROOT', '/tmp/wtu_C04')
PY = '/venv/bin/python'


# --------------------------------------------------------------------------- worker
def _result(fn):
    import pandas as pd

    try:
        out = fn()
    except Exception as exc:  # noqa: BLE001
        return ('EXC', type(exc).__name__, str(exc))
    if isinstance(out, pd.DataFrame):
        return (
            'DF',
            list(out.columns),
            [str(d) for d in out.dtypes],
            list(out.index),
            out.to_numpy().tolist(),
        )
    return ('VAL', out)


def _histories(rng, n_times, n_atoms, n_sites, p_stay, p_nosite):
    """Random per-atom site histories [time, atom] with dwell times."""
    import numpy as np

    states = np.empty((n_times, n_atoms), dtype=int)
    for a in range(n_atoms):
        cur = rng.integers(-1, n_sites)
        for t in range(n_times):
            if rng.random() > p_stay:
                cur = -1 if rng.random() < p_nosite else rng.integers(0, n_sites)
            states[t, a] = cur
    return states


def _inner(rng, states, p_inner):
    import numpy as np

    if p_inner >= 1:
        return states.copy()
    # inner site = same site, but only for a sub-interval of the frames
    mask = rng.random(states.shape) < p_inner
    return np.where(mask, states, -1)


def worker(out_path):
    import itertools
    from types import SimpleNamespace

    import numpy as np
    import pandas as pd
    from pymatgen.core import Element, Lattice, Structure

    import gemdat
    from gemdat.jumps import Jumps, _generic_transitions_to_jumps
    from gemdat.trajectory import Trajectory
    from gemdat.transitions import Transitions, _calculate_transition_events

    results = {'__file__': gemdat.__file__}
    rng = np.random.default_rng(20261001)

    def run(name, states, inner):
        s0, i0 = states.copy(), inner.copy()
        results[name] = _result(
            lambda: _calculate_transition_events(atom_sites=states, atom_inner_sites=inner)
        )
        results[name + '/inputs-untouched'] = bool(
            np.array_equal(s0, states) and np.array_equal(i0, inner)
        )
        # downstream consumer of the events
        if results[name][0] == 'DF':
            ev = _calculate_transition_events(atom_sites=states, atom_inner_sites=inner)
            results[name + '/c_contiguous'] = bool(ev.to_numpy().flags['C_CONTIGUOUS'])
            for mr in (0, 2):
                ns = SimpleNamespace(events=ev)
                results[f'{name}/jumps mr={mr}'] = _result(
                    lambda: _generic_transitions_to_jumps(ns, minimal_residence=mr)
                )

    # 1. exhaustive short histories over {-1,0,1}, every history is one atom
    for length in (1, 2, 3, 4, 5):
        cols = np.array(list(itertools.product((-1, 0, 1), repeat=length))).T
        for p_inner in (1.0, 0.5):
            run(f'exh{length}/pi={p_inner}', cols, _inner(rng, cols, p_inner))
        # each single history on its own (exercises the "nothing to stack" error path)
        if length <= 3:
            for c in range(cols.shape[1]):
                col = cols[:, c : c + 1]
                run(f'exh{length}/single{c}', col, _inner(rng, col, 0.5))

    # 2. random long histories, inner fraction 1 and < 1, several integer dtypes/layouts
    for k in range(40):
        n_sites = int(rng.integers(1, 6))
        st = _histories(
            rng,
            n_times=int(rng.integers(1, 80)),
            n_atoms=int(rng.integers(0, 7)),
            n_sites=n_sites,
            p_stay=float(rng.choice([0.3, 0.6, 0.9, 1.0])),
            p_nosite=float(rng.choice([0.0, 0.4, 0.8])),
        )
        inner = _inner(rng, st, float(rng.choice([1.0, 0.7, 0.3])))
        if k % 5 == 1:
            st, inner = st.astype(np.int32), inner.astype(np.int32)
        if k % 5 == 2:
            st, inner = np.asfortranarray(st), np.asfortranarray(inner)
        if k % 5 == 3:
            inner = inner.astype(np.int16)
        run(f'rand{k}', st, inner)

    # 3. boundary cases
    T = 12
    const = np.full((T, 1), 2)
    blink = const.copy()
    blink[[3, 4, 9], 0] = -1
    run('edge/site-constant-inner-changes', const, blink)
    run('edge/site-constant-inner-changes+mover', np.hstack([const, blink]), np.hstack([blink, blink]))
    wrap = np.array([[0, 0, 0, 1, 1, 1]]).T  # only "change" of first==last is the wrap-around
    run('edge/single-change', wrap, wrap)
    ret = np.array([[0, 0, -1, -1, 0, 0]]).T  # first == last, leaves and returns
    run('edge/leave-and-return', ret, ret)
    run('edge/last-frame-change', np.array([[1, 1, 1, 1, 0]]).T, np.array([[1, -1, 1, 1, -1]]).T)
    run('edge/first-frame-change', np.array([[1, 0, 0, 0, 0]]).T, np.array([[-1, -1, 0, 0, 0]]).T)
    run('edge/inner-unrelated', rng.integers(-1, 3, (30, 4)), rng.integers(-1, 3, (30, 4)))
    run('edge/no-atoms', np.empty((10, 0), dtype=int), np.empty((10, 0), dtype=int))
    run('edge/no-frames', np.empty((0, 3), dtype=int), np.empty((0, 3), dtype=int))
    run('edge/one-frame', np.array([[0, 1, -1]]), np.array([[0, -1, -1]]))
    run('edge/two-frames', np.array([[0, 1, -1], [1, 1, 0]]), np.array([[0, -1, -1], [1, 1, -1]]))
    run('edge/all-nosite', np.full((8, 3), -1), np.full((8, 3), -1))

    # 4. full pipeline on trajectories in cubic / triclinic / rotated cells
    lattices = {
        'cubic': Lattice.cubic(6.0),
        'triclinic': Lattice.from_parameters(5.5, 6.5, 7.0, 80, 95, 110),
        'rotated': Lattice(
            np.array([[0.0, 6.0, 0.0], [0.0, 0.5, 6.5], [7.0, 0.0, 1.0]])
        ),
    }
    site_frac = np.array(
        [[0.05, 0.05, 0.05], [0.5, 0.05, 0.95], [0.95, 0.5, 0.5], [0.5, 0.5, 0.05]]
    )
    for name, lattice in lattices.items():
        for rep in range(3):
            n_t, n_li = 60, 3
            sites = Structure(lattice, ['Li'] * len(site_frac), site_frac, labels=['A', 'B', 'A', 'B'])
            hist = _histories(rng, n_t, n_li, len(site_frac), 0.8, 0.3)
            pos = np.empty((n_t, n_li + 1, 3))
            for t in range(n_t):
                for a in range(n_li):
                    s = hist[t, a]
                    base = site_frac[s] if s >= 0 else np.array([0.25, 0.25, 0.6])
                    # small displacement; atoms near faces wrap around the cell
                    pos[t, a] = (base + rng.normal(0, 0.025, 3)) % 1.0
                pos[t, n_li] = [0.3, 0.7, 0.3]
            traj = Trajectory(
                species=[Element('Li')] * n_li + [Element('S')],
                coords=pos,
                lattice=lattice,
                time_step=1e-15,
                metadata={'temperature': 300},
            )
            for frac in (1.0, 0.5):
                key = f'traj/{name}/{rep}/frac={frac}'
                try:
                    tr = Transitions.from_trajectory(
                        trajectory=traj,
                        sites=sites,
                        floating_specie='Li',
                        site_radius=0.9,
                        site_inner_fraction=frac,
                    )
                except Exception as exc:  # noqa: BLE001
                    results[key] = ('EXC', type(exc).__name__, str(exc))
                    continue
                results[key + '/events'] = _result(lambda: tr.events)
                for mr in (0, 1, 3):
                    results[key + f'/jumps mr={mr}'] = _result(
                        lambda: Jumps(tr, minimal_residence=mr).data
                    )
                    results[key + f'/matrix mr={mr}'] = _result(
                        lambda: Jumps(tr, minimal_residence=mr).matrix().tolist()
                    )

    with open(out_path, 'wb') as fh:
        pickle.dump(results, fh)


# --------------------------------------------------------------------------- driver
def _original_src(tmp):
    env_src = os.environ.get('GEMDAT_ORIG_SRC')
    if env_src:
        return env_src
    dest = os.path.join(tmp, 'orig')
    os.makedirs(dest)
    archive = subprocess.run(
        ['git', '-C', WORKTREE, 'archive', 'HEAD', 'src/gemdat'], check=True, capture_output=True
    ).stdout
    subprocess.run(['tar', '-x', '-C', dest], input=archive, check=True)
    return os.path.join(dest, 'src')


def main():
    with tempfile.TemporaryDirectory() as tmp:
        srcs = {'orig': _original_src(tmp), 'new': os.path.join(WORKTREE, 'src')}
        res = {}
        for tag, src in srcs.items():
            out = os.path.join(tmp, f'{tag}.pkl')
            env = dict(os.environ, PYTHONPATH=src, PYTHONWARNINGS='ignore')
            subprocess.run([PY, os.path.abspath(__file__), '--worker', out], check=True, env=env, cwd=tmp)
            with open(out, 'rb') as fh:
                res[tag] = pickle.load(fh)
            assert res[tag]['__file__'].startswith(src), (tag, res[tag]['__file__'], src)

    orig, new = res['orig'], res['new']
    orig.pop('__file__'), new.pop('__file__')
    bad = [k for k in sorted(set(orig) | set(new)) if orig.get(k, 'MISSING') != new.get(k, 'MISSING')]
    kinds = {}
    for v in orig.values():
        kind = v[0] if isinstance(v, tuple) else type(v).__name__
        kinds[kind] = kinds.get(kind, 0) + 1
    print(f'compared {len(orig)} results {kinds}; differing: {len(bad)}')
    for k in bad[:20]:
        print('DIFF', k, '\n  orig:', orig.get(k), '\n  new: ', new.get(k))
    return 1 if bad else 0


if __name__ == '__main__':
    if len(sys.argv) == 3 and sys.argv[1] == '--worker':
        worker(sys.argv[2])
    else:
        sys.exit(main())
