"""Differential test: optimal_path / optimal_n_paths / path-difference helpers
(original /repo/src vs refactored /tmp/wtw_C10/src)."""
import importlib.util
import sys
import warnings

sys.path.insert(0, '/tmp/wtw_C10/src')
import numpy as np
import networkx as nx
import gemdat  # noqa: F401
from gemdat import path as new

spec = importlib.util.spec_from_file_location('gemdat._orig_path', '/repo/src/gemdat/path.py')
old = importlib.util.module_from_spec(spec)
sys.modules['gemdat._orig_path'] = old
spec.loader.exec_module(old)
assert old.__file__.startswith('/repo/') and new.__file__.startswith('/tmp/wtw_C10/')

from pymatgen.core import Lattice
from gemdat.volume import FreeEnergyVolume

warnings.simplefilter('ignore')
fails = 0
n = 0


def sig(p):
    return (list(p.sites), [type(c).__name__ for s in p.sites for c in s],
            [float(e) for e in p.energy], [type(e).__name__ for e in p.energy],
            float(p.total_energy), p.dims, repr(p))


def call(f, *a, **k):
    try:
        r = f(*a, **k)
    except Exception as e:  # noqa: BLE001
        return ('exc', type(e).__name__, str(e))
    if isinstance(r, list):
        return [sig(p) for p in r]
    if hasattr(r, 'sites'):
        return sig(r)
    return r


def check(tag, a, b):
    global fails, n
    n += 1
    if a != b:
        fails += 1
        print('MISMATCH', tag)
        print('  old', a)
        print('  new', b)


rng = np.random.default_rng(77)
methods = ['dijkstra', 'bellman-ford', 'minmax-energy', 'dijkstra-exp', 'simple', 'astar', 'Dijkstra', '']

# ---- optimal_path on periodic grids (graph from the unchanged free_energy_graph)
for i in range(30):
    shape = tuple(int(x) for x in rng.integers(1, 6, size=3))
    data = rng.uniform(0.0, 5.0, size=shape)
    if i % 3 == 0:
        data = np.round(data)
    if i % 4 == 0:
        data[rng.random(shape) < 0.25] = [np.nan, 1e9, -2.0][i % 3]
    F = data
    if i % 2:
        lat = Lattice.from_parameters(3.1, 4.2, 5.3, 58 + 50 * rng.random(), 70 + 30 * rng.random(), 95 + 20 * rng.random())
        F = FreeEnergyVolume(data=data, lattice=lat)
    G = new.free_energy_graph(F, max_energy_threshold=[1e20, 4.0, 1e7][i % 3], diagonal=bool(i % 2))
    pts = [tuple(int(rng.integers(s)) for s in shape) for _ in range(4)]
    for m in methods:
        for s, t in zip(pts[:-1], pts[1:]):
            for st, sp in ((s, t), (np.array(s), list(t))):
                check(('optimal_path', i, m, s, t),
                      call(old.optimal_path, G, start=st, stop=sp, method=m),
                      call(new.optimal_path, G, start=st, stop=sp, method=m))
    s, t = pts[0], pts[-1]
    check(('optimal_path default', i), call(old.optimal_path, G, start=s, stop=t), call(new.optimal_path, G, start=s, stop=t))

# ---- optimal_n_paths on grids of at most 6 voxels only (shortest_simple_paths may be exhausted)
small = [((2, 2, 1), True), ((2, 2, 1), False), ((3, 2, 1), False), ((2, 1, 3), True), ((1, 1, 4), False),
         ((5, 1, 1), True), ((2, 3, 1), True), ((1, 2, 2), True), ((3, 1, 2), False)]
for i in range(32):
    shape, diag = small[i % len(small)]
    data = rng.uniform(0.0, 3.0, size=shape)
    if i % 3 == 1:
        data = np.round(data)
    if i % 5 == 0:
        data[tuple(int(rng.integers(s)) for s in shape)] = 1e9
    G = new.free_energy_graph(data, max_energy_threshold=1e7, diagonal=diag)
    s = tuple(int(rng.integers(d)) for d in shape)
    t = tuple(int(rng.integers(d)) for d in shape)
    kw = dict(n_paths=[3, 2, 1, 5][i % 4], min_diff=[0.15, 0.0, 0.5, 1.0, 0.34][i % 5],
              method=['dijkstra', 'simple', 'dijkstra-exp', 'bellman-ford', 'minmax-energy'][i % 5])
    check(('optimal_n_paths', i, shape, diag, s, t, kw),
          call(old.optimal_n_paths, G, start=s, stop=np.array(t), **kw),
          call(new.optimal_n_paths, G, start=s, stop=np.array(t), **kw))
G = new.free_energy_graph(np.ones((2, 3, 1)))
check('n_paths defaults', call(old.optimal_n_paths, G, start=(0, 0, 0), stop=(1, 2, 0)),
      call(new.optimal_n_paths, G, start=(0, 0, 0), stop=(1, 2, 0)))

# ---- helpers
for i in range(60):
    la, lb = int(rng.integers(0, 7)), int(rng.integers(0, 7))
    p1 = [tuple(int(c) for c in rng.integers(0, 2, size=3)) for _ in range(la)]
    p2 = [tuple(int(c) for c in rng.integers(0, 2, size=3)) for _ in range(lb)]
    check(('difference', p1, p2), call(old.calculate_path_difference, p1, p2), call(new.calculate_path_difference, p1, p2))
    others = [old.Pathway(sites=[tuple(int(c) for c in rng.integers(0, 2, size=3)) for _ in range(int(rng.integers(1, 6)))],
                          energy=[]) for _ in range(int(rng.integers(0, 4)))]
    md = float(rng.choice([0.0, 0.15, 0.5, 1.0, 1.5]))
    check(('too_similar', p1, md), call(old._paths_too_similar, p1, others, md), call(new._paths_too_similar, p1, others, md))

print(f'cases={n} fails={fails}')
sys.exit(1 if fails else 0)
