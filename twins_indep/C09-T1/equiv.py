"""Differential test for refactoring C09/1 (Volume.get_free_energy).

The same randomised inputs are evaluated in two subprocesses, one importing the ORIGINAL
package from /repo/src and one importing the refactored package from /tmp/wtt_C09/src.
All results (arrays bit-for-bit, dtypes, warnings, exceptions) must be identical.
"""

from __future__ import annotations

import os
import pickle
import subprocess
import sys
import tempfile

ORIG = '/repo/src'
NEW = '/tmp/wtt_C09/src'
PY = '/venv/bin/python'


def canon(obj):
    import numpy as np

    if isinstance(obj, np.ndarray):
        return ('nd', obj.dtype.str, obj.shape, np.ascontiguousarray(obj).tobytes())
    if isinstance(obj, np.generic):
        return ('npscalar', obj.dtype.str, obj.tobytes())
    if isinstance(obj, bool) or obj is None or isinstance(obj, (int, str)):
        return (type(obj).__name__, obj)
    if isinstance(obj, float):
        return ('float', obj.hex())
    if isinstance(obj, (list, tuple)):
        return (type(obj).__name__, [canon(o) for o in obj])
    if isinstance(obj, dict):
        return ('dict', [(canon(k), canon(v)) for k, v in obj.items()])
    raise TypeError(type(obj))


def make_cases():
    import numpy as np
    from pymatgen.core import Lattice

    rng = np.random.default_rng(909)
    cases = []

    def lattice(i):
        kind = i % 4
        if kind == 0:
            return Lattice.cubic(float(rng.uniform(2, 9)))
        if kind == 1:
            return Lattice.from_parameters(*rng.uniform(3, 8, 3), *rng.uniform(65, 115, 3))
        if kind == 2:
            return Lattice.hexagonal(float(rng.uniform(3, 6)), float(rng.uniform(4, 9)))
        # rotated triclinic cell (matrix not lower-triangular)
        m = Lattice.from_parameters(4.1, 5.2, 6.3, 75, 98, 108).matrix
        q, _ = np.linalg.qr(rng.normal(size=(3, 3)))
        return Lattice(m @ q)

    for i in range(40):
        shape = tuple(int(x) for x in rng.integers(1, 7, 3))
        kind = i % 8
        if kind == 0:  # sparse counts, many never-visited voxels
            data = rng.poisson(0.4, shape).astype(int)
        elif kind == 1:  # dense counts, all visited
            data = rng.integers(1, 500, shape)
        elif kind == 2:  # float density
            data = rng.random(shape) * (rng.random(shape) > 0.3)
        elif kind == 3:  # float32 density
            data = (rng.random(shape) * (rng.random(shape) > 0.5)).astype(np.float32)
        elif kind == 4:  # single visited voxel
            data = np.zeros(shape, dtype=int)
            data[tuple(int(rng.integers(0, s)) for s in shape)] = int(rng.integers(1, 9))
        elif kind == 5:  # huge dynamic range
            data = 10.0 ** rng.uniform(-300, 300, shape) * (rng.random(shape) > 0.2)
            data = data / 1e10
        elif kind == 6:  # outside the quantifier: negative / nan / all-zero entries
            data = rng.normal(size=shape)
            if i % 16 == 6:
                data = np.zeros(shape)
            elif data.size > 2:
                data.flat[0] = np.nan
        else:  # uint8 counts, non-contiguous view
            data = rng.integers(0, 3, shape + (2,)).astype(np.uint8)[..., 0]
        if data.sum() == 0 and kind not in (6,):
            data.flat[0] = 1
        tkind = i % 5
        if tkind == 0:
            temperature = float(rng.uniform(1, 2000))
        elif tkind == 1:
            temperature = int(rng.integers(1, 1500))
        elif tkind == 2:
            temperature = np.float64(rng.uniform(1e-6, 1e6))
        elif tkind == 3:
            temperature = np.float32(rng.uniform(50, 900))
        else:
            temperature = 1
        cases.append(('volume', data, lattice(i), temperature))

    # error path: invalid temperature type on an all-zero (warning-emitting) volume, array temperature
    cases.append(('volume', np.zeros((2, 2, 2)), lattice(1), 'hot'))
    cases.append(('volume', rng.poisson(1.0, (3, 2, 2)), lattice(3), None))
    cases.append(('volume', rng.poisson(1.0, (3, 2, 2)), lattice(2), np.array([100.0, 300.0])))

    # through the public pipeline: trajectory -> volume -> free energy
    from pymatgen.core import Element

    for i in range(12):
        lat = lattice(i + 1)
        n_steps, n_atoms = int(rng.integers(2, 40)), int(rng.integers(1, 5))
        start = rng.random((1, n_atoms, 3))
        coords = start + np.cumsum(rng.normal(scale=0.08, size=(n_steps, n_atoms, 3)), axis=0)
        coords = coords % 1.0  # atoms cross cell faces
        if i % 3 == 0:
            coords[0, 0] = 0.0  # exactly on a cell face
        cases.append(
            (
                'trajectory',
                [Element('Li')] * n_atoms,
                coords,
                lat,
                float(rng.uniform(0.3, 1.5)),
                float(rng.uniform(100, 1200)),
            )
        )
    return cases


def worker(out_path):
    import warnings

    import numpy as np

    import gemdat
    from gemdat.volume import FreeEnergyVolume, Volume, trajectory_to_volume

    assert os.path.dirname(os.path.dirname(gemdat.__file__)) == os.environ['GEMDAT_EQUIV_SRC'], gemdat.__file__

    results = []
    for case in make_cases():
        with warnings.catch_warnings(record=True) as caught:
            warnings.simplefilter('always')
            try:
                if case[0] == 'volume':
                    _, data, lat, temperature = case
                    vol = Volume(data=data.copy(), lattice=lat, label='x')
                    before = vol.data.copy()
                    fe = vol.get_free_energy(temperature)
                else:
                    _, species, coords, lat, resolution, temperature = case
                    traj = gemdat.Trajectory(
                        species=species,
                        coords=coords,
                        lattice=lat,
                        time_step=1e-15,
                        metadata={'temperature': temperature},
                    )
                    vol = trajectory_to_volume(traj, resolution=resolution)
                    before = vol.data.copy()
                    fe = vol.get_free_energy(temperature=temperature)
                res = {
                    'type': type(fe).__name__,
                    'is_fev': isinstance(fe, FreeEnergyVolume),
                    'data': fe.data,
                    'dims': tuple(int(d) for d in fe.dims),
                    'label': fe.label,
                    'units': str(fe.units),
                    'lattice': np.array(fe.lattice.matrix),
                    'same_lattice_obj': fe.lattice is vol.lattice,
                    'input_untouched': bool(
                        np.array_equal(before, vol.data, equal_nan=True)
                        if before.dtype.kind == 'f'
                        else np.array_equal(before, vol.data)
                    ),
                    'shares_memory': bool(np.shares_memory(fe.data, vol.data)),
                    'writeable': bool(fe.data.flags.writeable),
                }
            except Exception as exc:  # noqa: BLE001
                res = {'exc': type(exc).__name__, 'msg': str(exc)}
        res['warnings'] = sorted((w.category.__name__, str(w.message)) for w in caught)
        results.append(canon(res))

    with open(out_path, 'wb') as fh:
        pickle.dump(results, fh)


def run(src, out_path):
    env = dict(os.environ, PYTHONPATH=src, GEMDAT_EQUIV_SRC=src)
    subprocess.run([PY, os.path.abspath(__file__), '--worker', out_path], env=env, check=True)
    with open(out_path, 'rb') as fh:
        return pickle.load(fh)


def main():
    with tempfile.TemporaryDirectory() as td:
        a = run(ORIG, os.path.join(td, 'orig.pkl'))
        b = run(NEW, os.path.join(td, 'new.pkl'))
    assert len(a) == len(b) and len(a) >= 20
    bad = [i for i, (x, y) in enumerate(zip(a, b)) if x != y]
    n_exc = sum(1 for x in a if any(k == ('str', 'exc') for k, _ in x[1]))
    print(f'cases={len(a)} raising={n_exc} differing={len(bad)}')
    if bad:
        for i in bad[:5]:
            print('DIFF in case', i, '\n  orig:', a[i], '\n  new: ', b[i])
        sys.exit(1)
    print('OK: identical results')


if __name__ == '__main__':
    if len(sys.argv) == 3 and sys.argv[1] == '--worker':
        worker(sys.argv[2])
    else:
        main()
