"""Differential test: original gemdat.transitions (from /repo/src) vs the refactored worktree version.

Run as: PYTHONPATH=/tmp/wtw_C02/src /venv/bin/python equiv.py
Exits non-zero when any result differs.
"""
import importlib.util
import os
import sys
import warnings

sys.path.insert(0, '/tmp/wtw_C02/src')

import numpy as np
from pymatgen.core import Element, Lattice, Structure

import gemdat
from gemdat import transitions as new

assert new.__file__.startswith('/tmp/wtw_C02/'), new.__file__

spec = importlib.util.spec_from_file_location(
    'gemdat._orig_transitions', '/repo/src/gemdat/transitions.py'
)
old = importlib.util.module_from_spec(spec)
sys.modules['gemdat._orig_transitions'] = old
spec.loader.exec_module(old)

failures = []


def rotation(rng):
    q, r = np.linalg.qr(rng.normal(size=(3, 3)))
    q = q * np.sign(np.diag(r))
    if np.linalg.det(q) < 0:
        q[:, 0] = -q[:, 0]
    return q


def make_lattice(rng, kind):
    if kind == 0:
        a = rng.uniform(6, 10)
        return Lattice.cubic(a)
    if kind == 1:
        return Lattice.orthorhombic(*rng.uniform(5, 11, size=3))
    if kind == 2:
        return Lattice.from_parameters(
            *rng.uniform(6, 10, size=3), *rng.uniform(65, 115, size=3)
        )
    if kind == 3:  # rotated triclinic
        lat = Lattice.from_parameters(
            *rng.uniform(6, 10, size=3), *rng.uniform(70, 110, size=3)
        )
        return Lattice(lat.matrix @ rotation(rng))
    # strongly skewed
    return Lattice.from_parameters(
        rng.uniform(5, 8), rng.uniform(7, 10), rng.uniform(6, 9), 60.0, 120.0, rng.uniform(75, 100)
    )


def make_case(rng, kind, n_sites=8, n_atoms=5, n_frames=30):
    lattice = make_lattice(rng, kind)
    # sites on a jittered grid so that they are reasonably separated; some on the cell faces
    grid = np.array([[i, j, k] for i in (0, 0.5) for j in (0, 0.5) for k in (0, 0.5)], dtype=float)
    site_frac = (grid[:n_sites] + rng.uniform(-0.04, 0.04, size=(n_sites, 3))) % 1.0
    labels = [('A' if i % 3 else 'B') for i in range(n_sites)]
    sites = Structure(lattice, ['Li'] * n_sites, site_frac, labels=labels)

    # atoms hop between sites, with noise; some frames far away (no site); not wrapped (cross faces)
    which = rng.integers(0, n_sites, size=(n_frames, n_atoms))
    noise = rng.normal(scale=0.03, size=(n_frames, n_atoms, 3))
    far = rng.uniform(size=(n_frames, n_atoms)) < 0.2
    pos = site_frac[which] + noise
    pos[far] = rng.uniform(-0.5, 1.5, size=(int(far.sum()), 3))
    shift = rng.integers(-1, 2, size=(n_frames, n_atoms, 3))
    pos = pos + shift
    # framework atoms
    n_fw = 3
    fw = np.broadcast_to(rng.uniform(size=(1, n_fw, 3)), (n_frames, n_fw, 3)) + rng.normal(
        scale=0.005, size=(n_frames, n_fw, 3)
    )
    coords = np.concatenate([pos, fw], axis=1)
    species = [Element('Li')] * n_atoms + [Element('S')] * n_fw
    traj = gemdat.Trajectory(
        species=species,
        coords=coords,
        lattice=lattice.matrix,
        time_step=1e-15,
        metadata={'temperature': 300},
    )
    return traj, sites


def call(fn, *args, **kwargs):
    with warnings.catch_warnings(record=True) as w:
        warnings.simplefilter('always')
        try:
            res = ('ok', fn(*args, **kwargs))
        except Exception as exc:  # noqa: BLE001
            res = ('err', type(exc).__name__, str(exc))
    warns = [(x.category.__name__, str(x.message), os.path.basename(x.filename)) for x in w]
    return res, warns


def same(a, b):
    if isinstance(a, np.ndarray) or isinstance(b, np.ndarray):
        a = np.asarray(a)
        b = np.asarray(b)
        return a.shape == b.shape and a.dtype == b.dtype and np.array_equal(a, b)
    if isinstance(a, tuple) and isinstance(b, tuple):
        return len(a) == len(b) and all(same(x, y) for x, y in zip(a, b))
    if hasattr(a, 'equals'):
        return a.equals(b) and list(a.columns) == list(b.columns)
    if isinstance(a, float) and isinstance(b, float):
        return a == b or abs(a - b) <= 1e-12
    return a == b


stats = {}


def check(tag, r_old, r_new):
    key = (tag.split()[0], r_old[0][0], bool(r_old[1]))
    stats[key] = stats.get(key, 0) + 1
    (res_o, w_o), (res_n, w_n) = r_old, r_new
    if not same(res_o, res_n):
        failures.append(f'{tag}: result differs\n  old={res_o}\n  new={res_n}')
    if w_o != w_n:
        failures.append(f'{tag}: warnings differ\n  old={w_o}\n  new={w_n}')


n_cases = 0
for seed in range(30):
    rng = np.random.default_rng(1000 + seed)
    kind = seed % 5
    traj, sites = make_case(rng, kind)
    diff = traj.filter('Li')
    r = float(rng.uniform(0.3, 1.2))
    radii = [
        {'': r},
        {'A': float(rng.uniform(0.3, 1.0)), 'B': float(rng.uniform(0.3, 1.0))},
        {'B': 0.6},
        {'A': 1e-6, 'B': 0.5},  # nothing in range of A -> warning + continue
        {'': 1e-7},
        {'A': 0.5, 'Z': 0.5},  # unknown label -> error
    ]
    for rad in radii:
        for inner in (1.0, float(rng.uniform(0.2, 0.9))):
            kw = dict(sites=sites, trajectory=diff, site_radius=rad, site_inner_fraction=inner)
            check(f'states seed={seed} rad={rad} inner={inner}',
                  call(old._calculate_atom_states, **kw), call(new._calculate_atom_states, **kw))
            n_cases += 1

    # empty selection of floating atoms
    empty = traj.filter('S')[:, :0] if False else None

    # automatic radius
    for amp in (0.05, 0.3, 0.9, 3.0):
        kw = dict(trajectory=traj, sites=sites, vibration_amplitude=amp)
        check(f'radius seed={seed} amp={amp}',
              call(old._compute_site_radius, **kw), call(new._compute_site_radius, **kw))
        n_cases += 1

    # sites that are too close together -> error message must be the same
    fc = sites.frac_coords.copy()
    fc[3] = fc[1] + np.array([0.01, 0.0, 1.0])  # close through the periodic image
    close_sites = Structure(sites.lattice, ['Li'] * len(fc), fc, labels=[s.label for s in sites])
    kw = dict(trajectory=traj, sites=close_sites, vibration_amplitude=0.4)
    check(f'radius-close seed={seed}',
          call(old._compute_site_radius, **kw), call(new._compute_site_radius, **kw))
    # single site -> empty reduction error
    one = Structure(sites.lattice, ['Li'], [[0.1, 0.2, 0.3]])
    kw = dict(trajectory=traj, sites=one, vibration_amplitude=0.4)
    check(f'radius-one seed={seed}',
          call(old._compute_site_radius, **kw), call(new._compute_site_radius, **kw))
    n_cases += 2

    # full pipeline
    for rad, inner in ((None, 1.0), (None, 0.6), (r, 0.8), ({'A': 0.7, 'B': 0.5}, 0.5), (1, 1.0),
                       ({'A': 1e-6, 'B': 0.5}, 0.7)):
        def run(mod):
            t = mod.Transitions.from_trajectory(
                trajectory=traj, sites=sites, floating_specie='Li',
                site_radius=rad, site_inner_fraction=inner,
            )
            return (t.states, t.inner_states, t.events, t.matrix(), t.n_floating, t.n_sites)
        check(f'from_trajectory seed={seed} rad={rad} inner={inner}',
              call(run, old), call(run, new))
        n_cases += 1

    # disordered sites -> error
    dis = Structure(sites.lattice, [{'Li': 0.5}] * 2, [[0, 0, 0], [0.5, 0.5, 0.5]])
    def run_dis(mod):
        return mod.Transitions.from_trajectory(trajectory=traj, sites=dis, floating_specie='Li')
    check(f'disorder seed={seed}', call(run_dis, old), call(run_dis, new))

print(stats)
print(f'cases={n_cases} failures={len(failures)}')
for f in failures[:10]:
    print(f)
sys.exit(1 if failures else 0)
