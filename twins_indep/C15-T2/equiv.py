"""Differential test for twin C15/2 (Trajectory.split: early return, explicit loops, array differences).

Runs the same randomised call sequences against the ORIGINAL gemdat (/repo/src) and the
refactored gemdat (/tmp/wtt_C15/src, override with env TWIN_SRC) in two subprocesses and
compares every recorded result bit-for-bit.  Exits non-zero on any difference.
"""
from __future__ import annotations

import os
import pickle
import subprocess
import sys
import tempfile

ORIG_SRC = '/repo/src'
TWIN_SRC = os.environ.get('TWIN_SRC', '/tmp/wtt_C15/src')
N_CASES = 40
FOCUS = 'split'


# --------------------------------------------------------------------------- worker
def worker(out_path: str) -> None:
    import warnings

    import numpy as np

    warnings.simplefilter('ignore')
    from pymatgen.core import Element, Lattice, Structure

    import gemdat
    from gemdat import Trajectory

    assert os.path.realpath(gemdat.__file__).startswith(os.path.realpath(os.environ['EXPECT_SRC'])), gemdat.__file__

    records: list = []

    def norm(x):
        """Turn a result into plain picklable data."""
        if isinstance(x, Trajectory):
            return snapshot(x)
        if isinstance(x, np.ndarray):
            return ('nd', str(x.dtype), x.shape, np.ascontiguousarray(x).tobytes())
        if isinstance(x, (list, tuple)):
            return [norm(i) for i in x]
        if isinstance(x, float):
            return ('f', x.hex())  # nan-safe, bit-exact
        if isinstance(x, (int, str, bool, type(None))):
            return x
        if isinstance(x, np.generic):
            return ('npg', str(x.dtype), x.tobytes())
        return ('repr', repr(x))

    def snapshot(t):
        """Non-mutating snapshot of everything observable about a trajectory."""
        return {
            'cls': type(t).__name__,
            'mode': bool(t.coords_are_displacement),
            'coords': norm(np.asarray(t.coords)),
            'base': norm(np.asarray(t.base_positions)),
            'species': [str(s) for s in t.species],
            'lattice': norm(np.asarray(t.lattice)),
            'constant_lattice': bool(t.constant_lattice),
            'time_step': norm(t.time_step),
            'metadata': repr(sorted(t.metadata.items())),
            'n': len(t),
        }

    def rec(label, fn):
        try:
            val = fn()
            records.append((label, 'ok', norm(val)))
            return val
        except Exception as e:  # same failure must occur on both sides
            records.append((label, 'exc', type(e).__name__, str(e)))
            return None

    def random_lattice(rng, kind):
        if kind == 0:
            return Lattice.cubic(rng.uniform(3, 12))
        if kind == 1:
            return Lattice.orthorhombic(*rng.uniform(3, 12, 3))
        if kind == 2:
            return Lattice.from_parameters(*rng.uniform(4, 11, 3), *rng.uniform(60, 120, 3))
        if kind == 3:  # rotated triclinic, arbitrary orientation
            m = Lattice.from_parameters(*rng.uniform(4, 11, 3), *rng.uniform(70, 110, 3)).matrix
            q, _ = np.linalg.qr(rng.normal(size=(3, 3)))
            return Lattice(m @ q)
        return Lattice.hexagonal(rng.uniform(3, 8), rng.uniform(4, 14))

    pool = ['Li', 'Li', 'Li', 'S', 'P', 'Na', 'O', 'Cl']

    def make(rng, case):
        n_atoms = int(rng.integers(1, 9))
        n_frames = int(rng.integers(2, 31))
        species = [Element(pool[i]) for i in rng.integers(0, len(pool), n_atoms)]
        lat = random_lattice(rng, case % 5)
        start = rng.uniform(0, 1, (n_atoms, 3))
        steps = rng.normal(0, rng.choice([0.01, 0.1, 0.4]), (n_frames, n_atoms, 3))
        steps[0] = 0
        coords = start + np.cumsum(steps, axis=0)  # unwrapped: leaves [0, 1) and crosses faces
        # boundary values
        coords.flat[rng.integers(0, coords.size, 4)] = [0.0, 1.0, -1e-17, 1 - 1e-16]
        if case % 3 == 1:
            coords = np.mod(coords, 1)
        meta = {'temperature': float(rng.choice([300, 650, 900]))}
        ts = float(rng.choice([1e-15, 2e-15, 5e-16]))
        if case % 4 == 3:  # start life in displacement representation
            disp = rng.normal(0, 0.05, (n_frames, n_atoms, 3))
            disp[0] = 0
            return Trajectory(species=species, coords=disp, lattice=lat, time_step=ts, metadata=meta,
                              coords_are_displacement=True, base_positions=start)
        return Trajectory(species=species, coords=coords, lattice=lat, time_step=ts, metadata=meta)

    def sites_for(rng, t):
        lat = t.get_lattice()
        k = int(rng.integers(1, 4))
        return Structure(lat, ['Li'] * k, rng.uniform(0, 1, (k, 3)), labels=[f'Li{i}' for i in range(k)])

    selections = ['Li', 'S', ['Li'], ['Li', 'S'], {'Na', 'O'}, ('P',), 'Xx', [], 'LiS', ['Li', 'Li'],
                  {'Li', 'S', 'P', 'Na', 'O', 'Cl'}]

    def run_case(case):
        rng = np.random.default_rng(1000 + case)
        t = make(rng, case)
        live = [t]
        rec(f'{case}:init', lambda: t)
        ops = ['filter', 'filter', 'filter', 'positions', 'displacements', 'slice', 'split', 'extend', 'dist',
               'drift', 'cumdisp', 'metrics', 'volume', 'transitions', 'index', 'drift_corr', 'com', 'msd']
        ops += [FOCUS] * 6 if FOCUS in ops else []
        for step in range(int(rng.integers(6, 16))):
            op = ops[int(rng.integers(0, len(ops)))]
            src = live[int(rng.integers(0, len(live)))]
            tag = f'{case}:{step}:{op}'
            new = None
            if op == 'filter':
                sel = selections[int(rng.integers(0, len(selections)))]
                new = rec(tag + (repr(sorted(sel)) if isinstance(sel, set) else repr(sel)), lambda: src.filter(sel))
            elif op == 'positions':
                rec(tag, lambda: src.positions.copy())
            elif op == 'displacements':
                rec(tag, lambda: src.displacements.copy())
            elif op == 'slice':
                a, b = (int(v) for v in rng.integers(-len(src) - 2, len(src) + 3, 2))
                st = int(rng.choice([1, 1, 2, 3, -1, -2]))
                sl = slice(rng.choice([a, None]), rng.choice([b, None]), st)
                new = rec(tag + repr(sl), lambda: src[sl])
            elif op == 'index':
                i = int(rng.integers(-len(src), len(src) + 1))
                rec(tag, lambda: (lambda s: (s.frac_coords.copy(), [str(x) for x in s.species], s.lattice.matrix.copy(),
                                             repr(s.metadata)))(src[i]))
                frames = [int(v) for v in rng.integers(0, len(src), 3)]
                new = rec(tag + 'list', lambda: src[frames])
            elif op == 'split':
                n = int(rng.integers(0, 7))
                eq = bool(rng.integers(0, 2))
                parts = rec(tag + f'{n}{eq}', lambda: src.split(n, equal_parts=eq))
                if parts:
                    new = parts[int(rng.integers(0, len(parts)))]
            elif op == 'extend':
                other = live[int(rng.integers(0, len(live)))]
                tgt = rec(tag + 'copy', lambda: src[:])
                if tgt is not None:
                    rec(tag, lambda: (tgt.extend(other), tgt)[1])
                    new = tgt
            elif op == 'dist':
                rec(tag, lambda: src.distances_from_base_position())
            elif op == 'drift':
                kw = [{}, {'fixed_species': 'S'}, {'floating_species': 'Li'}, {'floating_species': ['Li', 'Na']},
                      {'fixed_species': ['P', 'O']}][int(rng.integers(0, 5))]
                rec(tag + repr(kw), lambda: src.drift(**kw))
            elif op == 'drift_corr':
                kw = [{}, {'fixed_species': 'S'}, {'floating_species': 'Li'}][int(rng.integers(0, 3))]
                new = rec(tag + repr(kw), lambda: src.apply_drift_correction(**kw))
            elif op == 'com':
                new = rec(tag, lambda: src.center_of_mass())
            elif op == 'cumdisp':
                rec(tag, lambda: src.cumulative_displacements)
            elif op == 'msd':
                rec(tag, lambda: src.mean_squared_displacement())
            elif op == 'metrics':
                m = src.metrics()
                rec(tag + 'speed', lambda: m.speed())
                rec(tag + 'dens', lambda: float(m.particle_density()))
                rec(tag + 'vib', lambda: float(m.vibration_amplitude()))
                rec(tag + 'amp', lambda: m.amplitudes())
            elif op == 'volume':
                rec(tag, lambda: src.to_volume(resolution=float(rng.choice([0.5, 1.0]))).data)
            elif op == 'transitions':
                sites = sites_for(rng, src)
                rec(tag, lambda: (lambda tr: (tr.states, tr.events.to_numpy()))(
                    src.transitions_between_sites(sites, 'Li', site_radius=float(rng.choice([0.5, 1.5])))))
            if isinstance(new, Trajectory):
                live.append(new)
            # after every step: state of every live trajectory must agree between the two trees
            for k, tr in enumerate(live):
                records.append((tag + f'/live{k}', 'ok', snapshot(tr)))
        # final read-out in both representations
        for k, tr in enumerate(live):
            rec(f'{case}:final{k}:pos', lambda: tr.positions.copy())
            rec(f'{case}:final{k}:disp', lambda: tr.displacements.copy())
            rec(f'{case}:final{k}:pos2', lambda: tr.positions.copy())

    def split_case(case):
        # dedicated sweep over split(): longer trajectories, uneven part sizes, both flags, either representation
        rng = np.random.default_rng(5000 + case)
        n_atoms = int(rng.integers(1, 5))
        n_frames = int(rng.integers(3, 120))
        species = [Element(pool[i]) for i in rng.integers(0, len(pool), n_atoms)]
        coords = rng.uniform(-0.5, 1.5, (n_frames, n_atoms, 3))
        t = Trajectory(species=species, coords=coords, lattice=random_lattice(rng, case % 5), time_step=1e-15,
                       metadata={'temperature': 300.0, 'case': case})
        if case % 2:
            t.to_displacements()
        for n in [0, 1, 2, 3, 7, 10, n_frames - 1, n_frames, n_frames + 3, int(rng.integers(1, 15))]:
            for eq in (False, True):
                parts = rec(f'split{case}:{n}:{eq}', lambda: t.split(n, equal_parts=eq))
                records.append((f'split{case}:{n}:{eq}/src', 'ok', snapshot(t)))
                if parts:
                    rec(f'split{case}:{n}:{eq}/len', lambda: [len(p) for p in parts])
                    rec(f'split{case}:{n}:{eq}/sub', lambda: parts[-1].split(2, equal_parts=eq))
            if case % 3 == 0:
                rec(f'split{case}:{n}:disp', lambda: t.displacements.copy())
        rec(f'split{case}:default', lambda: t.split())
        rec(f'split{case}:neg', lambda: t.split(-1, equal_parts=True))
        rec(f'split{case}:neg2', lambda: t.split(-2))

    for case in range(N_CASES):
        run_case(case)
        split_case(case)

    with open(out_path, 'wb') as f:
        pickle.dump(records, f)


# --------------------------------------------------------------------------- driver
def run(src: str, out: str) -> None:
    env = dict(os.environ, PYTHONPATH=src, EXPECT_SRC=src, PYTHONHASHSEED='0')
    subprocess.run([sys.executable, os.path.abspath(__file__), '--worker', out], env=env, check=True)


def main() -> int:
    with tempfile.TemporaryDirectory() as td:
        a, b = os.path.join(td, 'orig.pkl'), os.path.join(td, 'twin.pkl')
        run(ORIG_SRC, a)
        run(TWIN_SRC, b)
        ra, rb = pickle.load(open(a, 'rb')), pickle.load(open(b, 'rb'))
    bad = 0
    if len(ra) != len(rb):
        print(f'DIFF: record count {len(ra)} vs {len(rb)}')
        bad += 1
    for x, y in zip(ra, rb):
        if x != y:
            bad += 1
            if bad < 10:
                print('DIFF at', x[0], '|', y[0], '|', x[1], y[1], (x[2:] if x[1] == 'exc' else ''), (y[2:] if y[1] == 'exc' else ''))
    n_ok = sum(r[1] == 'ok' for r in ra)
    n_exc = sum(r[1] == 'exc' for r in ra)
    print(f'cases={N_CASES} records={len(ra)} ok={n_ok} exc={n_exc} differing={bad}')
    return 1 if bad else 0


if __name__ == '__main__':
    if len(sys.argv) == 3 and sys.argv[1] == '--worker':
        worker(sys.argv[2])
    else:
        sys.exit(main())
