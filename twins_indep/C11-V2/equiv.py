"""Differential test: original gemdat/rdf.py (from /repo/src) vs refactored one (worktree).

Usage: PYTHONPATH=/tmp/wtu_C11/src /venv/bin/python equiv.py
The original module is loaded under the name ``gemdat._rdf_orig`` so that its relative
imports resolve, all other gemdat modules are shared (they are identical in both trees).
"""
from __future__ import annotations

import importlib.util
import os
import sys
import warnings

WT = os.environ.get('WT', '/tmp/wtu_C11')
sys.path.insert(0, os.path.join(WT, 'src'))

import numpy as np
import pandas as pd
from pymatgen.core import Element, Lattice, Species, Structure

import gemdat
from gemdat import Trajectory
from gemdat import rdf as new
from gemdat.transitions import Transitions

assert os.path.realpath(new.__file__).startswith(os.path.realpath(WT)), new.__file__

spec = importlib.util.spec_from_file_location('gemdat._rdf_orig', '/repo/src/gemdat/rdf.py')
old = importlib.util.module_from_spec(spec)
sys.modules['gemdat._rdf_orig'] = old
spec.loader.exec_module(old)

# silence the progress bar of both implementations in the same way
import rich.progress  # noqa: E402


def rotation(rng):
    q, r = np.linalg.qr(rng.normal(size=(3, 3)))
    q = q * np.sign(np.diag(r))
    if np.linalg.det(q) < 0:
        q[:, 0] = -q[:, 0]
    return q


def random_lattice(rng, kind):
    if kind == 0:
        return Lattice.cubic(rng.uniform(4, 7))
    if kind == 1:
        return Lattice.orthorhombic(*rng.uniform(3.5, 8, size=3))
    if kind == 2:
        return Lattice.from_parameters(*rng.uniform(4, 7, size=3), *rng.uniform(65, 115, size=3))
    if kind == 3:
        m = Lattice.from_parameters(*rng.uniform(4, 7, size=3), *rng.uniform(70, 110, size=3)).matrix
        return Lattice(m @ rotation(rng))
    # grid friendly cubic cell: distances fall exactly on bin edges
    return Lattice.cubic(4.0)


def random_species(rng, n, oxid):
    pool = ['Li', 'P', 'S', 'Br']
    k = rng.integers(1, 5)
    chosen = ['Li'] + list(rng.choice(pool[1:], size=k - 1, replace=False))
    syms = ['Li'] + [chosen[rng.integers(len(chosen))] for _ in range(n - 1)]
    rng.shuffle(syms)
    charge = {'Li': 1, 'P': 5, 'S': -2, 'Br': -1}
    if oxid:
        return [Species(s, charge[s]) for s in syms]
    return [Element(s) for s in syms]


def random_trajectory(rng, case):
    kind = case % 5
    lattice = random_lattice(rng, kind)
    n_atoms = int(rng.integers(2, 9))
    n_frames = int(rng.integers(1, 7))
    species = random_species(rng, n_atoms, oxid=(case % 7 == 3))
    if kind == 4:
        base = rng.integers(0, 40, size=(1, n_atoms, 3)) / 40
        coords = base + rng.integers(-2, 3, size=(n_frames, n_atoms, 3)) / 40
    else:
        base = rng.uniform(0, 1, size=(1, n_atoms, 3))
        coords = base + np.cumsum(rng.normal(scale=0.08, size=(n_frames, n_atoms, 3)), axis=0)
    if case % 3 == 0:
        # atoms outside the unit cell / crossing faces
        coords = coords + rng.integers(-1, 2, size=(1, n_atoms, 3))
    return Trajectory(
        species=species,
        coords=coords,
        lattice=lattice,
        time_step=1e-15,
        metadata={'temperature': 300},
    )


def random_transitions(rng, trajectory, case):
    n_sites = int(rng.integers(1, 6))
    label_pool = [['A'], ['A', 'B'], ['48h', '16e', '4c'], ['x', 'y', 'z', 'w']][case % 4]
    labels = [label_pool[rng.integers(len(label_pool))] for _ in range(n_sites)]
    sites = Structure(
        trajectory.get_lattice(),
        ['Li'] * n_sites,
        rng.uniform(0, 1, size=(n_sites, 3)),
        labels=labels,
    )
    diff = trajectory.filter('Li')
    n_frames, n_float = diff.positions.shape[:2]
    mode = case % 4
    if mode == 0:
        states = rng.integers(-1, n_sites, size=(n_frames, n_float))
    elif mode == 1:
        states = np.full((n_frames, n_float), -1)  # only 'no site'
    elif mode == 2:
        states = np.repeat(rng.integers(0, n_sites, size=(1, n_float)), n_frames, axis=0)  # never leaves
    else:
        # runs: site, gap, site
        states = np.full((n_frames, n_float), -1)
        for a in range(n_float):
            t = 0
            while t < n_frames:
                run = int(rng.integers(1, 4))
                states[t:t + run, a] = rng.integers(-1, n_sites)
                t += run
    events = pd.DataFrame(columns=['atom index', 'start site', 'destination site', 'time', 'stop inner'])
    return Transitions(
        trajectory=trajectory,
        diff_trajectory=diff,
        sites=sites,
        events=events,
        states=states,
        inner_states=states.copy(),
    )


STATS = {'ok': 0, 'err': 0}


def run(fn, *args, **kwargs):
    try:
        with warnings.catch_warnings():
            warnings.simplefilter('ignore')
            result = ('ok', fn(*args, **kwargs))
    except Exception as exc:  # compare failures as well
        result = ('err', type(exc).__name__, str(exc))
    STATS[result[0]] += 1
    return result


def same_array(a, b):
    a = np.asarray(a)
    b = np.asarray(b)
    if a.shape != b.shape or a.dtype != b.dtype:
        return False
    if a.dtype.kind == 'f':
        return bool(np.allclose(a, b, rtol=0, atol=1e-12, equal_nan=True))
    return bool(np.array_equal(a, b))


def same_rdfdata(a, b):
    return (
        type(a).__name__ == type(b).__name__
        and a.label == b.label
        and a.state == b.state
        and same_array(a.x, b.x)
        and same_array(a.y, b.y)
    )


def same_state_rdfs(ra, rb):
    if ra[0] != rb[0]:
        return False
    if ra[0] == 'err':
        return ra == rb
    a, b = ra[1], rb[1]
    if list(a.keys()) != list(b.keys()):
        return False
    for key in a:
        if type(a[key]).__name__ != type(b[key]).__name__ or len(a[key]) != len(b[key]):
            return False
        if not all(same_rdfdata(x, y) for x, y in zip(a[key], b[key])):
            return False
    return True


def same_pair_rdf(ra, rb):
    if ra[0] != rb[0]:
        return False
    if ra[0] == 'err':
        return ra == rb
    return same_rdfdata(ra[1], rb[1])


def same_generic(ra, rb):
    if ra[0] != rb[0]:
        return False
    if ra[0] == 'err':
        return ra == rb
    a, b = ra[1], rb[1]
    if isinstance(a, dict):
        if list(a.keys()) != list(b.keys()):
            return False
        return all(
            same_array(a[k], b[k]) if isinstance(a[k], np.ndarray) else a[k] == b[k] and type(a[k]) is type(b[k])
            for k in a
        )
    return same_array(a, b)


PARAMS = [(5.0, 0.1), (3.0, 0.25), (6.5, 0.05), (2.0, 0.5), (4.0, 1.0), (0.3, 0.1)]
SELECTIONS = ['Li', 'P', 'S', ['Li', 'S'], ['P', 'Li'], ('S', 'Br'), 'Xe', ['Li']]


def main():
    failures = []
    n_checks = 0
    for case in range(60):
        rng = np.random.default_rng(1100 + case)
        trajectory = random_trajectory(rng, case)
        transitions = random_transitions(rng, trajectory, case)
        max_dist, resolution = PARAMS[case % len(PARAMS)]
        labels = list(transitions.sites.labels)

        # helpers
        for name, args in [
            ('_get_states', (labels,)),
            ('_get_states_array', (transitions, labels)),
            ('_uniqify_labels', (transitions.states, labels)),
            ('_uniqify_labels', (transitions.states.tolist(), labels)),
            ('_get_symbol_indices', (trajectory.get_structure(0),)),
        ]:
            if hasattr(old, name) and hasattr(new, name):
                n_checks += 1
                if not same_generic(run(getattr(old, name), *args), run(getattr(new, name), *args)):
                    failures.append((case, name))

        # per-state radial distribution
        for kwargs in (
            dict(floating_specie='Li', max_dist=max_dist, resolution=resolution),
            dict(floating_specie='Li'),
            # selections that do not match the atoms the states were computed for
            dict(floating_specie='S', max_dist=max_dist, resolution=resolution),
            dict(floating_specie='Xe', max_dist=max_dist),
            dict(floating_specie=['Li', 'P'], resolution=resolution),
        ):
            n_checks += 1
            ra = run(old.radial_distribution, transitions=transitions, **kwargs)
            rb = run(new.radial_distribution, transitions=transitions, **kwargs)
            if not same_state_rdfs(ra, rb):
                failures.append((case, 'radial_distribution', kwargs))
            if case == 0 and kwargs.get('floating_specie') == 'Li':
                assert ra[0] == 'ok' and len(ra[1]) > 0, ra

        # states computed by the library itself from the trajectory
        if case % 3 == 1:
            made = run(
                Transitions.from_trajectory,
                trajectory=trajectory,
                sites=transitions.sites,
                floating_specie='Li',
                site_radius=float(rng.uniform(0.8, 2.0)),
            )
            if made[0] == 'ok':
                n_checks += 1
                ra = run(old.radial_distribution, transitions=made[1], floating_specie='Li', max_dist=max_dist, resolution=resolution)
                rb = run(new.radial_distribution, transitions=made[1], floating_specie='Li', max_dist=max_dist, resolution=resolution)
                if not same_state_rdfs(ra, rb):
                    failures.append((case, 'radial_distribution/from_trajectory'))

        # species-pair radial distribution (including symmetric pair and empty selections)
        s1 = SELECTIONS[rng.integers(len(SELECTIONS))]
        s2 = SELECTIONS[rng.integers(len(SELECTIONS))]
        for a, b in ((s1, s2), (s2, s1), ('Li', 'Li'), ('Li', SELECTIONS[case % len(SELECTIONS)])):
            for kwargs in (dict(max_dist=max_dist, resolution=resolution), dict()):
                n_checks += 1
                ra = run(old.radial_distribution_between_species, trajectory=trajectory, specie_1=a, specie_2=b, **kwargs)
                rb = run(new.radial_distribution_between_species, trajectory=trajectory, specie_1=a, specie_2=b, **kwargs)
                if not same_pair_rdf(ra, rb):
                    failures.append((case, 'radial_distribution_between_species', a, b, kwargs))

    print(f'checks={n_checks} failures={len(failures)} calls_ok={STATS["ok"]} calls_raising={STATS["err"]}')
    for f in failures[:20]:
        print('  DIFF', f)
    return 1 if failures else 0


if __name__ == '__main__':
    sys.exit(main())
