"""Differential test: trajectory_to_volume / Volume.probability / Volume.normalized (and the free energy derived from them),
original (/repo/src) vs refactored (/tmp/wtw_C09/src).

The script re-runs itself as a worker under both PYTHONPATHs with the same seed, and compares the pickled results bit for bit.
"""
import os
import pickle
import subprocess
import sys
import warnings

ORIG = '/repo/src'
NEW = '/tmp/wtw_C09/src'
N_CASES = 36


def arr(a):
    import numpy as np

    a = np.asarray(a)
    return (a.dtype.str, a.shape, a.tobytes(), bool(a.flags['C_CONTIGUOUS']))


def worker():
    warnings.simplefilter('ignore')
    import numpy as np
    from pymatgen.core import Element, Lattice

    import gemdat
    from gemdat import Trajectory
    from gemdat.volume import Volume, trajectory_to_volume

    assert gemdat.__file__.startswith(os.environ['PYTHONPATH']), gemdat.__file__
    rng = np.random.default_rng(31337)
    out = []
    for case in range(N_CASES):
        n_atoms = int(rng.integers(1, 6))
        n_steps = int(rng.integers(1, 40))
        kind = case % 6
        if case % 3 == 0:
            lattice = Lattice.from_parameters(*rng.uniform(1.5, 6, 3), *rng.uniform(60, 120, 3))
        elif case % 3 == 1:
            lattice = Lattice(rng.normal(size=(3, 3)) * 2 + np.eye(3) * 4)  # rotated / triclinic
        else:
            lattice = Lattice.orthorhombic(*rng.uniform(1, 7, 3))
        if kind == 0:
            coords = rng.random((n_steps, n_atoms, 3))
        elif kind == 1:
            # random walk that crosses the cell faces many times (wrapped by Trajectory)
            coords = rng.random((1, n_atoms, 3)) + np.cumsum(rng.normal(scale=0.2, size=(n_steps, n_atoms, 3)), axis=0)
        elif kind == 2:
            # atoms sitting still: heavy repetition of the same voxel
            coords = np.repeat(rng.random((1, n_atoms, 3)), n_steps, axis=0)
        elif kind == 3:
            # values on faces / voxel edges: 0, tiny negative, just below 1, exact grid fractions
            pool = np.array([0.0, -1e-18, np.nextafter(1.0, 0.0), 0.5, 0.25, 1.0, -0.5, 1 / 3, 2.0])
            coords = rng.choice(pool, size=(n_steps, n_atoms, 3))
        elif kind == 4:
            coords = rng.random((n_steps, n_atoms, 3)) * 0.1 + 0.95  # cluster straddling the far corner
        else:
            coords = rng.random((n_steps, n_atoms, 3)) - 0.5
        resolution = float(rng.choice([0.2, 0.3, 0.5, 0.77, 1.0, 2.5, 10.0, 0.11]))
        species = [Element(s) for s in rng.choice(['Li', 'Na', 'S', 'P'], size=n_atoms)]
        traj = Trajectory(
            species=species,
            coords=coords,
            lattice=lattice,
            time_step=1e-15,
            metadata={'temperature': 300},
        )
        rec = []
        for label, fn in (
            ('func', lambda: trajectory_to_volume(traj, resolution=resolution)),
            ('method', lambda: traj.to_volume(resolution=resolution)),
            ('Li', lambda: traj.filter('Li').to_volume(resolution=resolution)),  # possibly empty selection
        ):
            try:
                vol = fn()
                r = [label, 'ok', type(vol).__name__, vol.label, str(vol.units), vol.dims, arr(vol.data), arr(vol.lattice.matrix)]
                assert int(vol.data.sum()) == vol.data.sum()
                for name, g in (
                    ('probability', vol.probability),
                    ('normalized', vol.normalized),
                    ('free_energy', lambda: vol.get_free_energy(temperature=450.0).data),
                ):
                    try:
                        r.append((name, arr(g())))
                    except Exception as exc:  # noqa: BLE001
                        r.append((name, 'exc', type(exc).__name__, str(exc)))
            except Exception as exc:  # noqa: BLE001
                r = [label, 'exc', type(exc).__name__, str(exc)]
            rec.append(r)
        out.append(rec)

    # probability / normalized on hand-made volumes (no trajectory involved)
    for case in range(12):
        shape = tuple(int(n) for n in rng.integers(1, 5, size=3))
        data = [
            rng.integers(0, 9, size=shape),
            rng.random(shape),
            np.zeros(shape),
            rng.normal(size=shape).astype(np.float32),
        ][case % 4]
        vol = Volume(data=data, lattice=Lattice.cubic(3.0))
        out.append([arr(vol.probability()), arr(vol.normalized()), float(np.nansum(vol.probability())).hex()])

    # bad arguments
    traj = Trajectory(species=[Element('Li')], coords=rng.random((5, 1, 3)), lattice=Lattice.cubic(3.0), time_step=1.0,
                      metadata={'temperature': 300})
    for res in (0, 0.0, -0.2, -10.0, 1e9, float('nan'), 'x'):
        try:
            v = trajectory_to_volume(traj, resolution=res)
            out.append(['ok', v.dims, arr(v.data)])
        except Exception as exc:  # noqa: BLE001
            out.append(['exc', type(exc).__name__, str(exc)])
    sys.stdout.buffer.write(pickle.dumps(out))


def run(path):
    env = dict(os.environ, PYTHONPATH=path)
    res = subprocess.run([sys.executable, __file__, 'worker'], env=env, capture_output=True, check=False)
    if res.returncode != 0:
        sys.stderr.write(res.stderr.decode())
        raise SystemExit(f'worker failed for {path}')
    return pickle.loads(res.stdout)


def main():
    a, b = run(ORIG), run(NEW)
    assert len(a) == len(b) >= 20
    bad = [i for i, (x, y) in enumerate(zip(a, b)) if x != y]
    n_ok = sum(1 for x in a[:N_CASES] for r in x if r[1] == 'ok')
    n_exc = sum(1 for x in a[:N_CASES] for r in x if r[1] == 'exc')
    print(f'cases={len(a)} volumes_ok={n_ok} volumes_exc={n_exc} differing={len(bad)}')
    for i in bad:
        print('DIFF in case', i, str(a[i])[:400], '|||', str(b[i])[:400])
    sys.exit(1 if bad else 0)


if __name__ == '__main__':
    if len(sys.argv) > 1 and sys.argv[1] == 'worker':
        worker()
    else:
        main()
