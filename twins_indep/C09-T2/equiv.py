"""Differential test for refactoring C09/2 (gemdat.path.free_energy_graph).

The same randomised inputs are evaluated in two subprocesses, one importing the ORIGINAL
package from /repo/src and one importing the refactored package from /tmp/wtt_C09/src.
All results (arrays bit-for-bit, dtypes, warnings, exceptions) must be identical.
"""

from __future__ import annotations

import os
import pickle
import subprocess
import sys
import tempfile

ORIG = '/repo/src'
NEW = '/tmp/wtt_C09/src'
PY = '/venv/bin/python'


def canon(obj):
    import numpy as np

    if isinstance(obj, np.ndarray):
        return ('nd', obj.dtype.str, obj.shape, np.ascontiguousarray(obj).tobytes())
    if isinstance(obj, np.generic):
        return ('npscalar', obj.dtype.str, obj.tobytes())
    if isinstance(obj, bool) or obj is None or isinstance(obj, (int, str)):
        return (type(obj).__name__, obj)
    if isinstance(obj, float):
        return ('float', obj.hex())
    if isinstance(obj, (list, tuple)):
        return (type(obj).__name__, [canon(o) for o in obj])
    if isinstance(obj, dict):
        return ('dict', [(canon(k), canon(v)) for k, v in obj.items()])
    raise TypeError(type(obj))


def make_cases():
    import numpy as np

    rng = np.random.default_rng(9092)
    cases = []
    thresholds = [1e7, 1e20, None, 0.5, 2.0, 30.0, 700.0]
    for i in range(36):
        kind = i % 6
        if kind == 0:
            shape = tuple(int(x) for x in rng.integers(2, 5, 3))
        elif kind == 1:
            shape = (1, int(rng.integers(1, 4)), int(rng.integers(2, 5)))  # self-neighbours
        elif kind == 2:
            shape = (2, 2, int(rng.integers(1, 4)))  # +1 and -1 moves coincide
        else:
            shape = tuple(int(x) for x in rng.integers(1, 5, 3))
        mode = i % 4
        if mode == 0:  # density -> free energy volume (sparse)
            payload = ('density', rng.poisson(0.7, shape), float(rng.uniform(50, 1500)))
        elif mode == 1:  # density -> free energy volume (dense floats)
            payload = ('density', rng.random(shape) + 1e-3, float(rng.uniform(1, 900)))
        elif mode == 2:  # raw energy array incl. negative, nan, inf and huge entries
            arr = rng.normal(loc=1.0, scale=1.5, size=shape)
            flat = arr.reshape(-1)
            for val in (np.nan, np.inf, -np.inf, 1e308, 0.0, -0.0, 1e7, 800.0):
                if rng.random() < 0.5:
                    flat[int(rng.integers(0, flat.size))] = val
            payload = ('raw', arr)
        else:  # float32 raw energies
            payload = ('raw', rng.uniform(0, 40, shape).astype(np.float32))
        thr = thresholds[i % len(thresholds)]
        diagonal = [True, False, None, 1][i % 4]
        cases.append((payload, thr, diagonal, int(rng.integers(0, 2**31))))
    return cases


def graph_summary(G):
    return {
        'nodes': [(n, d) for n, d in G.nodes(data=True)],
        'edges': [(u, v, d) for u, v, d in G.edges(data=True)],
        'adj': [(n, list(G.adj[n])) for n in G.nodes],
        'n_selfloops': sum(1 for u, v in G.edges if u == v),
        'cls': type(G).__name__,
    }


def worker(out_path):
    import warnings

    import numpy as np
    from pymatgen.core import Lattice

    import gemdat
    from gemdat.path import free_energy_graph, optimal_path
    from gemdat.volume import FreeEnergyVolume, Volume

    assert os.path.dirname(os.path.dirname(gemdat.__file__)) == os.environ['GEMDAT_EQUIV_SRC']

    lat = Lattice.from_parameters(4.1, 5.2, 6.3, 75, 98, 108)
    results = []
    for payload, thr, diagonal, seed in make_cases():
        rng = np.random.default_rng(seed)
        with warnings.catch_warnings(record=True) as caught:
            warnings.simplefilter('always')
            res = {}
            try:
                if payload[0] == 'density':
                    F = Volume(data=payload[1], lattice=lat).get_free_energy(payload[2])
                    assert isinstance(F, FreeEnergyVolume)
                else:
                    F = payload[1]
                kwargs = {}
                if thr is not None:
                    kwargs['max_energy_threshold'] = thr
                if diagonal is not None:
                    kwargs['diagonal'] = diagonal
                # three entry points: function on volume / on array, method on volume
                if payload[0] == 'density' and seed % 2:
                    G = F.free_energy_graph(**kwargs)
                else:
                    G = free_energy_graph(F, **kwargs)
                res['graph'] = graph_summary(G)
                nodes = list(G.nodes)
                paths = []
                if len(nodes) >= 2:
                    for method in ('dijkstra', 'bellman-ford', 'dijkstra-exp', 'simple', 'minmax-energy'):
                        a = nodes[int(rng.integers(0, len(nodes)))]
                        b = nodes[int(rng.integers(0, len(nodes)))]
                        try:
                            p = optimal_path(G, start=a, stop=b, method=method)
                            paths.append((method, a, b, list(p.sites), list(p.energy), p.total_energy))
                        except Exception as exc:  # noqa: BLE001
                            paths.append((method, a, b, type(exc).__name__, str(exc)))
                res['paths'] = paths
            except Exception as exc:  # noqa: BLE001
                res = {'exc': type(exc).__name__, 'msg': str(exc)}
        res['warnings'] = sorted((w.category.__name__, str(w.message)) for w in caught)
        results.append(canon(res))

    with open(out_path, 'wb') as fh:
        pickle.dump(results, fh)


def run(src, out_path):
    env = dict(os.environ, PYTHONPATH=src, GEMDAT_EQUIV_SRC=src)
    subprocess.run([PY, os.path.abspath(__file__), '--worker', out_path], env=env, check=True)
    with open(out_path, 'rb') as fh:
        return pickle.load(fh)


def main():
    with tempfile.TemporaryDirectory() as td:
        a = run(ORIG, os.path.join(td, 'orig.pkl'))
        b = run(NEW, os.path.join(td, 'new.pkl'))
    assert len(a) == len(b) and len(a) >= 20
    bad = [i for i, (x, y) in enumerate(zip(a, b)) if x != y]
    n_exc = sum(1 for x in a if any(k == ('str', 'exc') for k, _ in x[1]))
    print(f'cases={len(a)} raising={n_exc} differing={len(bad)}')
    if bad:
        for i in bad[:5]:
            print('DIFF in case', i, '\n  orig:', a[i], '\n  new: ', b[i])
        sys.exit(1)
    print('OK: identical results')


if __name__ == '__main__':
    if len(sys.argv) == 3 and sys.argv[1] == '--worker':
        worker(sys.argv[2])
    else:
        main()
