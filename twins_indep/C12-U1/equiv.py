"""Differential test for a behaviour-preserving refactoring of gemdat/collective.py (property C12).

ORIGINAL  : the untouched sources.  Taken from $GEMDAT_ORIG_SRC/gemdat if that variable is set
            (e.g. GEMDAT_ORIG_SRC=/repo/src), otherwise from the HEAD commit of the worktree
            (`git show HEAD:src/gemdat/...`), which is the same untouched code.
REFACTORED: the working-tree sources in /tmp/wtu_C12/src/gemdat.

Both `collective.py` files (plus the `caching.py` they import) are loaded in this process under
two different synthetic package names, run on the same randomised inputs, and every observable
result is compared.  Exit status is non-zero on any difference.
"""
from __future__ import annotations

import importlib
import os
import subprocess
import sys
import tempfile
import types

import numpy as np
import pandas as pd
from pymatgen.core import Lattice, Structure

WORKTREE = '/tmp/wtu_C12'
NEEDED = ('collective.py', 'caching.py')


def _load(pkg_name: str, directory: str):
    pkg = types.ModuleType(pkg_name)
    pkg.__path__ = [directory]
    sys.modules[pkg_name] = pkg
    return importlib.import_module(f'{pkg_name}.collective')


def _original_dir(tmp: str) -> str:
    src = os.environ.get('GEMDAT_ORIG_SRC')
    if src:
        return os.path.join(src, 'gemdat')
    target = os.path.join(tmp, 'gemdat_orig')
    os.makedirs(target)
    for name in NEEDED:
        text = subprocess.run(
            ['git', '-C', WORKTREE, 'show', f'HEAD:src/gemdat/{name}'],
            check=True,
            capture_output=True,
        ).stdout
        with open(os.path.join(target, name), 'wb') as fh:
            fh.write(text)
    return target


class FakeJumps:
    """Collective only looks at `.data`."""

    def __init__(self, data: pd.DataFrame):
        self.data = data


COLUMNS = ['atom index', 'start site', 'destination site', 'start time', 'stop time']


def random_lattice(rng, kind: str) -> Lattice:
    if kind == 'cubic':
        return Lattice.cubic(rng.uniform(3, 9))
    if kind == 'ortho':
        return Lattice.orthorhombic(*rng.uniform(2.5, 9, 3))
    if kind == 'triclinic':
        return Lattice.from_parameters(
            *rng.uniform(3, 9, 3), *rng.uniform(60, 120, 3)
        )
    if kind == 'rotated':
        base = Lattice.from_parameters(*rng.uniform(3, 9, 3), *rng.uniform(70, 110, 3)).matrix
        q, _ = np.linalg.qr(rng.normal(size=(3, 3)))
        return Lattice(base @ q)
    if kind == 'skewed':
        # strongly non-reduced cell: minimum image is not the naive one
        a = rng.uniform(3, 6)
        return Lattice([[a, 0, 0], [3 * a + 0.3, a, 0], [0.4, -2 * a, a]])
    raise ValueError(kind)


def random_case(rng, case_no: int):
    kind = ['cubic', 'ortho', 'triclinic', 'rotated', 'skewed'][case_no % 5]
    lattice = random_lattice(rng, kind)
    n_sites = int(rng.integers(2, 9))
    frac = rng.uniform(-0.3, 1.3, size=(n_sites, 3))  # sites may lie outside [0, 1)
    if case_no % 4 == 0:
        frac[0] = [0.001, 0.999, 0.5]  # hugging the cell faces
        frac[1] = [0.999, 0.001, 0.5]
    labels = [str(rng.choice(['A', 'B', 'C'])) for _ in range(n_sites)]
    sites = Structure(lattice, ['Li'] * n_sites, frac, labels=labels)

    # the lattice used for distances may differ from the one of the site structure
    dist_lattice = lattice if case_no % 3 else random_lattice(rng, kind)

    size_mode = case_no % 7
    if size_mode == 0:
        n_jumps = 0
    elif size_mode == 1:
        n_jumps = 1
    elif size_mode == 2:
        n_jumps = 2
    else:
        n_jumps = int(rng.integers(3, 28))

    n_atoms = int(rng.integers(1, 6))
    horizon = int(rng.integers(5, 60))
    start = rng.integers(0, horizon, n_jumps)
    transit = rng.integers(1, 4, n_jumps)
    long_transit = rng.random(n_jumps) < 0.25  # jumps overlapping many others
    transit = np.where(long_transit, rng.integers(10, 2 * horizon + 11, n_jumps), transit)
    if case_no % 5 == 1:
        start = start // 4 * 4  # many ties in the sort keys
    data = pd.DataFrame(
        {
            'atom index': rng.integers(0, n_atoms, n_jumps),
            'start site': rng.integers(0, n_sites, n_jumps),
            'destination site': rng.integers(0, n_sites, n_jumps),
            'start time': start,
            'stop time': start + transit,
        },
        columns=COLUMNS,
    )
    if case_no % 6 == 5:
        data['extra'] = rng.normal(size=n_jumps)  # mixed dtypes -> float rows, IndexError path
    if case_no % 9 == 4:
        data.index = data.index[::-1]  # a non-default index must not matter

    max_steps = [0, 1, 3, 10, 10**6, -2][int(rng.integers(0, 6))]
    typical = float(np.min(dist_lattice.abc))
    max_dist = [0.0, 0.3 * typical, 0.6 * typical, 1.0, 1e9, typical][int(rng.integers(0, 6))]
    if case_no % 11 == 3 and n_sites >= 2:
        # put the cut-off exactly on an occurring distance (strict `<` boundary)
        max_dist = float(dist_lattice.get_all_distances(sites.frac_coords[0], sites.frac_coords[1])[0, 0])
    return data, sites, dist_lattice, max_steps, max_dist


def outcome(func):
    try:
        return ('ok', func())
    except Exception as exc:  # noqa: BLE001 - exceptions are part of the behaviour
        return ('raise', type(exc).__name__)


def same_scalar(x, y) -> bool:
    return type(x) is type(y) and x == y


def same_series(x: pd.Series, y: pd.Series) -> bool:
    return x.dtype == y.dtype and list(x.index) == list(y.index) and x.equals(y) and x.name == y.name


def compare(orig, new, tag: str) -> list[str]:
    problems = []

    def check(ok: bool, what: str):
        if not ok:
            problems.append(f'{tag}: {what}')

    if orig[0] != new[0] or orig[0] == 'raise':
        check(orig == new, f'construction differs: {orig} vs {new}')
        return problems
    o, n = orig[1], new[1]

    check(same_scalar(o.n_solo_jumps, n.n_solo_jumps), f'n_solo_jumps {o.n_solo_jumps!r} vs {n.n_solo_jumps!r}')
    check(same_scalar(o.n_coll_jumps, n.n_coll_jumps), f'n_coll_jumps {o.n_coll_jumps!r} vs {n.n_coll_jumps!r}')
    check(type(o.coll_jumps) is type(n.coll_jumps), 'coll_jumps container type')
    check(len(o.coll_jumps) == len(n.coll_jumps), 'coll_jumps length')
    for k, (p, q) in enumerate(zip(o.coll_jumps, n.coll_jumps)):
        flat_p = [v for pair in p for v in pair]
        flat_q = [v for pair in q for v in pair]
        check(type(p) is type(q) and all(type(a) is type(b) for a, b in zip(p, q)), f'coll_jumps[{k}] types')
        check(
            len(flat_p) == len(flat_q) and all(same_scalar(a, b) for a, b in zip(flat_p, flat_q)),
            f'coll_jumps[{k}] {p} vs {q}',
        )
    check(type(o.collective) is type(n.collective), 'collective container type')
    check(len(o.collective) == len(n.collective), 'collective length')
    for k, (p, q) in enumerate(zip(o.collective, n.collective)):
        check(type(p) is type(q) and len(p) == len(q) == 2, f'collective[{k}] shape')
        check(same_series(p[0], q[0]) and same_series(p[1], q[1]), f'collective[{k}] rows differ')
    check(sorted(vars(o)) == sorted(vars(n)), f'attributes {sorted(vars(o))} vs {sorted(vars(n))}')

    lo, ln = outcome(o.site_pair_count_matrix_labels), outcome(n.site_pair_count_matrix_labels)
    check(lo == ln, 'site_pair_count_matrix_labels')
    mo, mn = outcome(o.site_pair_count_matrix), outcome(n.site_pair_count_matrix)
    if mo[0] == 'ok' and mn[0] == 'ok':
        check(
            mo[1].dtype == mn[1].dtype and mo[1].shape == mn[1].shape and np.array_equal(mo[1], mn[1]),
            'site_pair_count_matrix',
        )
    else:
        check(mo == mn, f'site_pair_count_matrix outcome {mo} vs {mn}')
    uo, un = outcome(o.multiple_collective), outcome(n.multiple_collective)
    if uo[0] == 'ok' and un[0] == 'ok':
        for a, b in zip(uo[1], un[1]):
            check(a.dtype == b.dtype and a.shape == b.shape and np.array_equal(a, b), 'multiple_collective')
    else:
        check(uo == un, f'multiple_collective outcome {uo} vs {un}')
    return problems


def main() -> int:
    with tempfile.TemporaryDirectory() as tmp:
        orig_mod = _load('gemdat_c12_original', _original_dir(tmp))
        new_mod = _load('gemdat_c12_refactored', os.path.join(WORKTREE, 'src', 'gemdat'))
        assert orig_mod.__file__ != new_mod.__file__

        rng = np.random.default_rng(20261001)
        n_cases = 140
        problems: list[str] = []
        n_pairs = 0
        n_raised = 0
        for case_no in range(n_cases):
            data, sites, lattice, max_steps, max_dist = random_case(rng, case_no)
            args = dict(sites=sites, lattice=lattice, max_steps=max_steps, max_dist=max_dist)
            before = data.copy(deep=True)
            orig = outcome(lambda: orig_mod.Collective(jumps=FakeJumps(data.copy(deep=True)), **args))
            new_data = data.copy(deep=True)
            new = outcome(lambda: new_mod.Collective(jumps=FakeJumps(new_data), **args))
            problems += compare(orig, new, f'case {case_no}')
            if not (new_data.equals(before) and list(new_data.index) == list(before.index)):
                problems.append(f'case {case_no}: input table was modified')
            if orig[0] == 'ok':
                n_pairs += len(orig[1].collective)
                total = len(data)
                if orig[1].n_solo_jumps + orig[1].n_coll_jumps != total:
                    problems.append(f'case {case_no}: solo + collective != total')
            else:
                n_raised += 1

    print(f'cases={n_cases} collective_pairs_seen={n_pairs} raising_cases={n_raised} failures={len(problems)}')
    for line in problems[:40]:
        print('  DIFF', line)
    return 1 if problems else 0


if __name__ == '__main__':
    sys.exit(main())
