"""Differential test for refactoring 1 (Volume.get_free_energy helpers).

Runs the same randomised driver twice in subprocesses -- once against the
ORIGINAL code (PYTHONPATH=/repo/src) and once against the refactored worktree
(PYTHONPATH=/tmp/wtu_C09/src) -- and compares the pickled results bit for bit.
"""
import os
import pickle
import subprocess
import sys
import tempfile

ORIG = '/repo/src'
NEW = '/tmp/wtu_C09/src'


def worker(out_path):
    import warnings

    import numpy as np
    from pymatgen.core import Element, Lattice

    import gemdat
    from gemdat.volume import FreeEnergyVolume, Volume, trajectory_to_volume

    assert gemdat.__file__.startswith(os.environ['EXPECT_ROOT']), gemdat.__file__
    warnings.simplefilter('ignore')
    rng = np.random.default_rng(90901)

    def rot(rng):
        q, _ = np.linalg.qr(rng.normal(size=(3, 3)))
        if np.linalg.det(q) < 0:
            q[:, 0] *= -1
        return q

    def lattices(rng):
        a, b, c = rng.uniform(2.0, 6.0, 3)
        yield Lattice.cubic(a)
        yield Lattice.orthorhombic(a, b, c)
        yield Lattice.from_parameters(a, b, c, 75.0, 98.0, 110.0)
        yield Lattice(Lattice.from_parameters(a, b, c, 82.0, 95.0, 67.0).matrix @ rot(rng))
        yield Lattice.hexagonal(a, c)

    def dump(fv):
        d = fv.data
        return {
            'type': type(fv).__name__,
            'dtype': str(d.dtype),
            'shape': d.shape,
            'bytes': np.ascontiguousarray(d).tobytes(),
            'fcontig': bool(d.flags['F_CONTIGUOUS']),
            'ccontig': bool(d.flags['C_CONTIGUOUS']),
            'finite': bool(np.isfinite(d).all()),
            'lattice': fv.lattice.matrix.tobytes(),
            'label': fv.label,
            'units': str(fv.units),
            'dims': tuple(fv.dims),
        }

    results = []
    case = 0
    for rep in range(8):
        for lat in lattices(rng):
            case += 1
            shape = tuple(rng.integers(1, 7, 3))
            kind = case % 9
            if kind == 0:  # sparse integer counts (many never-visited voxels)
                data = rng.poisson(0.4, shape)
            elif kind == 1:  # dense integer counts
                data = rng.integers(1, 500, shape)
            elif kind == 2:  # floats with exact zeros
                data = rng.random(shape) * (rng.random(shape) > 0.5)
            elif kind == 3:  # float32
                data = (rng.random(shape) * (rng.random(shape) > 0.3)).astype(np.float32)
            elif kind == 4:  # nothing visited at all -> 0/0
                data = np.zeros(shape, dtype=int)
            elif kind == 5:  # Fortran ordered
                data = np.asfortranarray(rng.poisson(1.0, shape).astype(float))
            elif kind == 6:  # a single visited voxel
                data = np.zeros(shape, dtype=int)
                data[tuple(rng.integers(0, s) for s in shape)] = 7
            elif kind == 7:  # spurious negative densities -> log of negative
                data = rng.normal(size=shape)
            else:  # huge / tiny values
                data = rng.random(shape) * 10.0 ** rng.integers(-300, 300, shape).astype(float)
            temps = [float(rng.uniform(1, 2000)), 300, 0.0, -250.0, np.float64(723.15)]
            temperature = temps[case % len(temps)]
            vol = Volume(data=data, lattice=lat, label=f'case{case}')
            fv = vol.get_free_energy(temperature=temperature)
            rec = dump(fv)
            rec['case'] = (case, kind, repr(temperature))
            g = fv.free_energy_graph(max_energy_threshold=1e7, diagonal=False)
            rec['nodes'] = sorted(tuple(int(i) for i in n) for n in g.nodes)
            results.append(rec)

    # density volumes built from trajectories (triclinic cells, atoms on cell faces)
    for rep in range(8):
        for lat in lattices(rng):
            n_t, n_at = int(rng.integers(2, 30)), int(rng.integers(1, 4))
            base = rng.random((1, n_at, 3))
            coords = np.mod(base + np.cumsum(rng.normal(0, 0.05, (n_t, n_at, 3)), axis=0), 1.0)
            coords[0, 0] = [0.0, 0.0, 0.0]  # exactly on the cell faces
            coords[-1, -1] = np.nextafter(1.0, 0.0)  # just below the upper face
            coords = np.where(coords >= 1.0, 0.0, coords)
            traj = gemdat.Trajectory(
                species=[Element('Li')] * n_at,
                coords=coords,
                lattice=lat,
                time_step=1e-15,
                metadata={'temperature': 300},
            )
            vol = trajectory_to_volume(traj, resolution=float(rng.uniform(0.4, 1.5)))
            temperature = float(rng.uniform(100, 1500))
            fv = vol.get_free_energy(temperature=temperature)
            rec = dump(fv)
            rec['case'] = ('traj', rep, repr(temperature))
            assert isinstance(fv, FreeEnergyVolume)
            results.append(rec)

    with open(out_path, 'wb') as fh:
        pickle.dump(results, fh)


def run(root, out_path):
    env = dict(os.environ, PYTHONPATH=root, EXPECT_ROOT=root)
    subprocess.run([sys.executable, os.path.abspath(__file__), '--worker', out_path], env=env, check=True)
    with open(out_path, 'rb') as fh:
        return pickle.load(fh)


def main():
    with tempfile.TemporaryDirectory() as td:
        a = run(ORIG, os.path.join(td, 'orig.pkl'))
        b = run(NEW, os.path.join(td, 'new.pkl'))
    bad = 0
    if len(a) != len(b):
        print('different number of results', len(a), len(b))
        bad += 1
    for ra, rb in zip(a, b):
        if ra != rb:
            bad += 1
            diff = [k for k in ra if ra[k] != rb.get(k)]
            print('MISMATCH', ra['case'], diff)
    print(f'compared {len(a)} cases, mismatches={bad}')
    return 1 if bad else 0


if __name__ == '__main__':
    if len(sys.argv) > 2 and sys.argv[1] == '--worker':
        worker(sys.argv[2])
    else:
        sys.exit(main())
