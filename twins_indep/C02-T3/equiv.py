"""Differential test for a behaviour-preserving refactoring of gemdat.transitions (property C02).

Runs the same randomised scenarios once with PYTHONPATH=/repo/src (original) and once with
PYTHONPATH=/tmp/wtt_C02/src (refactored) in sub-processes, pickles every observable result
(state arrays, radii, events, exception types/messages, warning messages) and compares them.
Exits non-zero on the first difference.
"""

from __future__ import annotations

import os
import pickle
import subprocess
import sys
import tempfile

ORIG = '/repo/src'
NEW = '/tmp/wtt_C02/src'
N_SEEDS = 48


# --------------------------------------------------------------------------- worker
def _random_rotation(rng):
    import numpy as np

    q, r = np.linalg.qr(rng.normal(size=(3, 3)))
    q = q * np.sign(np.diag(r))
    if np.linalg.det(q) < 0:
        q[:, 0] = -q[:, 0]
    return q


def _make_lattice(rng, kind):
    import numpy as np
    from pymatgen.core import Lattice

    if kind == 0:
        return Lattice.cubic(rng.uniform(4, 9))
    if kind == 1:
        return Lattice.orthorhombic(*rng.uniform(4, 11, size=3))
    if kind == 2:
        return Lattice.hexagonal(rng.uniform(4, 8), rng.uniform(5, 12))
    if kind == 3:
        return Lattice.from_parameters(
            *rng.uniform(5, 10, size=3), rng.uniform(65, 115), rng.uniform(65, 115), rng.uniform(65, 115)
        )
    if kind == 4:  # arbitrarily rotated triclinic
        base = Lattice.from_parameters(
            *rng.uniform(5, 10, size=3), rng.uniform(70, 110), rng.uniform(70, 110), rng.uniform(70, 110)
        )
        return Lattice(np.dot(base.matrix, _random_rotation(rng)))
    # rotated orthorhombic with permuted axes
    base = Lattice.orthorhombic(*rng.uniform(4, 11, size=3))
    return Lattice(np.dot(base.matrix[[2, 0, 1]], _random_rotation(rng)))


def _make_case(seed):
    import numpy as np
    from pymatgen.core import Element, Structure

    import gemdat

    rng = np.random.default_rng(1000 + seed)
    lattice = _make_lattice(rng, seed % 6)

    # --- sites: a coarse grid subset (includes corner / face / edge positions) + random ones
    grid = np.array([[i, j, k] for i in range(2) for j in range(2) for k in range(2)]) / 2.0
    n_grid = rng.integers(2, 9)
    site_frac = grid[rng.permutation(8)[:n_grid]]
    n_rand = rng.integers(0, 4)
    if n_rand:
        site_frac = np.vstack([site_frac, rng.uniform(0, 1, size=(n_rand, 3))])
    if seed % 7 == 3:  # put a site on the 'far' face, frac coordinate exactly 1.0
        site_frac = np.vstack([site_frac, [[1.0, 0.25, 0.25]]])
    n_sites = len(site_frac)
    label_names = ['A', 'B', 'C']
    labels = [label_names[i] for i in rng.integers(0, 3, size=n_sites)]
    labels[0] = 'A'
    sites = Structure(lattice, ['Li'] * n_sites, site_frac, labels=labels)

    # --- trajectory: floating Li hopping around sites, plus framework atoms
    n_li = int(rng.integers(1, 5))
    n_fix = int(rng.integers(0, 3))
    n_frames = int(rng.integers(8, 40))
    inv = lattice.inv_matrix
    coords = np.empty((n_frames, n_li + n_fix, 3))
    # never-visited label: atoms only start from 'A'/'B' sites for some seeds
    allowed = [i for i, lab in enumerate(labels) if lab != 'C'] if seed % 3 == 0 else list(range(n_sites))
    for a in range(n_li):
        cur = allowed[rng.integers(0, len(allowed))]
        for t in range(n_frames):
            if rng.uniform() < 0.25:
                cur = allowed[rng.integers(0, len(allowed))]
            mode = rng.uniform()
            if mode < 0.55:  # close to the site centre
                disp = rng.normal(scale=0.15, size=3)
            elif mode < 0.85:  # around the sphere surface
                v = rng.normal(size=3)
                disp = v / np.linalg.norm(v) * rng.uniform(0.5, 1.6)
            else:  # far away
                disp = rng.normal(scale=2.5, size=3)
            coords[t, a] = site_frac[cur] + np.dot(disp, inv)
    for a in range(n_fix):
        base = rng.uniform(0, 1, size=3)
        coords[:, n_li + a] = base + rng.normal(scale=0.004, size=(n_frames, 3))
    if seed % 4 != 1:
        coords = np.mod(coords, 1)
        coords[coords == 1] = 0
    if seed % 5 == 0:  # atom exactly on a cell corner / face
        coords[0, 0] = [0.0, 0.0, 0.0]
        coords[-1, 0] = [0.0, 0.5, 0.0]

    species = [Element('Li')] * n_li + [Element('S')] * n_fix
    traj = gemdat.Trajectory(
        species=species,
        coords=coords,
        lattice=lattice.matrix,
        time_step=1e-15,
        constant_lattice=True,
        metadata={'temperature': 300},
    )
    return rng, lattice, sites, traj, labels


def _capture(fn):
    import warnings

    import numpy as np
    import pandas as pd

    with warnings.catch_warnings(record=True) as wlist:
        warnings.simplefilter('always')
        try:
            res = fn()
            if isinstance(res, pd.DataFrame):
                res = ('df', list(res.columns), res.to_numpy())
            elif isinstance(res, np.ndarray):
                res = ('arr', str(res.dtype), res.shape, res)
            else:
                res = ('val', type(res).__name__, float(res))
            out = ('ok', res)
        except Exception as exc:  # noqa: BLE001
            out = ('exc', type(exc).__name__, str(exc))
    warns = [(w.category.__name__, str(w.message)) for w in wlist]
    return out, warns


def worker(out_path):
    import numpy as np

    from gemdat import transitions as tr
    from gemdat.transitions import Transitions

    assert tr.__file__.startswith(os.environ['EXPECT_ROOT']), tr.__file__
    results = {}
    for seed in range(N_SEEDS):
        rng, lattice, sites, traj, labels = _make_case(seed)
        diff = traj.filter('Li')
        present = sorted(set(labels))
        r_float = float(rng.uniform(0.4, 1.6))
        r_dict = {lab: float(rng.uniform(0.3, 1.7)) for lab in present}
        r_dict_rev = dict(reversed(list(r_dict.items())))
        frac = float(rng.uniform(0.05, 1.0))
        res = {}

        # direct calls of the assignment routine
        res['states_float'] = _capture(lambda: tr._calculate_atom_states(sites, diff, {'': r_float}))
        res['inner_float'] = _capture(
            lambda: tr._calculate_atom_states(sites, diff, {'': r_float}, site_inner_fraction=frac)
        )
        res['states_dict'] = _capture(lambda: tr._calculate_atom_states(sites, diff, r_dict))
        res['inner_dict'] = _capture(
            lambda: tr._calculate_atom_states(sites, diff, r_dict_rev, site_inner_fraction=frac)
        )
        res['states_tiny'] = _capture(lambda: tr._calculate_atom_states(sites, diff, {'': 1e-6, 'A': 1e-7}))
        res['states_mixed'] = _capture(
            lambda: tr._calculate_atom_states(sites, diff, {'': 0.3, present[-1]: 1.1}, 0.9)
        )
        res['states_missing_label'] = _capture(
            lambda: tr._calculate_atom_states(sites, diff, {'A': 0.8, 'Zz': 0.9})
        )
        res['states_empty_sel'] = _capture(
            lambda: tr._calculate_atom_states(sites, traj.filter('Na'), {'': r_float})
        )

        # automatic radius
        for j, amp in enumerate((0.02, 0.11, float(rng.uniform(0.1, 0.9)), 5.0, float('nan'))):
            res[f'radius_{j}'] = _capture(
                lambda amp=amp: tr._compute_site_radius(trajectory=traj, sites=sites, vibration_amplitude=amp)
            )
        close = sites.copy()
        close.append('Li', sites.frac_coords[0] + np.dot([0.12, 0.0, 0.05], lattice.inv_matrix))
        if seed % 2:
            close.append('Li', sites.frac_coords[0])
        res['radius_close'] = _capture(
            lambda: tr._compute_site_radius(trajectory=traj, sites=close, vibration_amplitude=0.3)
        )
        single = sites.copy()
        single.remove_sites(range(1, len(single)))
        res['radius_single'] = _capture(
            lambda: tr._compute_site_radius(trajectory=traj, sites=single, vibration_amplitude=0.3)
        )

        # full pipeline
        for name, rad in (('none', None), ('float', r_float), ('dict', r_dict), ('int', 1)):
            def run(rad=rad, what='states'):
                t = Transitions.from_trajectory(
                    trajectory=traj,
                    sites=sites,
                    floating_specie='Li',
                    site_radius=rad,
                    site_inner_fraction=frac,
                )
                return getattr(t, what)

            for what in ('states', 'inner_states', 'events'):
                res[f'pipe_{name}_{what}'] = _capture(lambda what=what: run(what=what))
        # extra pipeline variants: radius types, species selections, fractions, disorder
        from pymatgen.core import Structure
        from pymatgen.core.units import FloatWithUnit

        disordered = Structure(lattice, [{'Li': 0.5}] * len(sites), sites.frac_coords)
        variants = {
            'npfloat': dict(sites=sites, floating_specie='Li', site_radius=np.float64(r_float)),
            'fwu': dict(sites=sites, floating_specie='Li', site_radius=FloatWithUnit(r_float, 'ang')),
            'frac1': dict(sites=sites, floating_specie='Li', site_radius=r_dict, site_inner_fraction=1.0),
            'default_frac': dict(sites=sites, floating_specie='Li', site_radius=r_float),
            'auto_default_frac': dict(sites=sites, floating_specie='Li'),
            'empty_sel': dict(sites=sites, floating_specie='Na', site_radius=r_float),
            'empty_sel_auto': dict(sites=sites, floating_specie='Na'),
            'other_specie': dict(sites=sites, floating_specie='S', site_radius=r_dict_rev),
            'disordered': dict(sites=disordered, floating_specie='Li', site_radius=r_float),
            'empty_dict': dict(sites=sites, floating_specie='Li', site_radius={}),
            'str_radius': dict(sites=sites, floating_specie='Li', site_radius='1.0'),
        }
        for name, kw in variants.items():
            def run2(kw=kw, what='states'):
                t = Transitions.from_trajectory(trajectory=traj, **kw)
                assert t.sites is kw['sites'] and t.trajectory is traj
                assert t.diff_trajectory.positions.shape[1] == t.states.shape[1]
                return getattr(t, what)

            for what in ('states', 'inner_states', 'events'):
                res[f'pipe2_{name}_{what}'] = _capture(lambda what=what, run2=run2: run2(what=what))
        results[seed] = res
    with open(out_path, 'wb') as fh:
        pickle.dump(results, fh)


# --------------------------------------------------------------------------- driver
def _same(a, b, path=''):
    import numpy as np

    if isinstance(a, np.ndarray) or isinstance(b, np.ndarray):
        if not (isinstance(a, np.ndarray) and isinstance(b, np.ndarray)):
            return False
        if a.shape != b.shape or a.dtype != b.dtype:
            return False
        if a.dtype.kind == 'f':
            return bool(np.allclose(a, b, rtol=0, atol=1e-12, equal_nan=True))
        return bool(np.array_equal(a, b))
    if isinstance(a, (tuple, list)) and isinstance(b, (tuple, list)):
        return type(a) is type(b) and len(a) == len(b) and all(_same(x, y) for x, y in zip(a, b))
    if isinstance(a, float) and isinstance(b, float):
        return (a != a and b != b) or abs(a - b) <= 1e-12
    return a == b


def main():
    outs = []
    with tempfile.TemporaryDirectory() as td:
        for tag, root in (('orig', ORIG), ('new', NEW)):
            out = os.path.join(td, tag + '.pkl')
            env = dict(os.environ, PYTHONPATH=root, EXPECT_ROOT=root)
            proc = subprocess.run([sys.executable, os.path.abspath(__file__), '--worker', out], env=env)
            if proc.returncode != 0:
                print(f'worker {tag} failed')
                return 2
            with open(out, 'rb') as fh:
                outs.append(pickle.load(fh))
    orig, new = outs
    n_bad = 0
    stats = {'ok': 0, 'exc': 0, 'warn': 0, 'nosite': 0, 'assigned': 0}
    for seed in orig:
        for key in orig[seed]:
            a, b = orig[seed][key], new[seed][key]
            if not _same(a, b):
                n_bad += 1
                print(f'DIFF seed={seed} key={key}\n  orig={a}\n  new ={b}')
            stats[a[0][0]] += 1
            stats['warn'] += len(a[1])
            if a[0][0] == 'ok' and a[0][1][0] == 'arr':
                arr = a[0][1][3]
                stats['nosite'] += int((arr == -1).sum())
                stats['assigned'] += int((arr >= 0).sum())
    print(f'seeds={len(orig)} comparisons={sum(len(v) for v in orig.values())} stats={stats} differences={n_bad}')
    return 1 if n_bad else 0


if __name__ == '__main__':
    if len(sys.argv) > 2 and sys.argv[1] == '--worker':
        worker(sys.argv[2])
    else:
        sys.exit(main())
