"""Differential test: gemdat.path.free_energy_graph, original (/repo/src) vs refactored (/tmp/wtw_C09/src).

The script re-runs itself as a worker under both PYTHONPATHs with the same seed, and compares the pickled results.
Compared: node order, node keys (values and types), node energies (bits and types), edge insertion order, adjacency order,
edge attributes (bits and types), and a shortest path computed on the graph.
"""
import os
import pickle
import subprocess
import sys
import warnings

ORIG = '/repo/src'
NEW = '/tmp/wtw_C09/src'
N_CASES = 36


def describe(x):
    """Exact, type-aware description of a scalar / tuple."""
    import numpy as np

    if isinstance(x, tuple):
        return ('tuple', tuple(describe(i) for i in x))
    if isinstance(x, (float, np.floating)):
        return (type(x).__name__, float(x).hex())
    if isinstance(x, (int, np.integer)):
        return (type(x).__name__, int(x))
    return (type(x).__name__, repr(x))


def graph_record(G):
    nodes = [(describe(n), sorted((k, describe(v)) for k, v in d.items())) for n, d in G.nodes(data=True)]
    edges = [(describe(u), describe(v), sorted((k, describe(w)) for k, w in d.items())) for u, v, d in G.edges(data=True)]
    adj = [(describe(n), [describe(m) for m in G.adj[n]]) for n in G.nodes]
    return nodes, edges, adj


def worker():
    warnings.simplefilter('ignore')
    import networkx as nx
    import numpy as np
    from pymatgen.core import Lattice

    import gemdat
    from gemdat.path import free_energy_graph
    from gemdat.volume import FreeEnergyVolume, Volume

    assert gemdat.__file__.startswith(os.environ['PYTHONPATH']), gemdat.__file__
    rng = np.random.default_rng(9)
    out = []
    for case in range(N_CASES):
        shape = tuple(int(n) for n in rng.integers(1, 6, size=3))
        kind = case % 9
        kwargs = {}
        if kind == 0:
            F = rng.random(shape) * 3
        elif kind == 1:
            F = rng.normal(size=shape) * 2  # negative energies are excluded
            kwargs = {'max_energy_threshold': 1.5}
        elif kind == 2:
            F = rng.random(shape) * 100  # exp(weight) capped by the threshold
            kwargs = {'max_energy_threshold': 60.0, 'diagonal': False}
        elif kind == 3:
            F = rng.integers(0, 6, size=shape)  # integer grid, ties
            kwargs = {'max_energy_threshold': 4}
        elif kind == 4:
            F = rng.random(shape)
            F[rng.random(shape) < 0.3] = np.nan  # NaN voxels are never nodes
            F[rng.random(shape) < 0.2] = np.finfo(float).max  # 'never visited' energy of nan_to_num
            kwargs = {'max_energy_threshold': 1e7, 'diagonal': bool(case % 2)}
        elif kind == 5:
            # end-to-end: density -> free energy volume -> graph (FreeEnergyVolume input, triclinic cell)
            dens = rng.integers(0, 4, size=shape)
            lattice = Lattice.from_parameters(*rng.uniform(3, 9, 3), *rng.uniform(65, 115, 3))
            F = Volume(data=dens, lattice=lattice).get_free_energy(temperature=float(rng.uniform(100, 900)))
            assert isinstance(F, FreeEnergyVolume)
            kwargs = {'max_energy_threshold': 1e7}
        elif kind == 6:
            F = np.full(shape, 1e30)  # nothing below the default threshold
            kwargs = {'max_energy_threshold': 1e20}
        elif kind == 7:
            F = np.asfortranarray(rng.random(shape).astype(np.float32) * 50)
            kwargs = {'diagonal': False}
        else:
            F = rng.random(shape) * 800  # exp overflows to inf
            kwargs = {'max_energy_threshold': float('inf')}
        try:
            G = free_energy_graph(F, **kwargs)
            rec = ['ok', type(G).__name__, graph_record(G)]
            nodes = list(G.nodes)
            if len(nodes) >= 2:
                a, b = nodes[0], nodes[-1]
                try:
                    rec.append([describe(n) for n in nx.shortest_path(G, a, b, weight='weight_exp')])
                    rec.append([describe(n) for n in nx.shortest_path(G, a, b, weight='weight')])
                except nx.NetworkXNoPath:
                    rec.append('nopath')
        except Exception as exc:  # noqa: BLE001
            rec = ['exc', type(exc).__name__, str(exc)]
        out.append(rec)

    # via the FreeEnergyVolume method and unusual argument types
    extra = [
        lambda: FreeEnergyVolume(data=rng.random((3, 2, 4)), lattice=Lattice.cubic(4)).free_energy_graph(diagonal=0),
        lambda: free_energy_graph(np.zeros((2, 2, 2)), max_energy_threshold=0.0),
        lambda: free_energy_graph(np.zeros((1, 1, 1))),
        lambda: free_energy_graph(np.zeros((0, 3, 3))),
        lambda: free_energy_graph(np.full((2, 2, 2), -1.0).tolist()),  # list without admissible voxels
        lambda: free_energy_graph(np.ones((2, 2, 2)).tolist()),  # list with admissible voxels
        lambda: free_energy_graph(np.ones((3, 3))),  # wrong dimensionality
        lambda: free_energy_graph(np.ones((2, 2, 2)), max_energy_threshold=float('nan')),
    ]
    for fn in extra:
        try:
            G = fn()
            out.append(['ok', type(G).__name__, graph_record(G)])
        except Exception as exc:  # noqa: BLE001
            out.append(['exc', type(exc).__name__, str(exc)])
    sys.stdout.buffer.write(pickle.dumps(out))


def run(path):
    env = dict(os.environ, PYTHONPATH=path)
    res = subprocess.run([sys.executable, __file__, 'worker'], env=env, capture_output=True, check=False)
    if res.returncode != 0:
        sys.stderr.write(res.stderr.decode())
        raise SystemExit(f'worker failed for {path}')
    return pickle.loads(res.stdout)


def main():
    a, b = run(ORIG), run(NEW)
    assert len(a) == len(b) >= 20
    bad = [i for i, (x, y) in enumerate(zip(a, b)) if x != y]
    n_ok = sum(1 for x in a if x[0] == 'ok')
    n_edges = sum(len(x[2][1]) for x in a if x[0] == 'ok')
    print(f'cases={len(a)} ok_cases={n_ok} total_edges={n_edges} differing={len(bad)}')
    for i in bad:
        print('DIFF in case', i, str(a[i])[:300], '|||', str(b[i])[:300])
    sys.exit(1 if bad else 0)


if __name__ == '__main__':
    if len(sys.argv) > 1 and sys.argv[1] == 'worker':
        worker()
    else:
        main()
