"""Differential test for property C13 (drift correction) refactorings.

Runs the same randomised scenario generator twice in subprocesses: once with
PYTHONPATH=/repo/src (ORIGINAL, read-only) and once with the refactored worktree
(default /tmp/wtt_C13, override with argv[1] or env TWIN_ROOT).  All numerical
results, result metadata and the post-call state of the input trajectory are
pickled and compared.  Exit status is non-zero on any difference > 1e-12
(NaN == NaN, exception types must agree).
"""
import os
import pickle
import subprocess
import sys
import tempfile

import numpy as np

ORIG_ROOT = '/repo'
TWIN_ROOT = sys.argv[1] if len(sys.argv) > 1 and not sys.argv[1].startswith('--') else os.environ.get('TWIN_ROOT', '/tmp/wtt_C13')
N_CASES = 60

WORKER = r'''
import pickle, sys, warnings
import numpy as np
warnings.simplefilter('ignore')
import gemdat
from gemdat import Trajectory
from pymatgen.core import Element, Species, Lattice

root, out, n_cases = sys.argv[1], sys.argv[2], int(sys.argv[3])
assert gemdat.__file__.startswith(root + '/src/'), (gemdat.__file__, root)

SYMS = ['Li', 'Si', 'S', 'O', 'P', 'Na', 'N']

def make_lattice(rng, kind):
    if kind == 0:
        return Lattice.cubic(float(rng.uniform(3, 12)))
    if kind == 1:
        return Lattice.orthorhombic(*rng.uniform(3, 12, 3))
    if kind == 2:
        return Lattice.from_parameters(*rng.uniform(4, 11, 3), *rng.uniform(65, 115, 3))
    if kind == 3:  # rotated + sheared general cell
        q, _ = np.linalg.qr(rng.normal(size=(3, 3)))
        m = (np.diag(rng.uniform(4, 10, 3)) + rng.uniform(-1.5, 1.5, (3, 3))) @ q
        return Lattice(m)
    return Lattice.hexagonal(float(rng.uniform(3, 8)), float(rng.uniform(4, 12)))

def make_species(rng, n, mode):
    syms = [str(s) for s in rng.choice(SYMS, size=rng.integers(1, 5), replace=False)]
    picks = [syms[i % len(syms)] for i in range(n)]
    rng.shuffle(picks)
    out = []
    for s in picks:
        if mode == 0 or (mode == 2 and rng.random() < 0.5):
            out.append(Element(s))
        else:
            out.append(Species(s, int(rng.integers(-2, 3))))
    return out, syms

def make_traj(rng, case):
    n_t = int(rng.choice([1, 2, 5, 17, 40]))
    n_a = int(rng.integers(1, 9))
    lattice = make_lattice(rng, case % 5)
    species, syms = make_species(rng, n_a, case % 3)
    style = case % 4
    md = {'temperature': float(rng.uniform(100, 900)), 'tag': case}
    ts = float(rng.uniform(0.5, 3)) * 1e-15
    if style == 0:   # wrapped positions, small vibration + drift -> atoms cross faces
        base = rng.random((n_a, 3))
        base[rng.random((n_a, 3)) < 0.2] = 0.0          # atoms exactly on a cell face
        walk = np.cumsum(rng.normal(scale=0.03, size=(n_t, n_a, 3)), axis=0)
        rigid = np.cumsum(rng.normal(scale=0.05, size=(n_t, 1, 3)), axis=0)
        coords = base + walk + rigid
        coords[0] = base
        coords = np.mod(coords, 1)
        t = Trajectory(species=species, coords=coords, lattice=lattice, time_step=ts, metadata=md)
    elif style == 1:  # unwrapped positions outside [0,1), big jumps
        coords = rng.uniform(-2, 3, (n_t, n_a, 3))
        t = Trajectory(species=species, coords=coords, lattice=lattice, time_step=ts, metadata=md)
    elif style == 2:  # given as displacements, some > 0.5 (do not survive a round trip)
        disp = rng.normal(scale=0.3, size=(n_t, n_a, 3))
        disp[0] = 0
        base = rng.uniform(-0.2, 1.2, (n_a, 3))
        t = Trajectory(species=species, coords=disp, lattice=lattice, time_step=ts, metadata=md,
                       coords_are_displacement=True, base_positions=base)
    else:             # tiny negative / near-one coordinates (np.mod edge: -> exactly 1.0)
        coords = rng.random((n_t, n_a, 3))
        m = rng.random(coords.shape)
        coords[m < 0.15] = -1e-17
        coords[(m >= 0.15) & (m < 0.3)] = 1.0
        coords[(m >= 0.3) & (m < 0.4)] = -0.0
        coords[(m >= 0.4) & (m < 0.5)] = 1 - 1e-16
        t = Trajectory(species=species, coords=coords, lattice=lattice, time_step=ts, metadata=md if case % 8 else None)
    return t, syms

def selections(rng, syms):
    absent = [s for s in SYMS if s not in syms]
    sub = [str(s) for s in rng.choice(syms, size=rng.integers(1, len(syms) + 1), replace=False)]
    sels = [
        {},
        {'fixed_species': syms[0]},
        {'fixed_species': list(sub)},
        {'fixed_species': tuple(sub)},
        {'fixed_species': set(sub)},
        {'fixed_species': frozenset(sub)},
        {'floating_species': syms[0]},
        {'floating_species': 'Si'},          # str -> substring test also floats 'S'
        {'floating_species': 'Na'},          # likewise 'N'
        {'floating_species': list(sub)},
        {'floating_species': set(sub)},
        {'floating_species': tuple(syms)},   # everything floats -> empty reference
        {'fixed_species': [], 'floating_species': sub[0]},
        {'fixed_species': '', 'floating_species': ''},
        {'fixed_species': sub[0], 'floating_species': syms[-1]},   # fixed wins
        {'fixed_species': None, 'floating_species': None},
    ]
    if absent:
        sels.append({'fixed_species': absent[0]})                  # empty selection
        sels.append({'floating_species': absent[0]})
        sels.append({'fixed_species': [absent[0], syms[0]]})
    return sels

def state(t):
    return {
        'coords': np.array(t.coords, copy=True),
        'cad': bool(t.coords_are_displacement),
        'base': None if t.base_positions is None else np.array(t.base_positions, copy=True),
        'species': [repr(s) for s in t.species],
        'lattice': np.array(t.lattice, copy=True),
        'const': t.constant_lattice,
        'ts': t.time_step,
        'md': dict(t.metadata),
        'cls': type(t).__name__,
    }

def guarded(fn):
    try:
        return fn()
    except Exception as e:  # noqa
        return ('EXC', type(e).__name__)

results = []
for case in range(n_cases):
    rng = np.random.default_rng(1300 + case)
    _, syms = make_traj(np.random.default_rng(1300 + case), case)
    sels = selections(rng, syms)
    for k, sel in enumerate(sels):
        rec = {'case': case, 'sel': repr(sorted(sel.items(), key=str)) if not any(isinstance(v, (set, frozenset)) for v in sel.values()) else 'set%d' % k}
        def fresh():
            return make_traj(np.random.default_rng(1300 + case), case)[0]
        # 1. drift on a fresh trajectory, plus post-call state of the input
        t = fresh()
        rec['drift'] = guarded(lambda: t.drift(**sel))
        rec['drift_state'] = state(t)
        # 2. correction on a fresh trajectory, result + input state
        t = fresh()
        def corr():
            c = t.apply_drift_correction(**sel)
            return state(c)
        rec['corr'] = guarded(corr)
        rec['corr_state'] = state(t)
        # 3. correction twice, then residual drift, positions and displacements
        t = fresh()
        def twice():
            c = t.apply_drift_correction(**sel)
            c2 = c.apply_drift_correction(**sel)
            return {'c2': state(c2), 'resid': c.drift(**sel), 'pos': np.array(c2.positions), 'disp': np.array(c2.displacements),
                    'cstate': state(c)}
        rec['twice'] = guarded(twice)
        # 4. drift after the trajectory has been flipped to the other representation first
        t = fresh()
        def flipped():
            a = np.array(t.positions); b = np.array(t.displacements); c = np.array(t.positions)
            return {'a': a, 'b': b, 'c': c, 'drift': t.drift(**sel), 'corr': state(t.apply_drift_correction(**sel))}
        rec['flipped'] = guarded(flipped)
        results.append(rec)
    # filter directly with several selector types, incl. empty result
    for j, sp in enumerate([syms[0], list(syms), tuple(syms[:1]), set(syms[-1:]), 'Xe', [], '', 'S', {s: 1 for s in syms[:2]}]):
        t = make_traj(np.random.default_rng(1300 + case), case)[0]
        rec = {'case': case, 'sel': 'filter%d' % j}
        rec['filter'] = guarded(lambda: state(t.filter(sp)))
        rec['filter_state'] = state(t)
        rec['filter_kw'] = guarded(lambda: state(t.filter(species=sp)))
        rec['filter_empty_again'] = guarded(lambda: state(t.filter('Xe').filter(sp)))
        rec['filter_chain'] = guarded(lambda: state(t.filter(list(syms)).filter(sp).filter(syms[0])))
        rec['filter_gen'] = guarded(lambda: state(t.filter(s for s in syms)))
        results.append(rec)

# non Species/Element species -> assertion in both implementations
t = Trajectory(species=['X', 'X'], coords=np.random.default_rng(5).random((4, 2, 3)), lattice=np.eye(3) * 4, time_step=1e-15)
results.append({'case': -1, 'sel': 'strspecies',
                'a': guarded(lambda: t.drift(fixed_species='X')),
                'b': guarded(lambda: t.drift(floating_species='Li')),
                'c': guarded(lambda: t.drift()),
                'd': guarded(lambda: state(t.apply_drift_correction())),
                'e': guarded(lambda: t.filter('X'))})
# center_of_mass trajectory ('X' string species) through drift correction without selection
t = make_traj(np.random.default_rng(77), 2)[0]
results.append({'case': -2, 'sel': 'com', 'a': guarded(lambda: state(t.center_of_mass().apply_drift_correction()))})

# unusual dtypes / layouts of the coordinate array and a per-frame lattice
for j, (dt, order) in enumerate([(np.float32, 'C'), (np.int64, 'C'), (np.float64, 'F'), (np.float16, 'C')]):
    rng = np.random.default_rng(900 + j)
    raw = rng.uniform(-2, 3, (6, 5, 3))
    raw[rng.random(raw.shape) < 0.2] = 1.0
    coords = np.asarray(raw.astype(dt), order=order)
    sp = [Element('Li'), Element('O'), Species('Li', 1), Element('S'), Element('O')]
    def mk():
        return Trajectory(species=sp, coords=coords.copy(order=order), lattice=Lattice.from_parameters(5, 6, 7, 80, 95, 110), time_step=1e-15)
    rec = {'case': -10 - j, 'sel': 'dtype' + np.dtype(dt).name + order}
    t = mk(); rec['pos'] = guarded(lambda: np.array(t.positions)); rec['pos_state'] = state(t)
    t = mk(); rec['drift'] = guarded(lambda: t.drift(floating_species='Li')); rec['drift_state'] = state(t)
    t = mk(); rec['corr'] = guarded(lambda: state(t.apply_drift_correction(fixed_species=['O', 'S']))); rec['corr_state'] = state(t)
    t = mk(); rec['cum'] = guarded(lambda: np.array(t.cumulative_displacements))
    t = mk(); rec['dist'] = guarded(lambda: np.array(t.distances_from_base_position()))
    t = mk(); rec['com'] = guarded(lambda: state(t.center_of_mass()))
    results.append(rec)
rng = np.random.default_rng(4242)
lat = np.array([Lattice.from_parameters(5, 6, 7, 80, 95, 110).matrix * (1 + 0.01 * i) for i in range(6)])
t = Trajectory(species=[Element('Li'), Element('O')], coords=rng.random((6, 2, 3)), lattice=lat, constant_lattice=False, time_step=1e-15)
results.append({'case': -20, 'sel': 'varlattice',
                'a': guarded(lambda: t.drift(fixed_species='O')), 's1': state(t),
                'b': guarded(lambda: state(t.apply_drift_correction(fixed_species='O'))), 's2': state(t),
                'c': guarded(lambda: state(t.apply_drift_correction())), 's3': state(t)})

with open(out, 'wb') as f:
    pickle.dump(results, f)
print(len(results))
'''


def run(root, out):
    env = dict(os.environ)
    env['PYTHONPATH'] = os.path.join(root, 'src')
    with tempfile.NamedTemporaryFile('w', suffix='.py', delete=False) as f:
        f.write(WORKER)
        script = f.name
    try:
        p = subprocess.run(['/venv/bin/python', script, root, out, str(N_CASES)], env=env, cwd='/tmp',
                           capture_output=True, text=True)
    finally:
        os.unlink(script)
    if p.returncode != 0:
        print(p.stdout, p.stderr)
        sys.exit(2)
    return int(p.stdout.strip().splitlines()[-1])


stats = {'compared': 0, 'not_bit_identical': 0}


def same(a, b, path, problems):
    if type(a) is not type(b):
        problems.append(f'{path}: type {type(a).__name__} != {type(b).__name__}')
    elif isinstance(a, np.ndarray):
        stats['compared'] += 1
        if a.shape != b.shape or a.dtype != b.dtype:
            problems.append(f'{path}: shape/dtype {a.shape}{a.dtype} != {b.shape}{b.dtype}')
        elif a.tobytes() != b.tobytes():
            stats['not_bit_identical'] += 1
            if not np.allclose(a, b, rtol=0, atol=1e-12, equal_nan=True):
                problems.append(f'{path}: max abs diff {np.nanmax(np.abs(a - b))}')
    elif isinstance(a, dict):
        if a.keys() != b.keys():
            problems.append(f'{path}: keys differ')
        else:
            for k in a:
                same(a[k], b[k], f'{path}.{k}', problems)
    elif isinstance(a, (list, tuple)):
        if len(a) != len(b):
            problems.append(f'{path}: len differ')
        else:
            for i, (x, y) in enumerate(zip(a, b)):
                same(x, y, f'{path}[{i}]', problems)
    elif isinstance(a, float):
        if not (a == b or (a != a and b != b)):
            problems.append(f'{path}: {a!r} != {b!r}')
    elif a != b:
        problems.append(f'{path}: {a!r} != {b!r}')


with tempfile.TemporaryDirectory() as td:
    fo, ft = os.path.join(td, 'orig.pkl'), os.path.join(td, 'twin.pkl')
    n1 = run(ORIG_ROOT, fo)
    n2 = run(TWIN_ROOT, ft)
    ro, rt = pickle.load(open(fo, 'rb')), pickle.load(open(ft, 'rb'))

problems = []
if n1 != n2 or len(ro) != len(rt):
    problems.append(f'record count differs {n1} {n2}')
for i, (a, b) in enumerate(zip(ro, rt)):
    same(a, b, f"rec{i}(case={a['case']},sel={a['sel']})", problems)

n_exc = sum(1 for r in ro for v in r.values() if isinstance(v, tuple) and v and v[0] == 'EXC')
print(f'records={len(ro)} random_trajectories={N_CASES} arrays_compared={stats["compared"]} '
      f'not_bit_identical={stats["not_bit_identical"]} exception_results={n_exc} problems={len(problems)}')
for p in problems[:40]:
    print('  DIFF', p)
sys.exit(1 if problems else 0)
