"""Differential test for refactoring 3 (default graph threshold constant,
FreeEnergyVolume._graph_or_default, generator based optimal_percolating_path).

Runs the same randomised driver in two subprocesses -- against the ORIGINAL code
(PYTHONPATH=/repo/src) and against the refactored worktree -- and compares all
returned paths (sites incl. element types, energies bit for bit, dims) and the
raised exception types.
"""
import os
import pickle
import subprocess
import sys
import tempfile

ORIG = '/repo/src'
NEW = '/tmp/wtu_C09/src'


def worker(out_path):
    import warnings

    import networkx as nx
    import numpy as np
    from pymatgen.core import Lattice

    import gemdat
    from gemdat.path import optimal_percolating_path
    from gemdat.volume import FreeEnergyVolume, Volume

    assert gemdat.__file__.startswith(os.environ['EXPECT_ROOT']), gemdat.__file__
    warnings.simplefilter('ignore')
    rng = np.random.default_rng(90903)

    def rot(rng):
        q, _ = np.linalg.qr(rng.normal(size=(3, 3)))
        return q

    def dump_path(p):
        if p is None:
            return None
        return {
            'type': type(p).__name__,
            'sites': [tuple(int(i) for i in s) for s in p.sites],
            'site_types': [tuple(type(i).__name__ for i in s) for s in p.sites],
            'energy': [(type(e).__name__, float(e).hex()) for e in p.energy],
            'total': float(p.total_energy).hex(),
            'dims': None if p.dims is None else tuple(int(i) for i in p.dims),
        }

    def attempt(fn):
        try:
            out = fn()
        except Exception as exc:  # compare the exception type
            return ('raised', type(exc).__name__)
        if isinstance(out, list):
            return ('ok', [dump_path(p) for p in out])
        return ('ok', dump_path(out))

    def make_lattice(i, rng):
        if i % 4 == 0:
            return Lattice.cubic(float(rng.uniform(3, 6)))
        if i % 4 == 1:
            return Lattice.from_parameters(3.3, 4.4, 5.5, 78, 101, 115)
        if i % 4 == 2:
            return Lattice(Lattice.from_parameters(4.0, 4.5, 3.5, 85, 95, 60).matrix @ rot(rng))
        return Lattice.orthorhombic(3.0, 5.0, 7.0)

    results = []
    directions = ['x', 'y', 'z', 'xy', 'yz', 'xz', 'xyz', 'zyx']
    for case in range(32):
        shape = tuple(int(i) for i in rng.integers(2, 5, 3))
        lat = make_lattice(case, rng)
        kind = case % 4
        if kind == 0:  # sparse: many unvisited voxels, often no percolation at all
            dens = rng.poisson(0.35, shape)
        elif kind == 1:  # medium
            dens = rng.poisson(1.2, shape)
        elif kind == 2:  # dense float density
            dens = rng.random(shape) + 0.05
        else:  # a visited channel along one axis only
            dens = np.zeros(shape, dtype=int)
            ax = int(rng.integers(0, 3))
            idx = [int(rng.integers(0, s)) for s in shape]
            idx[ax] = slice(None)
            dens[tuple(idx)] = rng.integers(1, 20, shape[ax])
        if dens.sum() == 0:
            dens[0, 0, 0] = 1
        fv = Volume(data=dens, lattice=lat).get_free_energy(temperature=float(rng.uniform(200, 1200)))
        assert isinstance(fv, FreeEnergyVolume)

        visited = np.argwhere(dens > 0)
        unvisited = np.argwhere(dens == 0)
        n_peaks = int(rng.integers(0, 5))
        peaks = visited[rng.permutation(len(visited))[:n_peaks]]
        rec = {'case': (case, kind, shape)}

        for d in (directions[case % len(directions)], directions[(case + 3) % len(directions)]):
            rec['perc_' + d] = attempt(lambda: optimal_percolating_path(fv, peaks=peaks, percolate=d))
            rec['perc_m_' + d] = attempt(lambda: fv.optimal_percolating_path(peaks=peaks, percolate=d))
        rec['perc_none'] = attempt(lambda: optimal_percolating_path(fv, peaks=peaks, percolate=''))
        rec['perc_empty'] = attempt(lambda: optimal_percolating_path(fv, peaks=visited[:0], percolate='x'))
        if len(unvisited):  # a peak on a never-visited voxel is not part of the graph
            bad_peaks = np.vstack([peaks, unvisited[:1]])
            rec['perc_bad'] = attempt(lambda: optimal_percolating_path(fv, peaks=bad_peaks, percolate='xyz'))

        # optimal_path / optimal_n_paths with the default graph, a given graph, an empty graph
        if len(visited) >= 2:
            a, b = visited[rng.permutation(len(visited))[:2]]
        else:
            a = b = visited[0]
        method = ['dijkstra', 'bellman-ford', 'minmax-energy', 'dijkstra-exp', 'simple'][case % 5]
        own = fv.free_energy_graph(max_energy_threshold=float(rng.uniform(0.2, 3.0)), diagonal=bool(case % 2))
        for name, graph in (('default', None), ('own', own), ('empty', nx.Graph())):
            rec['path_' + name] = attempt(lambda: fv.optimal_path(graph, start=a, stop=b, method=method))
            rec['npaths_' + name] = attempt(
                # min_diff=0 accepts the first simple paths (keeps the enumeration short)
                lambda: fv.optimal_n_paths(graph, start=a, stop=b, n_paths=2 + case % 2, min_diff=0.0)
            )
        if len(unvisited):
            rec['path_unvisited'] = attempt(lambda: fv.optimal_path(start=a, stop=unvisited[0]))
        results.append(rec)

    with open(out_path, 'wb') as fh:
        pickle.dump(results, fh)


def run(root, out_path):
    env = dict(os.environ, PYTHONPATH=root, EXPECT_ROOT=root)
    subprocess.run([sys.executable, os.path.abspath(__file__), '--worker', out_path], env=env, check=True)
    with open(out_path, 'rb') as fh:
        return pickle.load(fh)


def main():
    with tempfile.TemporaryDirectory() as td:
        a = run(ORIG, os.path.join(td, 'orig.pkl'))
        b = run(NEW, os.path.join(td, 'new.pkl'))
    bad = 0
    if len(a) != len(b):
        print('different number of results', len(a), len(b))
        bad += 1
    stats = {}
    for ra, rb in zip(a, b):
        for k, v in ra.items():
            if k == 'case':
                continue
            tag = v[0] if v[0] == 'raised' else ('none' if v[1] is None else 'path')
            stats[tag] = stats.get(tag, 0) + 1
        if ra != rb:
            bad += 1
            print('MISMATCH', ra['case'], [k for k in ra if ra[k] != rb.get(k)])
    print(f'compared {len(a)} cases, outcomes={stats}, mismatches={bad}')
    return 1 if bad else 0


if __name__ == '__main__':
    if len(sys.argv) > 2 and sys.argv[1] == '--worker':
        worker(sys.argv[2])
    else:
        sys.exit(main())
