"""Differential test for refactoring 3 (_lengths/_lengths_from_metric, hoisted metric tensor, map/partial in distances_from_base_position).

ORIGINAL implementation: src/gemdat/trajectory.py as committed at HEAD of the repository
(identical to /repo/src/gemdat/trajectory.py; obtained read-only through `git show HEAD:...`),
loaded under another module name.  REFACTORED implementation: the worktree's gemdat.trajectory.
"""
import importlib.util
import os
import subprocess
import sys
import tempfile
import warnings

WT = '/tmp/wtu_C15'
sys.path.insert(0, os.path.join(WT, 'src'))
warnings.filterwarnings('ignore')

import numpy as np  # noqa: E402
from pymatgen.core import Element, Lattice, Species  # noqa: E402

import gemdat  # noqa: E402
import gemdat.trajectory as new_mod  # noqa: E402

assert new_mod.__file__.startswith(WT), new_mod.__file__


def load_original():
    src = subprocess.run(
        ['git', '-C', WT, 'show', 'HEAD:src/gemdat/trajectory.py'],
        check=True, capture_output=True, text=True,
    ).stdout
    tmp = tempfile.NamedTemporaryFile('w', suffix='_orig_trajectory.py', delete=False)
    tmp.write(src)
    tmp.close()
    spec = importlib.util.spec_from_file_location('gemdat._orig_trajectory', tmp.name)
    mod = importlib.util.module_from_spec(spec)
    sys.modules['gemdat._orig_trajectory'] = mod
    spec.loader.exec_module(mod)
    os.unlink(tmp.name)
    return mod


old_mod = load_original()
OldT, NewT = old_mod.Trajectory, new_mod.Trajectory
assert OldT is not NewT

FAIL = []
STATS: dict = {}


def random_lattice(rng, kind):
    if kind == 0:
        return Lattice.cubic(rng.uniform(3, 12))
    if kind == 1:
        return Lattice.from_parameters(*rng.uniform(3, 12, 3), *rng.uniform(60, 120, 3))
    if kind == 2:  # rotated (non lower-triangular) triclinic cell
        base = Lattice.from_parameters(*rng.uniform(4, 9, 3), *rng.uniform(70, 110, 3)).matrix
        q, _ = np.linalg.qr(rng.normal(size=(3, 3)))
        return Lattice(base @ q)
    return Lattice.hexagonal(rng.uniform(3, 6), rng.uniform(5, 14))


def random_inputs(rng, case):
    pool = [Element('Li'), Element('S'), Element('P'), Species('Li', 1), Species('O', -2), Element('Na')]
    n_sites = int(rng.integers(1, 9))
    n_frames = int(rng.integers(1, 25))
    species = [pool[i] for i in rng.integers(0, len(pool), n_sites)]
    start = rng.uniform(-0.2, 1.2, (1, n_sites, 3))
    steps = rng.normal(0, 0.15, (n_frames, n_sites, 3))
    coords = start + np.cumsum(steps, axis=0)  # unwrapped: atoms cross cell faces
    if case % 5 == 0:
        coords = np.round(coords, 1)  # exact 0 / 1 / negative-integer boundary values
    if case % 7 == 0:
        coords[0, 0] = [-1e-17, 1.0, 0.0]  # tiny negative -> mod gives 1.0 -> reset to 0
    return dict(
        species=species,
        coords=coords,
        lattice=random_lattice(rng, case % 4),
        time_step=float(rng.uniform(1e-16, 5e-15)),
        metadata={'temperature': float(rng.integers(100, 1000)), 'tag': case},
    )


def make(cls, inputs, mode):
    t = cls(
        species=list(inputs['species']),
        coords=inputs['coords'].copy(),
        lattice=inputs['lattice'],
        time_step=inputs['time_step'],
        metadata=inputs['metadata'],
    )
    if mode == 'disp':
        t.to_displacements()
    elif mode == 'pos':
        t.to_positions()
    return t


def snapshot(t):
    """Full observable state of a trajectory WITHOUT triggering a mode switch."""
    return {
        'cls': type(t).__name__,
        'species': [(type(s).__name__, str(s)) for s in t.species],
        'coords': np.array(t.coords, copy=True),
        'coords_dtype': str(np.asarray(t.coords).dtype),
        'mode': bool(t.coords_are_displacement),
        'base': None if t.base_positions is None else np.array(t.base_positions, copy=True),
        'lattice': np.array(t.lattice, copy=True),
        'constant_lattice': t.constant_lattice,
        'time_step': t.time_step,
        'metadata': dict(t.metadata),
        'site_properties': t.site_properties,
        'frame_properties': t.frame_properties,
    }


def same(a, b, path=''):
    if isinstance(a, dict):
        assert isinstance(b, dict) and a.keys() == b.keys(), f'{path}: keys {a.keys()} vs {b.keys()}'
        for k in a:
            same(a[k], b[k], f'{path}/{k}')
    elif isinstance(a, (list, tuple)):
        assert isinstance(b, (list, tuple)) and len(a) == len(b), f'{path}: len {len(a)} vs {len(b)}'
        for i, (x, y) in enumerate(zip(a, b)):
            same(x, y, f'{path}[{i}]')
    elif isinstance(a, np.ndarray):
        assert isinstance(b, np.ndarray), f'{path}: type {type(b)}'
        assert a.shape == b.shape and a.dtype == b.dtype, f'{path}: {a.shape}{a.dtype} vs {b.shape}{b.dtype}'
        assert np.array_equal(a, b, equal_nan=True), f'{path}: values differ, max {np.max(np.abs(a - b))}'
    else:
        assert type(a) is type(b) and a == b, f'{path}: {a!r} vs {b!r}'


def outcome(fn):
    try:
        return ('ok', fn())
    except Exception as exc:  # noqa: BLE001
        return ('raised', type(exc).__name__, str(exc))


def scenario(cls, inputs, mode, pre_queries, follow_up):
    src = make(cls, inputs, mode)
    out = {}
    # arbitrary read-only queries before: the answer must not depend on the current representation
    for q in pre_queries:
        if q == 'p':
            src.positions
        elif q == 'd':
            src.displacements
        elif q == 'c':
            src.cumulative_displacements
        elif q == 'x':
            src.distances_from_base_position()

    def dist():
        d = src.distances_from_base_position()
        return {'values': np.array(d, copy=True), 'f_contiguous': bool(d.flags['F_CONTIGUOUS']),
                'c_contiguous': bool(d.flags['C_CONTIGUOUS']), 'owns': bool(d.flags['OWNDATA'])}

    out['dist'] = outcome(dist)
    out['src_after'] = snapshot(src)
    out['dist_again'] = outcome(dist)
    sym = inputs['species'][0].symbol
    if follow_up == 0:
        out['q'] = outcome(lambda: src.filter(sym).distances_from_base_position())
    elif follow_up == 1:
        out['q'] = outcome(lambda: [p.distances_from_base_position() for p in src.split(2)])
    elif follow_up == 2:
        out['q'] = outcome(lambda: np.asarray(src.metrics().speed()))
    elif follow_up == 3:
        out['q'] = outcome(lambda: float(src.filter(sym).metrics().tracer_diffusivity(dimensions=3)))
    elif follow_up == 4:
        out['q'] = outcome(lambda: src[1::2].distances_from_base_position())
    else:
        out['q'] = outcome(lambda: src.apply_drift_correction().distances_from_base_position())
    out['src_final'] = snapshot(src)
    out['positions_final'] = np.array(src.positions, copy=True)
    out['dist_final'] = outcome(dist)
    return out


def main():
    rng = np.random.default_rng(20261003)
    n_cases = 72
    for case in range(n_cases):
        inputs = random_inputs(rng, case)
        if case % 9 == 0:
            inputs['coords'] = np.repeat(inputs['coords'][:1], 4, axis=0)  # nothing moves: all distances 0
        mode = ('fresh', 'pos', 'disp')[case % 3]
        pre = ['', 'p', 'd', 'pd', 'dpc', 'x', 'xpx', 'cdp'][case % 8]
        follow_up = case % 6
        try:
            a = scenario(OldT, inputs, mode, pre, follow_up)
            b = scenario(NewT, inputs, mode, pre, follow_up)
            same(a, b, f'case{case}')
            STATS[a['dist'][0]] = STATS.get(a['dist'][0], 0) + 1
            STATS['q_' + a['q'][0]] = STATS.get('q_' + a['q'][0], 0) + 1
        except AssertionError as exc:
            FAIL.append(f'case {case} mode={mode} pre={pre!r}: {exc}')
    # the module-level helper itself, on arbitrary (also huge / tiny / zero / non-contiguous) vectors
    for case in range(40):
        lattice = random_lattice(rng, case % 4)
        n = int(rng.integers(0, 12))
        vectors = rng.normal(0, 10.0 ** rng.integers(-8, 6), (n, 3))
        if case % 5 == 0:
            vectors = np.asfortranarray(vectors)
        if case % 6 == 0 and n:
            vectors[0] = 0
        try:
            same(outcome(lambda: old_mod._lengths(vectors, lattice)),
                 outcome(lambda: new_mod._lengths(vectors, lattice)), f'_lengths{case}')
            same(outcome(lambda: old_mod._lengths(vectors, lattice=lattice)),
                 outcome(lambda: new_mod._lengths_from_metric(vectors, metric_tensor=lattice.metric_tensor)),
                 f'_lengths_from_metric{case}')
            STATS['helper'] = STATS.get('helper', 0) + 1
        except AssertionError as exc:
            FAIL.append(f'helper case {case}: {exc}')
    # malformed input fails the same way
    for bad in (np.zeros(3), np.zeros((2, 2)), np.zeros((2, 3, 3))):
        try:
            lattice = random_lattice(rng, 1)
            a = outcome(lambda: old_mod._lengths(bad, lattice))
            b = outcome(lambda: new_mod._lengths(bad, lattice))
            same(a[:2], b[:2], f'bad{bad.shape}')
        except AssertionError as exc:
            FAIL.append(f'bad input {bad.shape}: {exc}')
    print(f'cases={n_cases + 43} failures={len(FAIL)} outcomes={STATS}')
    for f in FAIL:
        print('  FAIL', f)
    return 1 if FAIL else 0


if __name__ == '__main__':
    sys.exit(main())
