"""Differential test for refactoring 1 (transitions._calculate_atom_states + helper extraction).

Runs the same randomised cases once against /repo/src (original) and once against
/tmp/wtt_C07/src (refactored), each in its own subprocess, and compares the pickled results.
Exit code 0 iff all results are identical.
"""
import os
import pickle
import subprocess
import sys
import tempfile

ORIG = '/repo/src'
NEW = '/tmp/wtt_C07/src'
N_CASES = 40


def random_lattice(rng, kind):
    import numpy as np
    from scipy.spatial.transform import Rotation

    if kind == 0:  # cubic
        m = np.eye(3) * rng.uniform(4, 8)
    elif kind == 1:  # orthorhombic
        m = np.diag(rng.uniform(4, 9, size=3))
    elif kind == 2:  # triclinic, lower-triangular convention
        from pymatgen.core import Lattice

        m = Lattice.from_parameters(
            *rng.uniform(5, 9, size=3), *rng.uniform(65, 115, size=3)
        ).matrix.copy()
    else:  # triclinic and rigidly rotated
        from pymatgen.core import Lattice

        m = Lattice.from_parameters(
            *rng.uniform(5, 9, size=3), *rng.uniform(70, 110, size=3)
        ).matrix.copy()
        rot = Rotation.from_rotvec(rng.normal(size=3)).as_matrix()
        m = m @ rot.T
    return m


def build_case(seed):
    import numpy as np
    from pymatgen.core import Element, Structure

    import gemdat

    rng = np.random.default_rng(seed)
    lattice = random_lattice(rng, seed % 4)

    n_sites = int(rng.integers(2, 9))
    site_frac = rng.random((n_sites, 3))
    if seed % 3 == 0:
        # sites on cell faces / corners
        site_frac[0] = 0.0
        site_frac[1, 0] = 0.0
    labels = [('A', 'B', 'C')[int(rng.integers(0, 3 if seed % 2 else 2))] for _ in range(n_sites)]
    if seed % 5 == 0:
        labels = ['A'] * n_sites
    sites = Structure(
        lattice=lattice, species=['Li'] * n_sites, coords=site_frac, labels=labels
    )

    n_li = int(rng.integers(1, 6))
    n_other = int(rng.integers(0, 4))
    n_steps = int(rng.integers(1, 40))
    species = [Element('Li')] * n_li + [Element('S')] * n_other

    # atoms hop between sites with jitter, crossing the cell faces
    which = rng.integers(0, n_sites, size=(n_steps, n_li))
    hold = rng.random((n_steps, n_li)) < 0.7
    for t in range(1, n_steps):
        which[t] = np.where(hold[t], which[t - 1], which[t])
    li = site_frac[which] + rng.normal(scale=0.03, size=(n_steps, n_li, 3))
    far = rng.random((n_steps, n_li)) < 0.15
    li[far] = rng.random((int(far.sum()), 3))
    other = rng.random((1, n_other, 3)) + rng.normal(scale=0.01, size=(n_steps, n_other, 3))
    coords = np.concatenate([li, other], axis=1)
    coords = coords + rng.integers(-2, 3, size=(1, coords.shape[1], 1))  # unwrapped images
    if seed % 4 == 1 and n_steps > 1:
        coords[0, 0] = [0.0, 0.0, 0.0]
        coords[-1, 0] = [1.0 - 1e-17, 0.5, 1e-18]

    traj = gemdat.Trajectory(
        species=species,
        coords=coords,
        lattice=lattice,
        time_step=1e-15,
        metadata={'temperature': 300},
    )

    present = sorted(set(labels))
    mode = seed % 6
    if mode == 0:
        site_radius = {'': float(rng.uniform(0.2, 1.2))}
    elif mode == 1:
        site_radius = {lab: float(rng.uniform(0.2, 1.5)) for lab in present}
    elif mode == 2:
        site_radius = {lab: float(rng.uniform(0.2, 1.5)) for lab in reversed(present)}
    elif mode == 3:
        site_radius = {'': 1e-9}  # nothing in range -> warning, all NOSITE
    elif mode == 4:
        site_radius = {present[0]: 1e-9, '': float(rng.uniform(0.3, 2.5))}
    else:
        site_radius = {present[0]: float(rng.uniform(0.5, 2.5)), 'missing': 0.5}
    inner = float(rng.choice([1.0, 0.5, 0.9, 0.1]))
    return traj, sites, site_radius, inner


def run_case(seed):
    import warnings

    import numpy as np

    from gemdat.transitions import Transitions, _calculate_atom_states

    traj, sites, site_radius, inner = build_case(seed)
    out = {}
    diff = traj.filter('Li')
    for name, frac in (('outer', 1.0), ('inner', inner)):
        with warnings.catch_warnings(record=True) as w:
            warnings.simplefilter('always')
            try:
                res = _calculate_atom_states(
                    sites=sites, trajectory=diff, site_radius=site_radius,
                    site_inner_fraction=frac,
                )
                out[name] = ('ok', res.dtype.str, res.shape, res.tolist())
            except Exception as exc:  # same exception expected on both sides
                out[name] = ('exc', type(exc).__name__, str(exc))
        out[name + '_warnings'] = [(str(x.message), x.category.__name__) for x in w]

    with warnings.catch_warnings():
        warnings.simplefilter('ignore')
        try:
            tr = Transitions.from_trajectory(
                trajectory=traj, sites=sites, floating_specie='Li',
                site_radius=site_radius, site_inner_fraction=inner,
            )
            out['transitions'] = (
                'ok', tr.states.tolist(), tr.inner_states.tolist(),
                tr.events.to_numpy().tolist(), list(tr.events.columns),
                tr.matrix().tolist(), tr.occupancy().frac_coords.tolist(),
                [s.species.num_atoms for s in tr.occupancy()],
            )
        except Exception as exc:
            out['transitions'] = ('exc', type(exc).__name__, str(exc))
        # automatic site radius (site_radius=None)
        try:
            tr = Transitions.from_trajectory(trajectory=traj, sites=sites, floating_specie='Li')
            out['auto'] = ('ok', tr.states.tolist(), tr.events.to_numpy().tolist())
        except Exception as exc:
            out['auto'] = ('exc', type(exc).__name__, str(exc))
    return out


def worker(path):
    import gemdat

    results = {'__file__': os.path.dirname(gemdat.__file__)}
    for seed in range(N_CASES):
        results[seed] = run_case(seed)
    with open(path, 'wb') as fh:
        pickle.dump(results, fh)


def main():
    with tempfile.TemporaryDirectory() as td:
        outs = {}
        for tag, src in (('orig', ORIG), ('new', NEW)):
            path = os.path.join(td, tag + '.pkl')
            env = dict(os.environ, PYTHONPATH=src, PYTHONHASHSEED='0')
            subprocess.run([sys.executable, os.path.abspath(__file__), '--worker', path],
                           env=env, check=True)
            with open(path, 'rb') as fh:
                outs[tag] = pickle.load(fh)
    assert outs['orig'].pop('__file__') == ORIG + '/gemdat', 'original not imported from /repo'
    assert outs['new'].pop('__file__') == NEW + '/gemdat', 'refactored not imported from worktree'

    bad = 0
    n_ok = n_exc = n_warn = n_nosite = 0
    for seed in range(N_CASES):
        a, b = outs['orig'][seed], outs['new'][seed]
        if a != b:
            bad += 1
            for key in a:
                if a[key] != b.get(key):
                    print(f'DIFF seed={seed} key={key}\n  orig={str(a[key])[:300]}\n  new ={str(b.get(key))[:300]}')
        n_ok += a['outer'][0] == 'ok'
        n_exc += a['outer'][0] == 'exc'
        n_warn += bool(a['outer_warnings'])
        if a['outer'][0] == 'ok':
            flat = [x for row in a['outer'][3] for x in row]
            n_nosite += (-1 in flat) and any(x >= 0 for x in flat)
    print(f'cases={N_CASES} ok={n_ok} exceptions={n_exc} with_warnings={n_warn} '
          f'mixed_site/nosite={n_nosite} differing={bad}')
    sys.exit(1 if bad else 0)


if __name__ == '__main__':
    if len(sys.argv) == 3 and sys.argv[1] == '--worker':
        worker(sys.argv[2])
    else:
        main()
