"""Differential test for refactoring 2 of property C01.

Refactoring 2: module-level helper _lengths (metric-tensor vector lengths used by distances_from_base_position):
np.dot -> @ operator with the metric tensor inlined, einsum('ij,ji->i', tmp, vectors.T) -> einsum('ij,ij->i', tmp, vectors),
local renamed, assert operands swapped, docstring corrected.

Runs the ORIGINAL gemdat (/repo/src, read-only) and the REFACTORED gemdat (worktree, default /tmp/wtt_C01/src,
override with env GEMDAT_REFACTORED_SRC) in two subprocesses on identical randomised inputs and compares every
result.  Exit status 0 = all results equal (bit-identical or |diff| <= 1e-12), 1 = a difference was found.
"""
import os
import pickle
import subprocess
import sys
import tempfile

ORIG_SRC = '/repo/src'
NEW_SRC = os.environ.get('GEMDAT_REFACTORED_SRC', '/tmp/wtt_C01/src')
N_CASES = 40
TOL = 1e-12


# --------------------------------------------------------------------------- worker
def random_lattice(rng, kind):
    import numpy as np
    from pymatgen.core import Lattice

    if kind == 0:
        return Lattice.cubic(rng.uniform(1.0, 12.0))
    if kind == 1:
        return Lattice.orthorhombic(*rng.uniform(2.0, 15.0, 3))
    if kind == 2:  # strongly triclinic
        return Lattice.from_parameters(*rng.uniform(3, 12, 3), rng.uniform(50, 75), rng.uniform(95, 125), rng.uniform(60, 118))
    if kind == 3:  # hexagonal-like
        return Lattice.hexagonal(rng.uniform(3, 8), rng.uniform(4, 14))
    # arbitrarily oriented (rotated) skewed cell straight from a random matrix
    while True:
        m = rng.normal(size=(3, 3)) * rng.uniform(2, 8)
        if abs(np.linalg.det(m)) > 5.0:
            return Lattice(m)


BOUNDARY = [0.0, 1.0, -1e-17, 1 - 1e-16, -0.0, -1.0, 2.0, -1e-300, 1e-300, 0.5, -0.5, 1.5, 0.9999999999999999,
            -2.2e-16, 3 - 1e-16, -3.25, 7.75, 0.49999999999999994, 0.5000000000000001]


def make_coords(rng, n_frames, n_atoms, mode):
    import numpy as np

    start = rng.uniform(0, 1, (1, n_atoms, 3))
    steps = rng.normal(scale=rng.choice([0.01, 0.08, 0.3]), size=(n_frames, n_atoms, 3))
    steps[0] = 0
    coords = start + np.cumsum(steps, axis=0)
    if mode in (1, 3):  # whole-lattice shifts per coordinate
        coords = coords + rng.integers(-3, 4, coords.shape)
    if mode in (2, 3):  # sprinkle face-adjacent / boundary values
        mask = rng.uniform(size=coords.shape) < 0.35
        coords[mask] = rng.choice(BOUNDARY, size=int(mask.sum()))
    return coords


def record(out, key, fn):
    import numpy as np

    try:
        val = fn()
        out[key] = ('ok', np.array(val))
    except Exception as exc:  # compared by type
        out[key] = ('exc', type(exc).__name__)


def extra_checks(gemdat, rng, out, tag):
    """Refactoring-specific direct calls (filled in per refactoring)."""
    import numpy as np
    from gemdat.trajectory import _lengths

    lattice = random_lattice(rng, int(rng.integers(0, 5)))
    for n in (0, 1, 2, 7, 64):
        vecs = rng.normal(scale=rng.choice([1e-8, 0.3, 5.0, 1e3]), size=(n, 3))
        record(out, f'{tag}/lengths_n{n}', lambda vecs=vecs: _lengths(vecs, lattice=lattice))
        record(out, f'{tag}/lengths_n{n}_f32', lambda vecs=vecs: _lengths(vecs.astype(np.float32), lattice))
        record(out, f'{tag}/lengths_n{n}_int', lambda vecs=vecs: _lengths(np.rint(vecs).astype(int), lattice))
        # non-contiguous views (Fortran order / strided)
        record(out, f'{tag}/lengths_n{n}_F', lambda vecs=vecs: _lengths(np.asfortranarray(vecs), lattice))
        record(out, f'{tag}/lengths_n{n}_strided', lambda vecs=vecs: _lengths(np.repeat(vecs, 2, axis=0)[::2], lattice))
    # invalid shapes must fail the same way
    record(out, f'{tag}/lengths_1d', lambda: _lengths(rng.normal(size=3), lattice))
    record(out, f'{tag}/lengths_3d', lambda: _lengths(rng.normal(size=(2, 4, 3)), lattice))
    record(out, f'{tag}/lengths_0d', lambda: _lengths(np.float64(2.0), lattice))
    record(out, f'{tag}/lengths_wrongcols', lambda: _lengths(rng.normal(size=(4, 2)), lattice))
    record(out, f'{tag}/lengths_list', lambda: _lengths([[0.1, 0.2, 0.3]], lattice))
    record(out, f'{tag}/lengths_nan', lambda: _lengths(np.array([[np.nan, 0, 1], [np.inf, 1, 1]]), lattice))


def run_case(gemdat, seed, out):
    import numpy as np
    from pymatgen.core import Element

    rng = np.random.default_rng(seed)
    tag = f'case{seed:03d}'
    kind = seed % 5
    lattice = random_lattice(rng, kind)
    n_frames = int(rng.choice([1, 2, 3, 5, 8, 13]))
    n_atoms = int(rng.integers(1, 7))
    mode = (seed // 5) % 4
    coords = make_coords(rng, n_frames, n_atoms, mode)
    pool = ['Li', 'S', 'P', 'Na', 'O']
    symbols = [pool[i] for i in rng.integers(0, rng.integers(1, len(pool) + 1), n_atoms)]
    species = [Element(s) for s in symbols]

    def fresh(c=coords, **kw):
        return gemdat.Trajectory(species=species, coords=c.copy(), lattice=lattice, time_step=1e-15,
                                 metadata={'temperature': 300}, **kw)

    out[tag + '/input'] = ('ok', coords)
    record(out, tag + '/positions', lambda: fresh().positions)
    record(out, tag + '/displacements', lambda: fresh().displacements)
    record(out, tag + '/cumulative', lambda: fresh().cumulative_displacements)
    record(out, tag + '/distances', lambda: fresh().distances_from_base_position())
    record(out, tag + '/msd', lambda: fresh().mean_squared_displacement())
    record(out, tag + '/com', lambda: fresh().center_of_mass().positions)
    record(out, tag + '/drift_all', lambda: fresh().drift())
    record(out, tag + '/drift_fixed', lambda: fresh().drift(fixed_species=symbols[0]))
    record(out, tag + '/drift_fixed_list', lambda: fresh().drift(fixed_species=[symbols[0], 'S']))
    record(out, tag + '/drift_floating', lambda: fresh().drift(floating_species=[symbols[-1]]))
    record(out, tag + '/drift_floating_str', lambda: fresh().drift(floating_species='Li'))
    record(out, tag + '/drift_floating_none_left', lambda: fresh().drift(floating_species=pool))
    record(out, tag + '/drift_fixed_absent', lambda: fresh().drift(fixed_species='Xe'))
    record(out, tag + '/driftcorr_pos', lambda: fresh().apply_drift_correction().positions)
    record(out, tag + '/driftcorr_fixed_pos', lambda: fresh().apply_drift_correction(fixed_species=symbols[0]).positions)
    record(out, tag + '/driftcorr_float_dist',
           lambda: fresh().apply_drift_correction(floating_species=symbols[-1]).distances_from_base_position())
    record(out, tag + '/filter_pos', lambda: fresh().filter(symbols[0]).positions)
    record(out, tag + '/filter_empty_pos', lambda: fresh().filter('Xe').positions)
    record(out, tag + '/filter_empty_dist', lambda: fresh().filter('Xe').distances_from_base_position())
    record(out, tag + '/slice_pos', lambda: fresh()[1:4].positions)
    record(out, tag + '/slice_dist', lambda: fresh()[::2].distances_from_base_position())

    # positions <-> displacements round trips on the same object (state changes must agree too)
    def roundtrip():
        t = fresh()
        a = t.positions.copy()
        b = t.displacements.copy()
        c = t.positions.copy()
        d = t.cumulative_displacements.copy()
        e = t.positions.copy()
        return np.concatenate([a, b, c, d, e, t.base_positions[None]])

    record(out, tag + '/roundtrip', roundtrip)

    # trajectory handed over as displacements + base positions (values outside the cell on purpose)
    def from_disp():
        base = rng_base
        t = fresh(c=disp, coords_are_displacement=True, base_positions=base)
        return np.concatenate([t.positions.copy(), t.displacements.copy(), t.cumulative_displacements])

    disp = rng.normal(scale=0.4, size=coords.shape)
    rng_base = coords[0] + rng.integers(-2, 3, coords[0].shape)
    record(out, tag + '/from_disp', from_disp)
    record(out, tag + '/from_disp_dist',
           lambda: fresh(c=disp, coords_are_displacement=True, base_positions=rng_base).distances_from_base_position())

    # single precision input
    record(out, tag + '/float32_pos', lambda: fresh(c=coords.astype(np.float32)).positions)
    record(out, tag + '/float32_pos_dtype', lambda: str(fresh(c=coords.astype(np.float32)).positions.dtype))
    record(out, tag + '/pos_dtype', lambda: str(fresh().positions.dtype))

    extra_checks(gemdat, rng, out, tag)


def worker(outfile, expect_root):
    import warnings

    warnings.simplefilter('ignore')
    import gemdat

    assert os.path.realpath(gemdat.__file__).startswith(os.path.realpath(expect_root)), (gemdat.__file__, expect_root)
    out = {}
    for seed in range(N_CASES):
        run_case(gemdat, seed, out)
    with open(outfile, 'wb') as f:
        pickle.dump(out, f)


# --------------------------------------------------------------------------- driver
def compare(a, b):
    import numpy as np

    problems = []
    n_exact = n_close = 0
    if a.keys() != b.keys():
        problems.append(f'key sets differ: {sorted(set(a) ^ set(b))}')
    for key in sorted(set(a) & set(b)):
        (ka, va), (kb, vb) = a[key], b[key]
        if ka != kb:
            problems.append(f'{key}: outcome {ka}:{va if ka == "exc" else ""} vs {kb}:{vb if kb == "exc" else ""}')
            continue
        if ka == 'exc':
            if va != vb:
                problems.append(f'{key}: exception {va} vs {vb}')
            else:
                n_exact += 1
            continue
        if va.shape != vb.shape or va.dtype != vb.dtype:
            problems.append(f'{key}: shape/dtype {va.shape}{va.dtype} vs {vb.shape}{vb.dtype}')
            continue
        if va.dtype.kind in 'US':
            if not (va == vb).all():
                problems.append(f'{key}: {va} vs {vb}')
            else:
                n_exact += 1
            continue
        if va.tobytes() == vb.tobytes() or np.array_equal(va, vb, equal_nan=True):
            n_exact += 1
            continue
        if not np.array_equal(np.isnan(va), np.isnan(vb)):
            problems.append(f'{key}: NaN pattern differs')
            continue
        diff = np.nanmax(np.abs(va - vb)) if va.size else 0.0
        if not diff <= TOL:
            problems.append(f'{key}: max abs diff {diff}')
        else:
            n_close += 1
    return problems, n_exact, n_close


def main():
    results = []
    with tempfile.TemporaryDirectory() as td:
        for name, src in (('orig', ORIG_SRC), ('new', NEW_SRC)):
            outfile = os.path.join(td, name + '.pkl')
            env = dict(os.environ, PYTHONPATH=src, PYTHONDONTWRITEBYTECODE='1')
            proc = subprocess.run([sys.executable, os.path.abspath(__file__), '--worker', outfile, src], env=env)
            if proc.returncode != 0:
                print(f'worker {name} failed')
                return 1
            with open(outfile, 'rb') as f:
                results.append(pickle.load(f))
    problems, n_exact, n_close = compare(*results)
    n_ok = sum(1 for k, v in results[0].items() if v[0] == 'ok')
    print(f'cases={N_CASES} results={len(results[0])} (ok={n_ok}, exceptions={len(results[0]) - n_ok}) '
          f'bit_identical={n_exact} within_tol={n_close} differing={len(problems)}')
    for p in problems[:40]:
        print('  DIFF', p)
    return 1 if problems else 0


if __name__ == '__main__':
    if len(sys.argv) > 1 and sys.argv[1] == '--worker':
        worker(sys.argv[2], sys.argv[3])
    else:
        sys.exit(main())
