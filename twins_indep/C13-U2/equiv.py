"""Differential test for the C13 refactorings (drift / apply_drift_correction / filter).

The same randomised scenario script is executed twice in a subprocess: once with
PYTHONPATH=/repo/src (ORIGINAL, read-only) and once with PYTHONPATH=/tmp/wtu_C13/src
(REFACTORED).  Every observable (returned arrays, species, lattice, time step,
metadata, state of the input trajectory afterwards, raised exceptions, emitted
warnings) is pickled and compared.  Floating point arrays must agree bit for bit
(NaN == NaN); the script exits non-zero on the first difference.
"""

from __future__ import annotations

import os
import pickle
import subprocess
import sys

ORIG = '/repo/src'
WORK = os.environ.get('C13_WORKTREE', '/tmp/wtu_C13') + '/src'
N_CASES = 60


def worker() -> None:
    import warnings

    import numpy as np
    from pymatgen.core import Element, Lattice, Species

    import gemdat
    from gemdat import Trajectory

    root = os.environ['C13_EXPECT_ROOT']
    assert os.path.abspath(gemdat.__file__).startswith(root), (gemdat.__file__, root)

    def rotation(rng):
        q, r = np.linalg.qr(rng.normal(size=(3, 3)))
        q = q * np.sign(np.diag(r))
        if np.linalg.det(q) < 0:
            q[:, 0] = -q[:, 0]
        return q

    def make_lattice(rng, kind):
        if kind == 0:
            return Lattice.cubic(rng.uniform(3, 12))
        if kind == 1:
            return Lattice.from_parameters(
                rng.uniform(3, 9), rng.uniform(3, 9), rng.uniform(3, 9), rng.uniform(60, 120), rng.uniform(60, 120), rng.uniform(70, 110)
            )
        if kind == 2:  # rotated triclinic cell (not in standard orientation)
            base = Lattice.from_parameters(5.1, 6.2, 7.3, 77.0, 95.0, 111.0).matrix
            return Lattice(base @ rotation(rng))
        if kind == 3:
            return Lattice.hexagonal(rng.uniform(3, 6), rng.uniform(4, 10))
        return Lattice(rng.uniform(-1, 1, size=(3, 3)) + np.diag(rng.uniform(4, 8, size=3)))

    pools = [
        ['Li', 'S', 'P'],
        ['Na', 'Cl'],
        ['Li', 'La', 'O', 'Zr'],
        ['Li'],
        ['B', 'Be', 'Br', 'O'],
    ]

    def make_species(rng, symbols, n_sites, mode):
        out = []
        for i in range(n_sites):
            sym = symbols[i % len(symbols)] if i < len(symbols) else symbols[rng.integers(len(symbols))]
            if mode == 0:
                out.append(Element(sym))
            elif mode == 1:
                out.append(Species(sym, 0) if rng.random() < 0.5 else Species(sym, 1))
            else:
                out.append(Element(sym) if rng.random() < 0.5 else Species(sym, 1))
        order = rng.permutation(n_sites)
        return [out[i] for i in order]

    def make_selector(rng, symbols, style):
        k = int(rng.integers(1, len(symbols) + 1))
        chosen = [symbols[i] for i in rng.permutation(len(symbols))[:k]]
        if style == 0:
            return chosen[0]  # plain string
        if style == 1:
            return list(chosen)
        if style == 2:
            return tuple(chosen)
        if style == 3:
            return set(chosen)
        if style == 4:
            return frozenset(chosen)
        if style == 5:
            return ''.join(chosen)  # string made of several symbols: substring semantics
        if style == 6:
            return ['Xe']  # matches nothing -> empty selection
        if style == 7:
            return []  # falsy collection
        if style == 8:
            return ''  # falsy string
        if style == 9:
            return {s: 1 for s in chosen}  # mapping, membership via keys
        return list(chosen) + list(chosen)  # duplicates

    def snapshot_traj(t):
        lat = getattr(t, 'lattice', None)
        return {
            'class': type(t).__name__,
            'species': [(type(s).__name__, str(s)) for s in t.species],
            'coords': np.array(t.coords),
            'coords_c_contig': bool(np.asarray(t.coords).flags['C_CONTIGUOUS']),
            'coords_dtype': str(np.asarray(t.coords).dtype),
            'is_disp': bool(t.coords_are_displacement),
            'base': None if t.base_positions is None else np.array(t.base_positions),
            'lattice': None if lat is None else np.array(lat),
            'constant_lattice': t.constant_lattice,
            'time_step': t.time_step,
            'metadata': dict(t.metadata),
        }

    def run(fn):
        with warnings.catch_warnings(record=True) as caught:
            warnings.simplefilter('always')
            try:
                value = fn()
                err = None
            except Exception as exc:  # noqa: BLE001
                value = None
                err = (type(exc).__name__, str(exc))
        warns = sorted({(w.category.__name__, str(w.message)) for w in caught})
        return value, err, warns

    results = []
    for case in range(N_CASES):
        rng = np.random.default_rng(130000 + case)
        symbols = pools[case % len(pools)]
        n_sites = int(rng.integers(len(symbols), len(symbols) + 6))
        n_frames = int(rng.choice([1, 2, 3, 7, 15]))
        lattice = make_lattice(rng, case % 5)
        species = make_species(rng, symbols, n_sites, case % 3)
        if case % 17 == 16:
            species = ['X'] * n_sites  # plain strings: assertion paths

        base = rng.random((n_sites, 3))
        if case % 4 == 0:  # atoms sitting on / next to cell faces
            base[rng.random((n_sites, 3)) < 0.3] = 0.0
            base[rng.random((n_sites, 3)) < 0.1] = 1.0 - 1e-17
        steps = rng.normal(scale=rng.choice([0.01, 0.08, 0.3]), size=(n_frames, n_sites, 3))
        steps[0] = 0
        rigid = np.cumsum(rng.normal(scale=0.2, size=(n_frames, 1, 3)), axis=0)
        rigid[0] = 0
        positions = base[None] + np.cumsum(steps, axis=0) + (rigid if case % 2 else 0.0)
        if case % 6 == 5:
            positions = np.mod(positions, 1)  # wrapped input, atoms cross cell faces

        def build():
            kwargs = dict(species=list(species), lattice=lattice, time_step=float(1e-15 * (1 + case % 3)), metadata={'temperature': 300 + case})
            if case % 7 == 3:  # trajectory handed over as displacements (some > half a cell)
                disp = np.array(steps)
                if case % 14 == 3:
                    disp = disp * 4
                return Trajectory(coords=disp, coords_are_displacement=True, base_positions=np.array(base), **kwargs)
            return Trajectory(coords=np.array(positions), **kwargs)

        style_a = int(rng.integers(0, 11))
        style_b = int(rng.integers(0, 11))
        sel_a = make_selector(rng, symbols, style_a)
        sel_b = make_selector(rng, symbols, style_b)
        calls = [
            ('none', {}),
            ('fixed', {'fixed_species': sel_a}),
            ('floating', {'floating_species': sel_a}),
            ('fixed2', {'fixed_species': sel_b}),
            ('floating2', {'floating_species': sel_b}),
            ('both', {'fixed_species': sel_a, 'floating_species': sel_b}),
            ('explicit-none', {'fixed_species': None, 'floating_species': None}),
        ]

        record = {'case': case, 'selectors': (repr(sorted(sel_a) if isinstance(sel_a, (set, frozenset)) else sel_a), style_b)}
        for name, kw in calls:
            # drift()
            t = build()
            value, err, warns = run(lambda: t.drift(**kw))
            record[f'drift:{name}'] = (value, err, warns, snapshot_traj(t))

            # apply_drift_correction(), and a second application on the result
            t = build()
            value, err, warns = run(lambda: t.apply_drift_correction(**kw))
            out = None if value is None else snapshot_traj(value)
            again = None
            pos = None
            if value is not None:
                v2, e2, w2 = run(lambda: value.apply_drift_correction(**kw))
                again = (None if v2 is None else snapshot_traj(v2), e2, w2)
                pos = np.array(value.positions)
            record[f'apply:{name}'] = (out, err, warns, snapshot_traj(t), again, pos)

            # call on a trajectory that was already switched to displacements
            t = build()
            _ = t.displacements
            value, err, warns = run(lambda: t.apply_drift_correction(**kw))
            record[f'apply-disp:{name}'] = (None if value is None else snapshot_traj(value), err, warns, snapshot_traj(t))

        # filter() directly
        for name, sel in (('a', sel_a), ('b', sel_b)):
            t = build()
            value, err, warns = run(lambda: t.filter(sel))
            record[f'filter:{name}'] = (None if value is None else snapshot_traj(value), err, warns, snapshot_traj(t))
            if value is not None:
                record[f'filter-disp:{name}'] = np.array(value.displacements)

        # downstream consumer of a corrected trajectory
        t = build()
        value, err, warns = run(lambda: t.apply_drift_correction().distances_from_base_position())
        record['distances'] = (value, err, warns)

        # center_of_mass() shares the constructor plumbing of filter() / apply_drift_correction()
        t = build()
        value, err, warns = run(lambda: t.center_of_mass())
        record['com'] = (None if value is None else snapshot_traj(value), err, warns, snapshot_traj(t))
        results.append(record)

    sys.stdout.buffer.write(pickle.dumps(results))


def same(a, b, path, diffs):
    import numpy as np

    if isinstance(a, np.ndarray) or isinstance(b, np.ndarray):
        if not (isinstance(a, np.ndarray) and isinstance(b, np.ndarray)):
            diffs.append(f'{path}: type {type(a)} vs {type(b)}')
        elif a.shape != b.shape or a.dtype != b.dtype:
            diffs.append(f'{path}: shape/dtype {a.shape}{a.dtype} vs {b.shape}{b.dtype}')
        elif not np.array_equal(a, b, equal_nan=a.dtype.kind == 'f'):
            diffs.append(f'{path}: values differ, max abs diff {np.nanmax(np.abs(a - b))}')
    elif isinstance(a, dict) and isinstance(b, dict):
        if a.keys() != b.keys():
            diffs.append(f'{path}: keys {sorted(a)} vs {sorted(b)}')
        for k in a.keys() & b.keys():
            same(a[k], b[k], f'{path}/{k}', diffs)
    elif isinstance(a, (list, tuple)) and isinstance(b, (list, tuple)):
        if len(a) != len(b) or type(a) is not type(b):
            diffs.append(f'{path}: length/type {len(a)} vs {len(b)}')
        else:
            for i, (x, y) in enumerate(zip(a, b)):
                same(x, y, f'{path}[{i}]', diffs)
    elif a != b:
        diffs.append(f'{path}: {a!r} vs {b!r}')


def collect(src: str):
    env = dict(os.environ)
    env['PYTHONPATH'] = src
    env['C13_EXPECT_ROOT'] = src
    proc = subprocess.run([sys.executable, os.path.abspath(__file__), '--worker'], env=env, cwd='/tmp', capture_output=True)
    if proc.returncode != 0:
        sys.stderr.write(proc.stderr.decode())
        raise SystemExit(f'worker failed for {src}')
    return pickle.loads(proc.stdout)


def main() -> int:
    original = collect(ORIG)
    refactored = collect(WORK)
    assert len(original) == len(refactored) == N_CASES >= 20
    diffs: list[str] = []
    n_ok_results = 0
    n_errors = 0
    for rec_o, rec_r in zip(original, refactored):
        same(rec_o, rec_r, f'case{rec_o["case"]}', diffs)
        for key, val in rec_o.items():
            if key.startswith(('drift:', 'apply:', 'filter:')):
                if val[1] is None:
                    n_ok_results += 1
                else:
                    n_errors += 1
    print(f'cases={N_CASES} successful-calls={n_ok_results} raising-calls={n_errors} differences={len(diffs)}')
    for d in diffs[:40]:
        print('  DIFF', d)
    return 1 if diffs else 0


if __name__ == '__main__':
    if '--worker' in sys.argv:
        worker()
    else:
        sys.exit(main())
