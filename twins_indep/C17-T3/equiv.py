"""Differential test for a behaviour-preserving refactoring of gemdat.shape (property C17).

Usage:  /venv/bin/python equiv.py            -> runs the ORIGINAL (/repo/src) and the REFACTORED
                                               (worktree, default /tmp/wtt_C17/src, override with
                                               env TWIN_SRC) implementation in two subprocesses on
                                               identical randomised inputs and compares every result.
        /venv/bin/python equiv.py --worker F -> (internal) compute the results with whatever gemdat
                                               is on PYTHONPATH and pickle them to F.

Exit status 0 iff every result has the same shape/dtype and agrees within 1e-12 (the script also
reports whether the agreement is bit-for-bit).
"""

from __future__ import annotations

import os
import pickle
import subprocess
import sys
import tempfile
import warnings

import numpy as np

ORIG_SRC = '/repo/src'
TWIN_SRC = os.environ.get('TWIN_SRC', '/tmp/wtt_C17/src')
SEED = 1717
TOL = 1e-12


# --------------------------------------------------------------------------------------
# worker: build inputs and evaluate the implementation that is importable as `gemdat`
# --------------------------------------------------------------------------------------
def _random_rotation(rng):
    q, r = np.linalg.qr(rng.normal(size=(3, 3)))
    q = q * np.sign(np.diag(r))
    if np.linalg.det(q) < 0:
        q[:, 0] = -q[:, 0]
    return q


def _lattice_for(system, rng):
    from pymatgen.core import Lattice

    a, b, c = rng.uniform(3.0, 9.0, size=3)
    if system == 'triclinic':
        return Lattice.from_parameters(
            a, b, c, rng.uniform(70, 110), rng.uniform(70, 110), rng.uniform(70, 110)
        )
    if system == 'monoclinic':
        return Lattice.monoclinic(a, b, c, rng.uniform(95, 120))
    if system == 'orthorhombic':
        return Lattice.orthorhombic(a, b, c)
    if system == 'tetragonal':
        return Lattice.tetragonal(a, c)
    if system == 'hexagonal':
        return Lattice.hexagonal(a, c)
    if system == 'cubic':
        return Lattice.cubic(a)
    raise ValueError(system)


def _min_perp_width(lattice):
    m = lattice.matrix
    vol = abs(np.linalg.det(m))
    widths = []
    for i in range(3):
        n = np.cross(m[(i + 1) % 3], m[(i + 2) % 3])
        widths.append(vol / np.linalg.norm(n))
    return min(widths)


CASES = [
    ('P1', 'triclinic'),
    ('P-1', 'triclinic'),
    ('P-1', 'triclinic'),
    ('P2_1/c', 'monoclinic'),
    ('C2/m', 'monoclinic'),
    ('Pnma', 'orthorhombic'),
    ('Cmcm', 'orthorhombic'),
    ('Fddd', 'orthorhombic'),
    ('P4/nmm', 'tetragonal'),
    ('I4_1/amd', 'tetragonal'),
    ('P3m1', 'hexagonal'),
    ('P6_3/mmc', 'hexagonal'),
    ('R-3m', 'hexagonal'),
    ('Pm-3m', 'cubic'),
    ('P2_13', 'cubic'),
    ('Fm-3m', 'cubic'),
    ('Ia-3d', 'cubic'),
]


def _make_sites(lattice, rng, n):
    from pymatgen.core import PeriodicSite

    specials = [
        [0.995, 0.002, 0.5],
        [0.0, 0.0, 0.0],
        [0.999, 0.999, 0.001],
        [1.2, -0.3, 0.5],
        [0.5, 0.5, 0.5],
        [0.25, 0.0, 0.75],
    ]
    sites = []
    for k in range(n):
        if rng.random() < 0.5:
            frac = np.array(specials[rng.integers(len(specials))], dtype=float)
        else:
            frac = rng.uniform(0, 1, size=3)
        sites.append(PeriodicSite('Li', frac, lattice, label=f'S{k}'))
    return sites


def _make_positions(ops, sites, lattice, rng, radius):
    kind = rng.integers(0, 6)
    if kind == 0:
        return np.empty((0, 3))
    n = int(rng.integers(1, 250))
    pos = rng.uniform(0, 1, size=(n, 3))
    # points clustered around symmetry images of the sites (guaranteed hits, incl. images outside the cell)
    extra = []
    inv = np.linalg.inv(lattice.matrix)
    for site in sites:
        for op in ops[:: max(1, len(ops) // 7)]:
            img = op.operate(site.frac_coords)
            for _ in range(3):
                d = rng.normal(size=3)
                d = d / np.linalg.norm(d) * rng.uniform(0, 1.3 * radius)
                extra.append(img + d @ inv)
    extra = np.array(extra)
    if kind in (1, 2):
        extra = np.mod(extra, 1)
    pos = np.vstack([pos, extra])
    if kind == 3:
        # unwrapped input spanning several cells
        pos = pos + rng.integers(-2, 3, size=pos.shape)
    if kind == 4:
        # exact boundary values
        pos[: min(5, len(pos))] = np.round(pos[: min(5, len(pos))])
    rng.shuffle(pos)
    return np.ascontiguousarray(pos)


def _shape_record(shapes):
    return [
        {
            'label': s.site.label,
            'site_frac': np.array(s.site.frac_coords),
            'coords': np.array(s.coords),
            'radius': s.radius,
            'distances': np.array(s.distances()),
        }
        for s in shapes
    ]


def worker(outfile):
    from pymatgen.core import Element, Lattice, Structure
    from pymatgen.symmetry.groups import SpaceGroup

    import gemdat
    from gemdat.shape import ShapeAnalyzer

    rng = np.random.default_rng(SEED)
    results = {'__file__': gemdat.__file__}

    case_list = CASES + [CASES[i] for i in rng.integers(0, len(CASES), size=12)]

    for ci, (symbol, system) in enumerate(case_list):
        key = f'case{ci:02d}_{symbol}'
        lattice = _lattice_for(system, rng)
        if ci % 2 == 1:
            # rigidly rotated cell: same metric, non-standard orientation
            lattice = Lattice(lattice.matrix @ _random_rotation(rng))
        sg = SpaceGroup(symbol)
        ops = list(sg)
        sites = _make_sites(lattice, rng, int(rng.integers(1, 4)))
        rmax = 0.5 * _min_perp_width(lattice)
        radius = float(rng.uniform(0.15, 0.98) * rmax) if ci % 7 else 1e-9

        if ci % 5 == 4:
            # go through SpacegroupAnalyzer -> SpacegroupOperations api
            struct = Structure.from_spacegroup(
                symbol, lattice, ['Li'] * len(sites), [s.frac_coords for s in sites]
            )
            try:
                analyzer = ShapeAnalyzer.from_structure(struct)
            except Exception as exc:  # pragma: no cover - same for both implementations
                results[key + '/from_structure_error'] = repr(type(exc))
                analyzer = ShapeAnalyzer(sites=sites, lattice=lattice, spacegroup=sg)
            ops = list(analyzer.spacegroup)
            lattice = analyzer.lattice
            sites = list(analyzer.sites)
        else:
            analyzer = ShapeAnalyzer(sites=sites, lattice=lattice, spacegroup=sg)

        results[key + '/repr'] = repr(analyzer)
        results[key + '/n_ops'] = len(ops)

        positions = _make_positions(ops, sites, lattice, rng, radius)
        before = positions.copy()

        # 1. find_equivalent_positions for every site
        for si, site in enumerate(analyzer.sites):
            out = analyzer.find_equivalent_positions(site=site, positions=positions, radius=radius)
            results[key + f'/fep{si}'] = np.array(out)
        results[key + '/positions_unchanged'] = bool(np.array_equal(before, positions))
        results[key + '/positions_after'] = positions.copy()

        # 2. analyze_positions
        shapes = analyzer.analyze_positions(positions, radius=radius)
        results[key + '/analyze_positions'] = _shape_record(shapes)

        # default radius
        if ci % 3 == 0:
            shapes1 = analyzer.analyze_positions(positions)
            results[key + '/analyze_positions_default_radius'] = _shape_record(shapes1)

        # 3. analyze_trajectory without and with supercell folding
        n_frames, n_atoms = int(rng.integers(1, 6)), int(rng.integers(1, 9))
        for tag, supercell in (
            ('none', None),
            ('s111', (1, 1, 1)),
            ('srand', tuple(int(x) for x in rng.integers(1, 4, size=3))),
        ):
            scale = np.ones(3) if supercell is None else np.array(supercell, dtype=float)
            traj_lattice = Lattice(lattice.matrix * scale[:, None])
            if ci % 6 == 5 and tag == 'srand':
                # deliberately mismatching lattice -> warning path
                traj_lattice = Lattice(traj_lattice.matrix * 1.35)
            coords = rng.uniform(-0.25, 1.25, size=(n_frames, n_atoms, 3))
            # make sure some atoms are close to images of the sites in the unit cell
            for f in range(n_frames):
                site = sites[int(rng.integers(len(sites)))]
                op = ops[int(rng.integers(len(ops)))]
                img = np.mod(op.operate(site.frac_coords), 1) + rng.integers(0, 3, size=3) % scale
                coords[f, 0] = (img + rng.normal(scale=0.01, size=3)) / scale
            traj = gemdat.Trajectory(
                species=[Element('Li')] * n_atoms,
                coords=coords,
                lattice=traj_lattice,
                time_step=1e-15,
                constant_lattice=True,
                metadata={'temperature': 300},
            )
            with warnings.catch_warnings(record=True) as caught:
                warnings.simplefilter('always')
                if supercell is None:
                    shapes = analyzer.analyze_trajectory(traj, radius=radius)
                else:
                    shapes = analyzer.analyze_trajectory(traj, supercell=supercell, radius=radius)
            results[key + f'/traj_{tag}'] = _shape_record(shapes)
            results[key + f'/traj_{tag}_warnings'] = sorted(
                f'{w.category.__name__}: {w.message}' for w in caught
            )
            results[key + f'/traj_{tag}_coords_after'] = np.array(traj.coords)

        # 4. derived api: optimise / shift sites using the shapes
        shapes = analyzer.analyze_positions(positions, radius=radius)
        if all(len(s.coords) for s in shapes):
            opt = analyzer.optimize_sites(shapes)
            results[key + '/optimized'] = [np.array(s.frac_coords) for s in opt.sites]
            opt2 = analyzer.optimize_sites(shapes, func=lambda s: np.median(s.coords, axis=0))
            results[key + '/optimized_median'] = [np.array(s.frac_coords) for s in opt2.sites]
        vectors = [None if k % 2 else [0.01, -0.02, 0.03] for k in range(len(analyzer.sites))]
        for cart in (True, False):
            shifted = analyzer.shift_sites(vectors, coords_are_cartesian=cart)
            results[key + f'/shifted_{cart}'] = [np.array(s.frac_coords) for s in shifted.sites]
            results[key + f'/shifted_{cart}_labels'] = [s.label for s in shifted.sites]

    # 5. the unit-test style input (P-1, identity-like cell)
    lattice = Lattice.cubic(1.0)
    from pymatgen.core import PeriodicSite

    an = ShapeAnalyzer(
        sites=[PeriodicSite('Li', [0.1, 0.2, 0.3], lattice, label='A')],
        lattice=lattice,
        spacegroup=SpaceGroup('P-1'),
    )
    pos = np.array([[0.11, 0.21, 0.31], [0.89, 0.79, 0.69], [0.5, 0.5, 0.5]])
    results['unit/P-1'] = _shape_record(an.analyze_positions(pos, radius=0.1))
    results['unit/P-1_listsites_empty'] = _shape_record(
        ShapeAnalyzer(sites=[], lattice=lattice, spacegroup=SpaceGroup('P-1')).analyze_positions(pos)
    )

    with open(outfile, 'wb') as fh:
        pickle.dump(results, fh)


# --------------------------------------------------------------------------------------
# driver: run both implementations and compare
# --------------------------------------------------------------------------------------
class Cmp:
    def __init__(self):
        self.n = 0
        self.n_arrays = 0
        self.bitwise = True
        self.maxdiff = 0.0
        self.errors = []

    def compare(self, path, a, b):
        self.n += 1
        if isinstance(a, np.ndarray) or isinstance(b, np.ndarray):
            self.n_arrays += 1
            if not (isinstance(a, np.ndarray) and isinstance(b, np.ndarray)):
                self.errors.append(f'{path}: type {type(a)} vs {type(b)}')
                return
            if a.shape != b.shape or a.dtype != b.dtype:
                self.errors.append(f'{path}: shape/dtype {a.shape}{a.dtype} vs {b.shape}{b.dtype}')
                return
            if not np.array_equal(a, b, equal_nan=True):
                self.bitwise = False
                diff = float(np.max(np.abs(a - b))) if a.size else 0.0
                self.maxdiff = max(self.maxdiff, diff)
                if not diff <= TOL:
                    self.errors.append(f'{path}: max abs diff {diff:.3e}')
        elif isinstance(a, dict) and isinstance(b, dict):
            if set(a) != set(b):
                self.errors.append(f'{path}: keys differ {sorted(set(a) ^ set(b))}')
                return
            for k in a:
                self.compare(f'{path}/{k}', a[k], b[k])
        elif isinstance(a, (list, tuple)) and isinstance(b, (list, tuple)):
            if len(a) != len(b):
                self.errors.append(f'{path}: length {len(a)} vs {len(b)}')
                return
            for i, (x, y) in enumerate(zip(a, b)):
                self.compare(f'{path}[{i}]', x, y)
        elif isinstance(a, float) and isinstance(b, float):
            if a != b and not abs(a - b) <= TOL:
                self.errors.append(f'{path}: {a!r} vs {b!r}')
        else:
            if type(a) is not type(b) or a != b:
                self.errors.append(f'{path}: {a!r} vs {b!r}')


def run_worker(src, outfile):
    env = dict(os.environ)
    env['PYTHONPATH'] = src
    env['PYTHONHASHSEED'] = '0'
    proc = subprocess.run(
        [sys.executable, os.path.abspath(__file__), '--worker', outfile],
        env=env,
        cwd=tempfile.gettempdir(),
        capture_output=True,
        text=True,
    )
    if proc.returncode != 0:
        print(proc.stdout)
        print(proc.stderr)
        raise SystemExit(f'worker failed for {src}')
    with open(outfile, 'rb') as fh:
        return pickle.load(fh)


def _twin_source(td):
    """Return the src dir holding the refactored code.

    Normally this is the worktree with the patch applied.  If the worktree is clean (its
    gemdat/shape.py equals the original) and patch.diff lies next to this script, a private copy of
    the original sources is patched in a temporary directory instead, so that the test never
    degenerates into comparing the original with itself.
    """
    import filecmp
    import shutil

    patch = os.path.join(os.path.dirname(os.path.abspath(__file__)), 'patch.diff')
    rel = os.path.join('gemdat', 'shape.py')
    worktree_is_clean = filecmp.cmp(
        os.path.join(ORIG_SRC, rel), os.path.join(TWIN_SRC, rel), shallow=False
    )
    if 'TWIN_SRC' in os.environ or not worktree_is_clean or not os.path.exists(patch):
        return TWIN_SRC
    root = os.path.join(td, 'patched')
    shutil.copytree(
        os.path.join(ORIG_SRC, 'gemdat'),
        os.path.join(root, 'src', 'gemdat'),
        ignore=shutil.ignore_patterns('__pycache__'),
    )
    subprocess.run(['git', 'apply', '--unsafe-paths', patch], cwd=root, check=True)
    print('worktree is clean -> using a temporary patched copy of the original sources')
    return os.path.join(root, 'src')


def main():
    with tempfile.TemporaryDirectory() as td:
        twin_src = _twin_source(td)
        res_orig = run_worker(ORIG_SRC, os.path.join(td, 'orig.pkl'))
        res_twin = run_worker(twin_src, os.path.join(td, 'twin.pkl'))

    f_orig, f_twin = res_orig.pop('__file__'), res_twin.pop('__file__')
    print('original  :', f_orig)
    print('refactored:', f_twin)
    if not f_orig.startswith(ORIG_SRC) or not f_twin.startswith(twin_src):
        raise SystemExit('wrong gemdat imported')

    n_cases = len({k.split('/')[0] for k in res_orig})
    n_points = sum(
        len(v) for k, v in res_orig.items() if '/fep' in k and isinstance(v, np.ndarray)
    )
    cmp = Cmp()
    cmp.compare('', res_orig, res_twin)
    print(
        f'cases={n_cases} compared_values={cmp.n} arrays={cmp.n_arrays} '
        f'collected_points={n_points} bitwise_identical={cmp.bitwise} maxdiff={cmp.maxdiff:.3e}'
    )
    if n_cases < 20 or n_points == 0:
        raise SystemExit('test did not exercise enough inputs')
    if cmp.errors:
        for e in cmp.errors[:40]:
            print('DIFF', e)
        raise SystemExit(1)
    print('EQUIVALENT')


if __name__ == '__main__':
    if len(sys.argv) == 3 and sys.argv[1] == '--worker':
        worker(sys.argv[2])
    else:
        main()
