"""Differential test: original gemdat.collective (from /repo/src) vs refactored one (worktree).

Drives `Collective` directly with synthetic jump tables / site structures / lattices,
compares every public result bit-for-bit.  Exits non-zero on the first difference.
"""

from __future__ import annotations

import importlib.util
import os
import sys
from types import SimpleNamespace

NEW_SRC = os.environ.get('GEMDAT_NEW_SRC', '/tmp/wtt_C12/src')
ORIG_FILE = os.environ.get('GEMDAT_ORIG_FILE', '/repo/src/gemdat/collective.py')
sys.path.insert(0, NEW_SRC)

import numpy as np  # noqa: E402
import pandas as pd  # noqa: E402
from pymatgen.core import Lattice, Structure  # noqa: E402

import gemdat.collective as new_mod  # noqa: E402

assert os.path.realpath(new_mod.__file__).startswith(os.path.realpath(NEW_SRC)), new_mod.__file__

# original implementation, loaded under another name inside the same package so that
# its relative import of `.caching` (an untouched file) resolves.
_spec = importlib.util.spec_from_file_location('gemdat._collective_orig', ORIG_FILE)
orig_mod = importlib.util.module_from_spec(_spec)
sys.modules['gemdat._collective_orig'] = orig_mod
_spec.loader.exec_module(orig_mod)
assert os.path.realpath(orig_mod.__file__) == os.path.realpath(ORIG_FILE)

COLUMNS = ['atom index', 'start site', 'destination site', 'start time', 'stop time']


def random_rotation(rng):
    q, r = np.linalg.qr(rng.normal(size=(3, 3)))
    q = q * np.sign(np.diag(r))
    if np.linalg.det(q) < 0:
        q[:, 0] = -q[:, 0]
    return q


def random_lattice(rng, kind):
    if kind == 'cubic':
        return Lattice.cubic(rng.uniform(1.5, 6.0))
    if kind == 'ortho':
        return Lattice.orthorhombic(*rng.uniform(1.5, 7.0, size=3))
    if kind == 'triclinic':
        while True:
            abc = rng.uniform(2.0, 7.0, size=3)
            ang = rng.uniform(60, 120, size=3)
            try:
                lat = Lattice.from_parameters(*abc, *ang)
            except Exception:
                continue
            if np.isfinite(lat.matrix).all() and lat.volume > 1.0:
                return lat
    if kind == 'rotated':
        base = random_lattice(rng, 'triclinic')
        return Lattice(base.matrix @ random_rotation(rng).T)
    if kind == 'hexagonal':
        return Lattice.hexagonal(rng.uniform(2, 5), rng.uniform(3, 9))
    raise ValueError(kind)


KINDS = ['cubic', 'ortho', 'triclinic', 'rotated', 'hexagonal']


def random_sites(rng, lattice, n_sites):
    frac = rng.uniform(0, 1, size=(n_sites, 3))
    mode = rng.integers(0, 4)
    if mode == 1:
        # sites hugging the cell faces, so that the minimum image matters
        frac = np.where(rng.uniform(size=frac.shape) < 0.5, frac * 0.04, 1 - frac * 0.04)
    elif mode == 2:
        # unwrapped coordinates (outside [0, 1))
        frac = frac + rng.integers(-2, 3, size=frac.shape)
    elif mode == 3 and n_sites > 1:
        # clusters of near-coincident sites
        frac[1::2] = frac[0::2][: len(frac[1::2])] + rng.normal(scale=0.02, size=frac[1::2].shape)
    labels = [str(rng.choice(['A', 'B', 'C'][: rng.integers(1, 4)])) for _ in range(n_sites)]
    return Structure(
        lattice, ['Li'] * n_sites, frac, labels=labels, to_unit_cell=False, coords_are_cartesian=False
    )


def random_jumps(rng, n_jumps, n_sites, n_atoms, horizon):
    atom = rng.integers(0, n_atoms, size=n_jumps)
    start_site = rng.integers(0, n_sites, size=n_jumps)
    dest_site = rng.integers(0, n_sites, size=n_jumps)
    start = rng.integers(0, horizon, size=n_jumps)
    style = rng.integers(0, 4)
    if style == 0:
        transit = np.ones(n_jumps, dtype=int)
    elif style == 1:
        transit = rng.integers(1, 5, size=n_jumps)
    elif style == 2:
        # a few very long transits overlapping many other jumps
        transit = rng.integers(1, 4, size=n_jumps)
        long_ones = rng.uniform(size=n_jumps) < 0.3
        transit[long_ones] = rng.integers(horizon // 2 + 1, 2 * horizon + 2, size=long_ones.sum())
    else:
        transit = rng.integers(1, horizon + 1, size=n_jumps)
    stop = start + transit
    if n_jumps > 2 and rng.uniform() < 0.5:
        # force ties in the stop time / identical rows
        stop[1] = stop[0]
        start[2], stop[2] = start[0], stop[0]
    df = pd.DataFrame(
        {
            'atom index': atom,
            'start site': start_site,
            'destination site': dest_site,
            'start time': start,
            'stop time': stop,
        },
        columns=COLUMNS,
    )
    if n_jumps and rng.uniform() < 0.3:
        # non-default row index, as left by filtering in the jump conversion
        df.index = rng.permutation(n_jumps) + 3
    return df


def series_same(a, b):
    return (
        type(a) is type(b)
        and a.dtype == b.dtype
        and a.name == b.name
        and type(a.name) is type(b.name)
        and list(a.index) == list(b.index)
        and a.equals(b)
    )


def scalar_same(a, b):
    return type(a) is type(b) and a == b


def nested_same(a, b):
    if isinstance(a, (tuple, list)):
        return type(a) is type(b) and len(a) == len(b) and all(nested_same(x, y) for x, y in zip(a, b))
    return scalar_same(a, b)


def array_same(a, b):
    return (
        isinstance(a, np.ndarray)
        and isinstance(b, np.ndarray)
        and a.dtype == b.dtype
        and a.shape == b.shape
        and np.array_equal(a, b)
    )


def call(func):
    try:
        return ('ok', func())
    except Exception as exc:  # noqa: BLE001
        return ('exc', type(exc))


def reference_pairs(df, sites, lattice, max_steps, max_dist):
    """Independent brute-force statement of property C12 (positions in sorted table)."""
    ev = df.sort_values(['stop time', 'start time'], ignore_index=True)
    out = set()
    for i in range(len(ev)):
        for j in range(i + 1, len(ev)):
            ei, ej = ev.iloc[i], ev.iloc[j]
            if ei['atom index'] == ej['atom index']:
                continue
            if ej['start time'] - ei['stop time'] > max_steps:
                continue
            if ei['start time'] - ej['stop time'] > max_steps:
                continue
            a = sites.frac_coords[[ei['start site'], ei['destination site']]]
            b = sites.frac_coords[[ej['start site'], ej['destination site']]]
            if (lattice.get_all_distances(a, b) < max_dist).any():
                out.add((i, j))
    return out


def compare_case(tag, df, sites, lattice, max_steps, max_dist, check_reference=True):
    results = []
    for mod in (orig_mod, new_mod):
        jumps = SimpleNamespace(data=df.copy(deep=True))
        results.append(
            call(
                lambda: mod.Collective(
                    jumps=jumps, sites=sites, lattice=lattice, max_steps=max_steps, max_dist=max_dist
                )
            )
        )
        # the input table must not be modified
        assert jumps.data.equals(df) and list(jumps.data.index) == list(df.index), f'{tag}: input mutated'
    (s0, c0), (s1, c1) = results
    if s0 != s1:
        return f'{tag}: constructor outcome differs: {results}'
    if s0 == 'exc':
        return None if c0 is c1 else f'{tag}: exception types differ {c0} {c1}'

    for name in ('n_solo_jumps', 'n_coll_jumps'):
        if not scalar_same(getattr(c0, name), getattr(c1, name)):
            return f'{tag}: {name}: {getattr(c0, name)!r} vs {getattr(c1, name)!r}'
    if not nested_same(c0.coll_jumps, c1.coll_jumps):
        return f'{tag}: coll_jumps differ\n{c0.coll_jumps}\n{c1.coll_jumps}'
    if type(c0.collective) is not type(c1.collective) or len(c0.collective) != len(c1.collective):
        return f'{tag}: collective length/type differ'
    for p0, p1 in zip(c0.collective, c1.collective):
        if type(p0) is not type(p1) or len(p0) != len(p1):
            return f'{tag}: collective pair type differs'
        if not all(series_same(x, y) for x, y in zip(p0, p1)):
            return f'{tag}: collective pair differs\n{p0}\n{p1}'
    for name in ('max_steps', 'max_dist'):
        if not scalar_same(getattr(c0, name), getattr(c1, name)):
            return f'{tag}: attribute {name} differs'
    if c0.sites is not c1.sites or c0.lattice is not c1.lattice:
        return f'{tag}: stored sites/lattice differ'

    l0, l1 = call(c0.site_pair_count_matrix_labels), call(c1.site_pair_count_matrix_labels)
    if l0 != l1:
        return f'{tag}: site_pair_count_matrix_labels differ\n{l0}\n{l1}'
    m0, m1 = call(c0.site_pair_count_matrix), call(c1.site_pair_count_matrix)
    if m0[0] != m1[0]:
        return f'{tag}: site_pair_count_matrix outcome differs {m0} {m1}'
    if m0[0] == 'exc':
        if m0[1] is not m1[1]:
            return f'{tag}: site_pair_count_matrix exception differs {m0} {m1}'
    elif not array_same(m0[1], m1[1]):
        return f'{tag}: site_pair_count_matrix differs\n{m0[1]}\n{m1[1]}'
    u0, u1 = call(c0.multiple_collective), call(c1.multiple_collective)
    if u0[0] != u1[0]:
        return f'{tag}: multiple_collective outcome differs {u0} {u1}'
    if u0[0] == 'exc':
        if u0[1] is not u1[1]:
            return f'{tag}: multiple_collective exception differs {u0} {u1}'
    else:
        if not (type(u0[1]) is type(u1[1]) and len(u0[1]) == len(u1[1]) == 2):
            return f'{tag}: multiple_collective return type differs'
        if not (array_same(u0[1][0], u1[1][0]) and array_same(u0[1][1], u1[1][1])):
            return f'{tag}: multiple_collective differs\n{u0[1]}\n{u1[1]}'

    if check_reference:
        ref = reference_pairs(df, sites, lattice, max_steps, max_dist)
        got = [(int(a.name), int(b.name)) for a, b in c1.collective]
        if len(got) != len(set(got)) or set(got) != ref:
            return f'{tag}: refactored result violates the brute-force statement of C12'
        members = {k for pair in ref for k in pair}
        if c1.n_coll_jumps != len(members) or c1.n_solo_jumps + c1.n_coll_jumps != len(df):
            return f'{tag}: solo/collective counts inconsistent'
    return None


def boundary_distance(rng, df, sites, lattice):
    """A cut-off exactly equal to an occurring site-site distance (tests strict `<`)."""
    if len(df) < 2:
        return 1.0
    i, j = rng.choice(len(df), size=2, replace=False)
    a = sites.frac_coords[[df['start site'].iloc[i], df['destination site'].iloc[i]]]
    b = sites.frac_coords[[df['start site'].iloc[j], df['destination site'].iloc[j]]]
    d = lattice.get_all_distances(a, b)
    return float(d.flat[rng.integers(0, d.size)])


def main(n_random=120, seed=12012):
    rng = np.random.default_rng(seed)
    failures = []
    n_cases = 0
    n_pairs_total = 0

    def run(tag, df, sites, lattice, max_steps, max_dist):
        nonlocal n_cases
        n_cases += 1
        msg = compare_case(tag, df, sites, lattice, max_steps, max_dist)
        if msg:
            failures.append(msg)
            print('DIFF', msg)

    for k in range(n_random):
        kind = KINDS[k % len(KINDS)]
        lattice = random_lattice(rng, kind)
        n_sites = int(rng.integers(1, 9))
        sites = random_sites(rng, lattice, n_sites)
        n_jumps = int(rng.choice([0, 1, 2, 3, 5, 8, 13, 21, 30]))
        n_atoms = int(rng.integers(1, 6))
        horizon = int(rng.choice([3, 10, 40, 200]))
        df = random_jumps(rng, n_jumps, n_sites, n_atoms, horizon)
        max_steps = [0, 1, int(rng.integers(0, horizon + 1)), 10 * horizon, float(rng.uniform(0, horizon))][k % 5]
        max_dist = [
            1.0,
            0.0,
            float(rng.uniform(0.05, 3.0)),
            100.0,
            boundary_distance(rng, df, sites, lattice),
            float(np.nextafter(boundary_distance(rng, df, sites, lattice), np.inf)),
        ][k % 6]
        run(f'random[{k}:{kind}:n={n_jumps}]', df, sites, lattice, max_steps, max_dist)

    # hand-made boundary cases -------------------------------------------------
    lat = Lattice.from_parameters(3.0, 4.0, 5.0, 75.0, 95.0, 110.0)
    sites = Structure(lat, ['Li'] * 4, [[0.01, 0.5, 0.5], [0.99, 0.5, 0.5], [0.5, 0.02, 0.98], [0.5, 0.98, 0.02]],
                      labels=['A', 'A', 'B', 'B'])

    def table(rows):
        return pd.DataFrame(rows, columns=COLUMNS)

    # same atom only -> nothing collective
    run('same-atom', table([[0, 0, 1, 0, 1], [0, 1, 0, 1, 2], [0, 0, 1, 2, 3]]), sites, lat, 5, 10.0)
    # exactly at the window (difference == max_steps is still correlated)
    run('window-edge', table([[0, 0, 1, 0, 1], [1, 1, 0, 6, 7], [2, 2, 3, 7, 8]]), sites, lat, 5, 10.0)
    # a long transit that stops last but starts first
    run('long-transit', table([[0, 0, 1, 0, 100], [1, 1, 0, 3, 4], [2, 2, 3, 50, 51], [3, 3, 2, 98, 99]]), sites, lat, 2, 10.0)
    # across the periodic boundary only
    run('min-image', table([[0, 0, 0, 0, 1], [1, 1, 1, 0, 1]]), sites, lat, 1, 0.1)
    run('min-image-miss', table([[0, 0, 0, 0, 1], [1, 1, 1, 0, 1]]), sites, lat, 1, 0.05)
    # empty / single tables
    run('empty', table([]).astype(int), sites, lat, 3, 1.0)
    run('single', table([[0, 0, 1, 0, 1]]), sites, lat, 3, 1.0)
    # negative site index (numpy wrap-around indexing of the site table)
    run('negative-site', table([[0, -1, 1, 0, 1], [1, 2, -1, 0, 1], [2, 3, 0, 1, 2]]), sites, lat, 3, 2.0)
    # out-of-range site index -> both must fail the same way
    run('bad-site', table([[0, 0, 9, 0, 1], [1, 1, 0, 0, 1]]), sites, lat, 3, 2.0)
    # negative window, infinite window
    run('neg-window', table([[0, 0, 1, 0, 1], [1, 1, 0, 0, 1], [2, 2, 3, 5, 6]]), sites, lat, -1, 10.0)
    run('inf-window', table([[0, 0, 1, 0, 1], [1, 1, 0, 0, 1], [2, 2, 3, 5000, 6000]]), sites, lat, float('inf'), 10.0)
    # mixed column dtypes (float times) -> row series become float
    mixed = table([[0, 0, 1, 0, 1], [1, 1, 0, 0, 1], [2, 2, 3, 1, 2]]).astype({'start time': float, 'stop time': float})
    run('float-times', mixed, sites, lat, 1, 10.0)
    # extra columns are carried along
    extra = table([[0, 0, 1, 0, 1], [1, 1, 0, 0, 1], [2, 2, 3, 1, 2]])
    extra['note'] = [7, 8, 9]
    run('extra-column', extra, sites, lat, 1, 10.0)
    # a non-numeric extra column turns the value table into dtype=object
    objcol = table([[0, 0, 1, 0, 1], [1, 1, 0, 0, 1], [2, 2, 3, 1, 2], [2, 3, 2, 2, 3]])
    objcol['tag'] = ['p', 'q', 'r', 's']
    run('object-column', objcol, sites, lat, 1, 10.0)
    # bad site index in a jump that has no time-correlated partner: must NOT fail
    run('bad-site-uncorrelated', table([[0, 0, 9, 0, 1], [1, 1, 0, 50, 51], [2, 2, 3, 51, 52]]), sites, lat, 3, 10.0)
    run('bad-site-same-atom', table([[0, 0, 9, 0, 1], [0, 1, 0, 1, 2]]), sites, lat, 3, 10.0)
    # many simultaneous jumps: every pair of different atoms
    many = table([[a, a % 4, (a + 1) % 4, 0, 1] for a in range(9)])
    run('all-simultaneous', many, sites, lat, 0, 50.0)

    print(f'cases={n_cases} failures={len(failures)}')
    return 1 if failures else 0


if __name__ == '__main__':
    sys.exit(main())
