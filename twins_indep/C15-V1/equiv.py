"""Differential test for refactoring 1 (C15): Trajectory.filter / drift / apply_drift_correction.

Runs the same randomised scenario script twice in subprocesses - once with PYTHONPATH=/repo/src (original,
read-only) and once with PYTHONPATH=/tmp/wtu_C15/src (refactored) - and compares every recorded value exactly.
"""
import os
import pickle
import subprocess
import sys
import tempfile

import numpy as np

ORIG = '/repo/src'
NEW = '/tmp/wtu_C15/src'
N_CASES = 40


def worker(out):
    import warnings

    warnings.filterwarnings('ignore')
    import gemdat
    from gemdat import Trajectory
    from pymatgen.core import Element, Lattice, Species

    assert gemdat.__file__.startswith(os.environ['EXPECT_ROOT']), gemdat.__file__

    def snap(t):
        """Everything observable about a trajectory, without changing its representation first."""
        d = {
            'cls': type(t).__name__,
            'mode_before': bool(t.coords_are_displacement),
            'raw': np.array(t.coords),
            'species': [repr(s) for s in t.species],
            'lattice': np.array(t.get_lattice().matrix),
            'time_step': t.time_step,
            'metadata': repr(sorted(t.metadata.items())),
            'base': np.array(t.base_positions),
        }
        d['positions'] = np.array(t.positions)
        d['displacements'] = np.array(t.displacements)
        d['positions2'] = np.array(t.positions)
        return d

    def attempt(f):
        try:
            return f()
        except Exception as e:  # noqa
            return ('EXC', type(e).__name__)

    def random_lattice(rng, kind):
        if kind == 0:
            return Lattice.cubic(rng.uniform(4, 9))
        if kind == 1:
            return Lattice.from_parameters(*rng.uniform(4, 9, 3), *rng.uniform(62, 118, 3))
        # rotated triclinic cell
        base = Lattice.from_parameters(*rng.uniform(4, 9, 3), *rng.uniform(70, 110, 3)).matrix
        q, _ = np.linalg.qr(rng.normal(size=(3, 3)))
        return Lattice(base @ q)

    pool = [Element('Li'), Element('S'), Element('Si'), Element('I'), Species('Na', 1), Species('O', -2),
            Element('P'), Species('Li', 1)]

    results = []
    for case in range(N_CASES):
        rng = np.random.default_rng(1000 + case)
        n_sp = int(rng.integers(1, 6))
        chosen = [pool[i] for i in rng.choice(len(pool), size=n_sp, replace=False)]
        n_atoms = int(rng.integers(1, 9))
        species = [chosen[i] for i in rng.integers(0, n_sp, n_atoms)]
        n_frames = int(rng.integers(1, 12))
        start = rng.uniform(-0.2, 1.2, (1, n_atoms, 3))
        steps = rng.normal(0, 0.08, (n_frames, n_atoms, 3))
        coords = start + np.cumsum(steps, axis=0)  # walks across the cell faces
        if case % 5 == 0:
            coords[0, 0] = [0.0, 1.0, -1e-17]  # boundary values
        lattice = random_lattice(rng, case % 3)
        meta = {'temperature': float(rng.integers(100, 900)), 'tag': case}

        def make():
            kind = case % 4
            if kind == 3:
                t0 = Trajectory(species=list(species), coords=coords.copy(), lattice=lattice, time_step=1e-15)
                disp = np.array(t0.displacements)
                return Trajectory(species=list(species), coords=disp, lattice=lattice, time_step=2e-15,
                                  metadata=dict(meta), coords_are_displacement=True,
                                  base_positions=coords[0].copy())
            t = Trajectory(species=list(species), coords=coords.copy(), lattice=lattice, time_step=2e-15,
                           metadata=dict(meta))
            if kind == 1:
                t.displacements  # put the source in displacement representation
            if kind == 2:
                t.positions
            return t

        symbols = sorted({s.symbol for s in species})
        absent = 'Xe'
        selections = [
            symbols[0],
            [symbols[-1]],
            tuple(symbols),
            set(symbols[:2]),
            [],
            absent,
            [absent, symbols[0]],
            {symbols[0]: 1.0},
            'Si',  # as a floating_species string this is a substring test: 'S' in 'Si'
            'LiNa',
        ]
        rec = {}
        for k, sel in enumerate(selections):
            # filter
            t = make()
            rec[f'filter{k}'] = attempt(lambda: snap(t.filter(sel)))
            rec[f'filter{k}_src'] = snap(t)
            # filter of a filter / of a slice
            t = make()
            rec[f'filter{k}_slice'] = attempt(lambda: snap(t[1:][::2].filter(sel)) if len(t) > 1 else None)
            # drift with fixed / floating
            t = make()
            rec[f'drift_fixed{k}'] = attempt(lambda: np.array(t.drift(fixed_species=sel)))
            rec[f'drift_fixed{k}_src'] = snap(t)
            t = make()
            rec[f'drift_float{k}'] = attempt(lambda: np.array(t.drift(floating_species=sel)))
            rec[f'drift_float{k}_src'] = snap(t)
            t = make()
            rec[f'adc_fixed{k}'] = attempt(lambda: snap(t.apply_drift_correction(fixed_species=sel)))
            rec[f'adc_fixed{k}_src'] = snap(t)
            t = make()
            rec[f'adc_float{k}'] = attempt(lambda: snap(t.apply_drift_correction(floating_species=sel)))
            rec[f'adc_float{k}_src'] = snap(t)
        t = make()
        rec['drift_all'] = np.array(t.drift())
        rec['adc_all'] = snap(t.apply_drift_correction())
        rec['adc_all_src'] = snap(t)
        # chained read-only queries, then select
        t = make()
        t.distances_from_base_position()
        t.mean_squared_displacement()
        rec['after_queries'] = snap(t.filter(symbols[0]))
        # both arguments at once: fixed wins
        t = make()
        rec['both'] = attempt(lambda: np.array(t.drift(fixed_species=symbols[0], floating_species=symbols[-1])))
        # non Element/Species entries in the species list -> AssertionError
        com = make().center_of_mass()
        rec['com_filter'] = attempt(lambda: snap(com.filter('X')))
        rec['com_drift'] = attempt(lambda: np.array(com.drift(floating_species='Li')))
        rec['com_drift_all'] = attempt(lambda: np.array(com.drift()))
        # returned object types
        t = make()
        sub = t.filter(symbols[0])
        rec['types'] = (type(sub.species).__name__, type(sub.coords).__name__, str(sub.coords.dtype),
                        sub.metadata is t.metadata, type(t.drift()).__name__)
        results.append(rec)

    with open(out, 'wb') as f:
        pickle.dump(results, f)


def same(a, b, path, errors):
    if type(a) is not type(b):
        errors.append(f'{path}: type {type(a)} != {type(b)}')
    elif isinstance(a, dict):
        if a.keys() != b.keys():
            errors.append(f'{path}: keys differ')
            return
        for k in a:
            same(a[k], b[k], f'{path}/{k}', errors)
    elif isinstance(a, (list, tuple)):
        if len(a) != len(b):
            errors.append(f'{path}: len differ')
            return
        for i, (x, y) in enumerate(zip(a, b)):
            same(x, y, f'{path}[{i}]', errors)
    elif isinstance(a, np.ndarray):
        if a.shape != b.shape or a.dtype != b.dtype or not np.array_equal(a, b, equal_nan=True):
            errors.append(f'{path}: arrays differ {a.shape} {b.shape}')
    elif a != b:
        errors.append(f'{path}: {a!r} != {b!r}')


def main():
    outs = []
    with tempfile.TemporaryDirectory() as td:
        for name, root in (('orig', ORIG), ('new', NEW)):
            out = os.path.join(td, name + '.pkl')
            env = dict(os.environ, PYTHONPATH=root, EXPECT_ROOT=root)
            subprocess.run([sys.executable, __file__, '--worker', out], env=env, check=True)
            with open(out, 'rb') as f:
                outs.append(pickle.load(f))
    errors = []
    same(outs[0], outs[1], '', errors)
    n_values = sum(len(r) for r in outs[0])
    n_exc = sum(1 for r in outs[0] for v in r.values() if isinstance(v, tuple) and v and v[0] == 'EXC')
    print(f'cases={len(outs[0])} recorded={n_values} exceptions_recorded={n_exc} differences={len(errors)}')
    for e in errors[:20]:
        print('  DIFF', e)
    sys.exit(1 if errors else 0)


if __name__ == '__main__':
    if len(sys.argv) == 3 and sys.argv[1] == '--worker':
        worker(sys.argv[2])
    else:
        main()
