"""Differential test for a behaviour-preserving refactoring of gemdat.transitions (property C02).

The ORIGINAL implementation is the committed HEAD of the worktree (extracted with `git archive`
into a temporary directory; override with ORIG_SRC=<dir containing gemdat/>), the REFACTORED
implementation is the working copy of the worktree (override the worktree with WT=<path>).
The same randomised cases are run in two subprocesses (one per PYTHONPATH) and the pickled
results are compared exactly.  Exit status 0 = identical, 1 = difference / failure.
"""
from __future__ import annotations

import io
import os
import pickle
import subprocess
import sys
import tarfile
import tempfile

WT = os.environ.get('WT', '/tmp/wtu_C02')
FOCUS = 'radius'  # which group of cases gets the most repetitions
SEED = 20022


# --------------------------------------------------------------------------- worker
def worker(out_path: str) -> None:
    import warnings

    import numpy as np
    from pymatgen.core import Element, Lattice, Structure

    import gemdat
    from gemdat import Trajectory
    from gemdat import transitions as T

    assert os.path.realpath(gemdat.__file__).startswith(os.path.realpath(os.environ['EXPECT_ROOT'])), gemdat.__file__

    rng = np.random.default_rng(SEED)

    def random_rotation():
        q, r = np.linalg.qr(rng.normal(size=(3, 3)))
        q = q * np.sign(np.diag(r))
        if np.linalg.det(q) < 0:
            q[:, 0] = -q[:, 0]
        return q

    def random_lattice(kind):
        a, b, c = rng.uniform(6.0, 11.0, size=3)
        if kind == 'cubic':
            lat = Lattice.cubic(a)
        elif kind == 'ortho':
            lat = Lattice.orthorhombic(a, b, c)
        elif kind == 'hex':
            lat = Lattice.hexagonal(a, c)
        elif kind == 'tric':
            al, be, ga = rng.uniform(62.0, 118.0, size=3)
            lat = Lattice.from_parameters(a, b, c, al, be, ga)
        elif kind == 'rot':
            al, be, ga = rng.uniform(70.0, 110.0, size=3)
            lat = Lattice(Lattice.from_parameters(a, b, c, al, be, ga).matrix @ random_rotation())
        elif kind == 'lower':  # a not along x: permuted rows/columns of a triclinic cell
            al, be, ga = rng.uniform(70.0, 110.0, size=3)
            m = Lattice.from_parameters(a, b, c, al, be, ga).matrix
            lat = Lattice(m[:, ::-1].copy())
        else:
            raise AssertionError(kind)
        return lat

    KINDS = ['cubic', 'ortho', 'hex', 'tric', 'rot', 'lower']

    def random_sites(lat, n_sites, labels, min_sep):
        special = [0.0, 0.5, 1.0 - 1e-9, 1e-9, 0.25]
        coords = []
        tries = 0
        while len(coords) < n_sites and tries < 5000:
            tries += 1
            if rng.random() < 0.4:
                fc = rng.choice(special, size=3)
            else:
                fc = rng.random(3)
            if coords:
                d = lat.get_all_distances(np.array([fc]), np.array(coords))
                if d.min() < min_sep:
                    continue
            coords.append(fc)
        labs = [labels[i % len(labels)] for i in range(len(coords))]
        return Structure(lat, ['Li'] * len(coords), coords, labels=labs)

    def random_trajectory(lat, sites, n_frames, n_li, wrap):
        site_fc = sites.frac_coords
        n_fixed = 2
        inv = lat.inv_matrix
        pos = np.empty((n_frames, n_li + n_fixed, 3))
        for j in range(n_li):
            mode = rng.integers(0, 3)
            if mode == 0:  # vibrate around one site, occasionally hop
                cur = rng.integers(0, len(site_fc))
                for t in range(n_frames):
                    if rng.random() < 0.15:
                        cur = rng.integers(0, len(site_fc))
                    cart = rng.normal(scale=rng.choice([0.1, 0.4, 0.9]), size=3)
                    pos[t, j] = site_fc[cur] + cart @ inv
            elif mode == 1:  # random walker crossing cell faces
                p = rng.random(3)
                for t in range(n_frames):
                    p = p + rng.normal(scale=0.5, size=3) @ inv
                    pos[t, j] = p
            else:  # sit close to the site radius of a site
                cur = rng.integers(0, len(site_fc))
                for t in range(n_frames):
                    v = rng.normal(size=3)
                    v = v / np.linalg.norm(v) * rng.uniform(0.2, 1.6)
                    pos[t, j] = site_fc[cur] + v @ inv
        for j in range(n_fixed):
            base = rng.random(3)
            pos[:, n_li + j] = base + rng.normal(scale=0.002, size=(n_frames, 3))
        if wrap:
            pos = pos % 1.0
        species = [Element('Li')] * n_li + [Element('S')] * n_fixed
        return Trajectory(
            species=species,
            coords=pos,
            lattice=lat.matrix,
            time_step=1e-15,
            metadata={'temperature': 300},
            constant_lattice=True,
        )

    def pack(x):
        import pandas as pd

        if isinstance(x, np.ndarray):
            return ('ndarray', str(x.dtype), x.shape, x.tobytes())
        if isinstance(x, pd.DataFrame):
            return ('frame', list(x.columns), [str(d) for d in x.dtypes], pack(x.to_numpy()))
        if isinstance(x, (float, np.floating)):
            return ('float', float(x).hex(), type(x).__name__)
        if isinstance(x, (tuple, list)):
            return (type(x).__name__, [pack(i) for i in x])
        if isinstance(x, dict):
            return ('dict', [(k, pack(v)) for k, v in x.items()])
        return ('obj', repr(x))

    def run(fn):
        with warnings.catch_warnings(record=True) as caught:
            warnings.simplefilter('always')
            try:
                res = ('OK', pack(fn()))
            except Exception as exc:  # noqa: BLE001
                res = ('EXC', type(exc).__name__, str(exc))
        msgs = [(w.category.__name__, str(w.message)) for w in caught if issubclass(w.category, UserWarning)]
        return res, msgs

    records = []

    def make_radius(sites, labels, style):
        if style == 'float':
            return float(rng.uniform(0.5, 1.3))
        if style == 'npfloat':
            return np.float64(rng.uniform(0.5, 1.3))
        if style == 'dict':
            return {lab: float(rng.uniform(0.3, 1.4)) for lab in labels}
        if style == 'dict_partial':  # only some labels; order reversed
            return {lab: float(rng.uniform(0.3, 1.4)) for lab in labels[::-1][: max(1, len(labels) - 1)]}
        if style == 'dict_tiny':  # one group is never visited -> warning
            d = {lab: float(rng.uniform(0.5, 1.2)) for lab in labels}
            d[labels[0]] = 1e-7
            return d
        if style == 'dict_mixed':  # '' (all sites) followed by a per-label override
            return {'': float(rng.uniform(0.4, 0.9)), labels[-1]: float(rng.uniform(0.9, 1.5))}
        if style == 'dict_missing':  # label that does not exist -> error
            return {labels[0]: 0.8, 'nope': 1.0}
        if style == 'dict_empty':
            return {}
        if style == 'int':
            return 1
        if style == 'huge':  # larger than half the cell
            return 25.0
        if style == 'auto':
            return None
        raise AssertionError(style)

    STYLES = ['float', 'npfloat', 'dict', 'dict_partial', 'dict_tiny', 'dict_mixed', 'dict_missing',
              'dict_empty', 'int', 'huge', 'auto']

    def one_case(i, group):
        kind = KINDS[i % len(KINDS)]
        lat = random_lattice(kind)
        labels = ['A', 'B', 'C'][: int(rng.integers(1, 4))]
        n_sites = int(rng.integers(2, 9))
        min_sep = float(rng.choice([0.05, 0.3, 1.2, 2.2]))
        sites = random_sites(lat, n_sites, labels, min_sep)
        traj = random_trajectory(lat, sites, int(rng.integers(3, 25)), int(rng.integers(1, 5)), bool(rng.integers(0, 2)))
        style = STYLES[int(rng.integers(0, len(STYLES)))] if i >= len(STYLES) else STYLES[i]
        radius = make_radius(sites, labels, style)
        frac = float(rng.choice([1.0, 0.9, 0.5, rng.uniform(0.05, 1.0)]))
        tag = (group, i, kind, style, len(sites))

        if group == 'states':
            diff = traj.filter('Li')
            rad = {'': radius} if isinstance(radius, float) else radius
            if rad is None:
                rad = {'': 0.7}
            records.append((tag, 'outer', run(lambda: T._calculate_atom_states(sites=sites, trajectory=diff, site_radius=rad))))
            records.append((tag, 'inner', run(lambda: T._calculate_atom_states(
                sites=sites, trajectory=diff, site_radius=rad, site_inner_fraction=frac))))
            # positional call form
            records.append((tag, 'positional', run(lambda: T._calculate_atom_states(sites, diff, rad, frac))))
        elif group == 'radius':
            if i % 3 == 0:  # force a pair (or two symmetric pairs) of sites that are too close / overlapping
                fc = sites.frac_coords
                d = rng.normal(size=3)
                d = (d / np.linalg.norm(d) * rng.choice([0.05, 0.2, 0.45, 0.8])) @ lat.inv_matrix
                extra = [fc[0] + d] + ([fc[-1] + d] if i % 2 == 0 else [])
                sites = Structure(lat, ['Li'] * (len(fc) + len(extra)), list(fc) + extra,
                                  labels=list(sites.labels) + ['A'] * len(extra))
            amp = float(rng.choice([0.01, 0.1, 0.3, 0.6, 1.5, float('nan')]))
            records.append((tag, 'radius', run(lambda: T._compute_site_radius(
                trajectory=traj, sites=sites, vibration_amplitude=amp))))
            records.append((tag, 'radius_pos', run(lambda: T._compute_site_radius(traj, sites, amp))))
        elif group == 'full':
            def full():
                tr = T.Transitions.from_trajectory(
                    trajectory=traj, sites=sites, floating_specie='Li',
                    site_radius=radius, site_inner_fraction=frac)
                assert tr.sites is sites and tr.trajectory is traj
                return [tr.states, tr.inner_states, tr.events, tr.diff_trajectory.positions,
                        [str(s) for s in tr.diff_trajectory.species], tr.n_floating, tr.n_sites]
            records.append((tag, 'full', run(full)))
        else:
            raise AssertionError(group)

    reps = {'states': 14, 'radius': 14, 'full': 14}
    reps[FOCUS] = 40
    for group in ('states', 'radius', 'full'):
        for i in range(reps[group]):
            one_case(i, group)

    # hand-made boundary cases ------------------------------------------------
    lat = Lattice.from_parameters(7.0, 8.0, 9.0, 75.0, 100.0, 115.0)
    lat = Lattice(lat.matrix @ random_rotation())
    one = Structure(lat, ['Li'], [[0.0, 0.0, 0.0]], labels=['A'])
    corner = Structure(lat, ['Li', 'Li', 'Li'], [[0, 0, 0], [0.5, 0.5, 0.0], [0.0, 0.5, 0.5]], labels=['A', 'B', 'B'])
    close = Structure(lat, ['Li', 'Li', 'Li'], [[0, 0, 0], [0.01, 0.0, 0.0], [0.5, 0.5, 0.5]], labels=['A', 'B', 'B'])
    disordered = Structure(lat, [{'Li': 0.5}], [[0.0, 0.0, 0.0]])
    tj = random_trajectory(lat, corner, 12, 3, False)
    tag = ('manual', 0, 'rot', '-', 0)
    records.append((tag, 'single_site_radius', run(lambda: T._compute_site_radius(tj, one, 0.2))))
    records.append((tag, 'close_radius', run(lambda: T._compute_site_radius(tj, close, 0.2))))
    records.append((tag, 'corner_radius', run(lambda: T._compute_site_radius(tj, corner, 0.2))))
    records.append((tag, 'corner_radius_big', run(lambda: T._compute_site_radius(tj, corner, 5.0))))
    for name, st in (('one', one), ('corner', corner), ('close', close), ('disordered', disordered)):
        for rad in (None, 0.9, {'A': 0.9}, {'B': 0.6, 'A': 1.1}):
            def full(st=st, rad=rad):
                tr = T.Transitions.from_trajectory(trajectory=tj, sites=st, floating_specie='Li',
                                                   site_radius=rad, site_inner_fraction=0.7)
                return [tr.states, tr.inner_states, tr.events]
            records.append((tag, f'full_{name}_{rad!r}', run(full)))
    # unknown floating species -> empty selection
    records.append((tag, 'empty_selection', run(lambda: T.Transitions.from_trajectory(
        trajectory=tj, sites=corner, floating_specie='Na', site_radius=0.9).states)))

    with open(out_path, 'wb') as fh:
        pickle.dump(records, fh)


# --------------------------------------------------------------------------- driver
def extract_original(tmp: str) -> str:
    src = os.environ.get('ORIG_SRC')
    if src:
        return src
    blob = subprocess.run(['git', '-C', WT, 'archive', 'HEAD', 'src/gemdat'], check=True, capture_output=True).stdout
    with tarfile.open(fileobj=io.BytesIO(blob)) as tf:
        tf.extractall(tmp)
    return os.path.join(tmp, 'src')


def run_worker(pythonpath: str, out: str) -> None:
    env = dict(os.environ)
    env['PYTHONPATH'] = pythonpath
    env['EXPECT_ROOT'] = pythonpath
    env['PYTHONDONTWRITEBYTECODE'] = '1'
    subprocess.run([sys.executable, os.path.abspath(__file__), '--worker', out], check=True, env=env, cwd=tempfile.gettempdir())


def main() -> int:
    with tempfile.TemporaryDirectory() as tmp:
        orig_src = extract_original(tmp)
        new_src = os.path.join(WT, 'src')
        a, b = os.path.join(tmp, 'orig.pkl'), os.path.join(tmp, 'new.pkl')
        run_worker(orig_src, a)
        run_worker(new_src, b)
        ra, rb = pickle.load(open(a, 'rb')), pickle.load(open(b, 'rb'))
    bad = 0
    if len(ra) != len(rb):
        print(f'different number of records: {len(ra)} vs {len(rb)}')
        return 1
    n_ok = n_exc = n_warn = 0
    for (tag_a, what_a, res_a), (tag_b, what_b, res_b) in zip(ra, rb):
        if (tag_a, what_a) != (tag_b, what_b):
            print('case mismatch', tag_a, what_a, tag_b, what_b)
            return 1
        if res_a != res_b:
            bad += 1
            print('DIFF', tag_a, what_a)
            print('   orig:', str(res_a)[:300])
            print('   new :', str(res_b)[:300])
        else:
            n_ok += res_a[0][0] == 'OK'
            n_exc += res_a[0][0] == 'EXC'
            n_warn += bool(res_a[1])
    print(f'records={len(ra)} identical_ok={n_ok} identical_exc={n_exc} with_warnings={n_warn} differing={bad}')
    return 1 if bad else 0


if __name__ == '__main__':
    if len(sys.argv) == 3 and sys.argv[1] == '--worker':
        worker(sys.argv[2])
        sys.exit(0)
    sys.exit(main())
