"""Differential test for refactoring 2 (src/gemdat/jumps.py: Jumps.rates,
Jumps.activation_energies, Jumps.counter, Jumps.to_graph restructured - hoisted invariants,
dict comprehensions, a local generator feeding add_nodes_from/add_edges_from).

The same worker script is run twice in subprocesses: with PYTHONPATH=/repo/src (ORIGINAL,
read-only) and with PYTHONPATH=<worktree>/src (refactored).  The worker builds >= 20 random
synthetic trajectories (cubic, orthorhombic, triclinic and rotated triclinic cells, sites on
the cell faces, atoms hopping across the periodic boundary, 1-3 site labels so that some
site pairs have no jumps at all), keeps a pool of live Jumps objects and replays a random
history of cached calls with varying arguments (positional / keyword / default), drops and
gc.  Every result is printed bit-exactly (float.hex); additionally every cached result is
compared with an uncached recomputation through __wrapped__ on the same object (property
C20).  The two outputs must be identical line by line.
"""

SYNTH = r"""
import numpy as np
from pymatgen.core import Lattice, Structure, Element


def random_lattice(rng, kind):
    if kind == 'cubic':
        return Lattice.cubic(float(rng.uniform(7, 10)))
    if kind == 'ortho':
        return Lattice.orthorhombic(*rng.uniform(6, 11, 3))
    a, b, c = rng.uniform(7, 11, 3)
    al, be, ga = rng.uniform(70, 110, 3)
    lat = Lattice.from_parameters(a, b, c, al, be, ga)
    if kind == 'rotated':
        q, _ = np.linalg.qr(rng.normal(size=(3, 3)))
        if np.linalg.det(q) < 0:
            q[:, 0] *= -1
        lat = Lattice(lat.matrix @ q)
    return lat


def make_case(gemdat, rng, kind='triclinic', n_steps=400, n_li=3, labels=('A', 'B')):
    lat = random_lattice(rng, kind)
    # sites on a 2x2x2 grid, offset so some sit at the cell faces
    grid = np.array([[i, j, k] for i in (0, .5) for j in (0, .5) for k in (0, .5)], float)
    off = rng.choice([0.0, 0.02, 0.98])
    site_frac = (grid + off) % 1.0
    n_sites = len(site_frac)
    site_labels = [labels[i % len(labels)] for i in rng.permutation(n_sites)]
    sites = Structure(lat, ['Li'] * n_sites, site_frac, labels=site_labels)
    # Li atoms hop between sites (possibly across cell faces), with dwell times
    coords = np.zeros((n_steps, n_li + 2, 3))
    for a in range(n_li):
        cur = int(rng.integers(n_sites))
        t = 0
        pos = site_frac[cur].copy()
        while t < n_steps:
            dwell = int(rng.integers(8, 60))
            end = min(n_steps, t + dwell)
            coords[t:end, a] = pos + rng.normal(scale=0.006, size=(end - t, 3))
            t = end
            if t >= n_steps:
                break
            nxt = int(rng.integers(n_sites))
            d = site_frac[nxt] - site_frac[cur]
            d -= np.round(d)
            ntr = int(rng.integers(1, 4))
            end = min(n_steps, t + ntr)
            for s in range(t, end):
                f = (s - t + 1) / (ntr + 1)
                coords[s, a] = pos + f * d + rng.normal(scale=0.004, size=3)
            t = end
            pos = pos + d
            cur = nxt
    coords[:, n_li] = np.array([.25, .25, .25]) + rng.normal(scale=0.003, size=(n_steps, 3))
    coords[:, n_li + 1] = np.array([.75, .75, .25]) + rng.normal(scale=0.003, size=(n_steps, 3))
    coords = coords % 1.0
    species = [Element('Li')] * n_li + [Element('S'), Element('P')]
    traj = gemdat.Trajectory(species=species, coords=coords, lattice=lat,
                             time_step=float(rng.choice([1e-15, 2e-15])),
                             metadata={'temperature': float(rng.choice([300, 650, 900]))})
    return traj, sites
"""

WORKER = r"""
import gc
import sys
import weakref

import numpy as np

sys.path.insert(0, '.')
import gemdat
import synth
from gemdat.jumps import Jumps
from gemdat.transitions import Transitions

print('SRC', gemdat.__file__.split('/gemdat/')[0])


def fx(v):
    try:
        return float(v).hex()
    except (TypeError, ValueError):
        return repr(v)


def dump(res):
    import collections
    import networkx as nx
    import pandas as pd
    if isinstance(res, pd.DataFrame):
        return ('df', [tuple(i) if isinstance(i, tuple) else i for i in res.index], list(res.columns),
                [str(t) for t in res.dtypes], [[fx(v) for v in row] for row in res.values])
    if isinstance(res, nx.DiGraph):
        return ('graph', [(n, type(n).__name__, sorted(d.items())) for n, d in res.nodes(data=True)],
                [(int(a), int(b), sorted((k, fx(v), type(v).__name__) for k, v in d.items()))
                 for a, b, d in res.edges(data=True)],
                [(type(a).__name__, type(b).__name__) for a, b in res.edges()])
    if isinstance(res, collections.Counter):
        return ('counter', [(tuple(str(x) for x in k), type(k[0]).__name__, int(v), type(v).__name__)
                            for k, v in res.items()])
    if isinstance(res, np.ndarray):
        return ('arr', res.shape, str(res.dtype), res.tobytes().hex())
    return (type(res).__name__, fx(res), str(getattr(res, 'unit', '')))


def close(a, b):
    import math
    if isinstance(a, (tuple, list)):
        return (type(a) is type(b) and len(a) == len(b) and all(close(x, y) for x, y in zip(a, b)))
    if isinstance(a, str) and isinstance(b, str) and a != b:
        try:
            x, y = float.fromhex(a), float.fromhex(b)
        except ValueError:
            return False
        return math.isclose(x, y, rel_tol=1e-9, abs_tol=0.0)
    return a == b


CALLS = [
    ('rates', (), {}), ('rates', (2,), {}), ('rates', (), {'n_parts': 2}), ('rates', (3,), {}),
    ('rates', (1,), {}), ('rates', (4,), {}),
    ('activation_energies', (), {}), ('activation_energies', (2,), {}),
    ('activation_energies', (), {'n_parts': 3}), ('activation_energies', (1,), {}),
    ('counter', (), {}), ('_counter', (), {}), ('matrix', (), {}),
    ('to_graph', (), {}), ('to_graph', (0.1,), {}), ('to_graph', (), {'max_e_act': 0.25}),
    ('to_graph', (0.15, 0.3), {}), ('to_graph', (None, 0.0), {}), ('to_graph', (0.0, None), {}),
    ('to_graph', (), {'min_e_act': 0.2, 'max_e_act': 0.2}), ('to_graph', (-1.0, 1e9), {}),
    ('jump_diffusivity', (3,), {}), ('jump_diffusivity', (), {'dimensions': 2}),
    ('BOUNDARY', (), {}), ('BOUNDARY', (), {}),
]


def call(obj, name, args, kwargs, cached=True):
    meth = getattr(Jumps, name)
    fn = meth if cached else meth.__wrapped__
    try:
        return ('ok', dump(fn(obj, *args, **kwargs)))
    except Exception as exc:  # noqa: BLE001
        return ('exc', type(exc).__name__, str(exc))


def new_jumps(rng, case):
    kind = ['cubic', 'ortho', 'triclinic', 'rotated'][case % 4]
    labels = [('A', 'B'), ('A',), ('A', 'B', 'C'), ('Li1', 'Li2')][int(rng.integers(4))]
    traj, sites = synth.make_case(gemdat, rng, kind=kind, n_steps=int(rng.integers(250, 420)),
                                  n_li=int(rng.integers(1, 4)), labels=labels)
    tr = Transitions.from_trajectory(trajectory=traj, sites=sites, floating_specie='Li',
                                     site_radius=float(rng.choice([0.7, 0.9])),
                                     site_inner_fraction=float(rng.choice([1.0, 0.8])))
    try:
        j = Jumps(tr, minimal_residence=int(rng.integers(0, 4)))
    except ValueError as exc:
        print('CASE', case, kind, labels, 'no jumps:', exc)
        return None
    print('CASE', case, kind, labels, 'n_jumps', j.n_jumps, 'n_floating', j.n_floating)
    return j


rng = np.random.default_rng(2020)
live = []
case = 0
N_CASES = 24
while case < N_CASES or live:
    r = rng.random()
    if case < N_CASES and (len(live) < 2 or r < 0.06):
        j = new_jumps(rng, case)
        case += 1
        if j is not None:
            live.append(j)
        j = None
    elif live and r < 0.80:
        i = int(rng.integers(len(live)))
        name, args, kwargs = CALLS[int(rng.integers(len(CALLS)))]
        if name == 'BOUNDARY':
            # thresholds exactly equal to an activation energy present in the graph
            try:
                e_acts = sorted(float(d['e_act']) for _, _, d in live[i].to_graph().edges(data=True))
            except ValueError:
                e_acts = []
            if not e_acts:
                continue
            v = e_acts[int(rng.integers(len(e_acts)))]
            name, args, kwargs = 'to_graph', [(v, v), (v, None), (None, v)][int(rng.integers(3))], {}
        res = call(live[i], name, args, kwargs)
        print('RES', i, name, args, kwargs, res)
        if rng.random() < 0.5:
            again = call(live[i], name, args, kwargs)
            fresh = call(live[i], name, args, kwargs, cached=False)
            # a repeated cached call returns the stored value; an uncached recomputation may differ
            # in the last bits (the attempt frequency of /repo itself is only reproducible to ~1 ulp
            # once a trajectory has been split), hence the tolerance on the floats only
            assert again == res, ('cache hit differs', name, args, kwargs)
            assert close(res, fresh), ('memoised result differs from recomputation', name, args, kwargs)
    elif live and (r < 0.95 or case >= N_CASES):
        i = int(rng.integers(len(live)))
        ref = weakref.ref(live[i])
        del live[i]
        print('DROP', i, 'collected' if ref() is None else 'ALIVE')
        assert ref() is None, 'cache keeps the Jumps object alive'
    else:
        gc.collect()
        print('GC')
"""

import os
import subprocess
import sys
import tempfile

WT = os.environ.get('C20_WORKTREE', '/tmp/wtu_C20')


def run(src, workdir):
    env = dict(os.environ, PYTHONPATH=src, PYTHONHASHSEED='0')
    p = subprocess.run([sys.executable, '-W', 'ignore', os.path.join(workdir, 'worker.py')],
                       env=env, capture_output=True, text=True, cwd=workdir)
    if p.returncode != 0:
        print(p.stdout[-1500:])
        print(p.stderr[-3000:])
        print('worker failed for', src)
        sys.exit(2)
    return p.stdout


def main():
    with tempfile.TemporaryDirectory() as td:
        open(os.path.join(td, 'synth.py'), 'w').write(SYNTH)
        open(os.path.join(td, 'worker.py'), 'w').write(WORKER)
        out_orig = run('/repo/src', td)          # ORIGINAL implementation (read-only)
        out_new = run(f'{WT}/src', td)           # refactored worktree
    lines_o, lines_n = out_orig.splitlines(), out_new.splitlines()
    assert lines_o[0].startswith('SRC /repo/src'), lines_o[0]
    assert lines_n[0].startswith(f'SRC {WT}/src'), lines_n[0]
    body_o, body_n = lines_o[1:], lines_n[1:]
    n_cases = sum(1 for line in body_n if line.startswith('CASE'))
    n_res = sum(1 for line in body_n if line.startswith('RES'))
    if body_o != body_n:
        for k, (a, b) in enumerate(zip(body_o, body_n)):
            if a != b:
                print('first difference at line', k)
                print('  orig:', a[:600])
                print('  new :', b[:600])
                break
        else:
            print('different number of lines', len(body_o), len(body_n))
        print('DIFFERENT')
        sys.exit(1)
    assert n_cases >= 20 and n_res >= 100, (n_cases, n_res)
    print(f'{n_cases} random cases, {n_res} compared results, {len(body_n)} lines identical')
    print('EQUIVALENT')
    sys.exit(0)


if __name__ == '__main__':
    main()
