"""Differential test for refactoring 1 (TrajectoryMetrics.amplitudes as a generator pipeline).

Runs the same randomised trajectories through the ORIGINAL code (/repo/src, read-only) and the
refactored code (/tmp/wtu_C14/src), each in its own subprocess, and compares bit-for-bit.
"""
import os
import pickle
import subprocess
import sys
import tempfile

ORIG = '/repo/src'
NEW = '/tmp/wtu_C14/src'
N_CASES = 48


def random_lattice(rng, kind):
    import numpy as np
    from pymatgen.core import Lattice

    a, b, c = rng.uniform(3.0, 12.0, 3)
    if kind == 0:
        return Lattice.cubic(a)
    if kind == 1:
        return Lattice.orthorhombic(a, b, c)
    if kind == 2:
        return Lattice.from_parameters(a, b, c, *rng.uniform(60, 120, 3))
    if kind == 3:
        return Lattice.hexagonal(a, c)
    # rotated triclinic cell
    base = Lattice.from_parameters(a, b, c, *rng.uniform(65, 115, 3)).matrix
    q, _ = np.linalg.qr(rng.normal(size=(3, 3)))
    if np.linalg.det(q) < 0:
        q[:, 0] *= -1
    return Lattice(base @ q)


def make_cases():
    import numpy as np
    from pymatgen.core import Element, Species

    from gemdat import Trajectory

    rng = np.random.default_rng(20261001)
    pool = [Element('Li'), Element('Na'), Element('S'), Element('P'), Species('Li', 1), Species('O', -2)]
    cases = []
    for i in range(N_CASES):
        n_atoms = int(rng.integers(1, 7))
        n_frames = int(rng.choice([2, 3, 4, 5, 17, 64, 150]))
        lattice = random_lattice(rng, i % 5)
        step = rng.choice([0.002, 0.02, 0.2])  # large steps => atoms cross cell faces
        start = rng.uniform(0, 1, size=(1, n_atoms, 3))
        incr = rng.normal(scale=step, size=(n_frames, n_atoms, 3))
        mode = i % 8
        if mode == 1:  # one atom at rest (all speeds zero)
            incr[:, 0, :] = 0.0
        elif mode == 2:  # rigid translation, monotone distances
            incr[:] = np.abs(incr[:, :1, :])
        elif mode == 3:  # piecewise constant: zero speeds interleaved with moves
            incr[::2] = 0.0
        elif mode == 4:  # oscillation with exact sign alternation
            incr = np.tile(np.array([step, -step])[:, None, None], (n_frames // 2 + 1, n_atoms, 3))[:n_frames]
        elif mode == 5:  # start on a cell face
            start[:] = np.round(start)
        coords = start + np.cumsum(incr, axis=0)
        coords[0] = start[0]
        if mode == 6:
            coords = coords % 1.0
        species = [pool[int(k)] for k in rng.integers(0, len(pool), n_atoms)]
        traj = Trajectory(
            species=species,
            coords=coords,
            lattice=lattice,
            time_step=float(rng.choice([1e-15, 2e-15, 5e-16])),
            metadata={'temperature': float(rng.choice([300, 650, 1000]))},
        )
        cases.append(traj)
    return cases


def attempt(fn):
    import warnings

    try:
        with warnings.catch_warnings():
            warnings.simplefilter('ignore')
            return ('ok', fn())
    except Exception as exc:  # noqa: BLE001
        return ('err', type(exc).__name__, str(exc))


def worker(out):
    import numpy as np

    from gemdat.metrics import TrajectoryMetrics, TrajectoryMetricsStd

    results = []
    for traj in make_cases():
        m = TrajectoryMetrics(traj)
        rec = {}
        rec['amplitudes'] = attempt(lambda: np.array(m.amplitudes()))
        rec['amplitudes_dtype'] = attempt(lambda: str(m.amplitudes().dtype))
        rec['vibration_amplitude'] = attempt(lambda: float(m.vibration_amplitude()))
        rec['vib_unit'] = attempt(lambda: str(m.vibration_amplitude().unit))
        rec['speed'] = attempt(lambda: np.array(m.speed()))
        parts = traj.split(3, equal_parts=True) if len(traj) >= 17 else [traj, traj]
        ms = TrajectoryMetricsStd(parts)
        rec['std_amplitudes'] = attempt(lambda: tuple(np.array(x) for x in ms.amplitudes()))
        rec['std_vib'] = attempt(lambda: (ms.vibration_amplitude().n, ms.vibration_amplitude().s))
        # the module-level contract on raw series, independent of Trajectory
        results.append(rec)
    # raw speed arrays pushed directly through amplitudes()
    rng = np.random.default_rng(7)

    class Fake(TrajectoryMetrics):
        def __init__(self, arr):
            self._arr = arr

        def speed(self):
            return self._arr

    raw = [
        np.zeros((2, 5)),
        np.ones((1, 1)),
        np.array([[1.0, -1.0]]),
        np.array([[0.0, 1.0, 0.0, -1.0, 0.0, 0.0, 2.0]]),
        np.array([[np.nan, 1.0, -2.0, np.nan, 3.0]]),
        np.empty((0, 6)),
        np.array([[-1.0, -2.0, 3.0, 4.0, -5.0, 6.0, -0.0, 0.0]]),
    ] + [np.round(rng.normal(size=(3, int(n))), 1) for n in rng.integers(1, 40, 20)]
    for arr in raw:
        results.append({'raw': attempt(lambda: np.array(Fake(arr).amplitudes()))})
    with open(out, 'wb') as fh:
        pickle.dump(results, fh)


def same(a, b):
    import numpy as np

    if isinstance(a, (tuple, list)):
        return type(a) is type(b) and len(a) == len(b) and all(same(x, y) for x, y in zip(a, b))
    if isinstance(a, np.ndarray):
        return (
            isinstance(b, np.ndarray)
            and a.shape == b.shape
            and a.dtype == b.dtype
            and np.array_equal(a, b, equal_nan=a.dtype.kind == 'f')
        )
    if isinstance(a, float) and a != a:
        return isinstance(b, float) and b != b
    return a == b


def main():
    outs = []
    with tempfile.TemporaryDirectory() as td:
        for tag, src in (('orig', ORIG), ('new', NEW)):
            out = os.path.join(td, tag + '.pkl')
            env = dict(os.environ, PYTHONPATH=src)
            subprocess.run([sys.executable, os.path.abspath(__file__), '--worker', out], check=True, env=env)
            with open(out, 'rb') as fh:
                outs.append(pickle.load(fh))
    orig, new = outs
    assert len(orig) == len(new) and len(orig) >= 20
    bad = 0
    n_ok = 0
    for i, (ro, rn) in enumerate(zip(orig, new)):
        for key in ro:
            n_ok += ro[key][0] == 'ok'
            if not same(ro[key], rn[key]):
                bad += 1
                print(f'DIFF case {i} {key}:\n  orig={ro[key]}\n  new ={rn[key]}')
    print(f'cases={len(orig)} ok-results={n_ok} differences={bad}')
    sys.exit(1 if bad else 0)


if __name__ == '__main__':
    if len(sys.argv) > 2 and sys.argv[1] == '--worker':
        import gemdat

        assert os.path.abspath(gemdat.__file__).startswith(os.environ['PYTHONPATH']), gemdat.__file__
        worker(sys.argv[2])
    else:
        main()
