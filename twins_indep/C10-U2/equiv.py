"""Differential test for a behaviour-preserving refactoring of gemdat/path.py (property C10).

ORIGINAL  : /repo/src/gemdat/path.py (read-only; falls back to `git show HEAD:src/gemdat/path.py` of the worktree)
REFACTORED: /tmp/wtu_C10/src/gemdat/path.py (imported as gemdat.path)

Both implementations are run on the same randomised inputs; every observable (graph node order, node
attributes, adjacency order, edge attributes incl. their Python types, returned paths, energies, dims,
wrapped / fractional coordinates, raised exception types) must be identical.  Exits non-zero on any difference.
"""
from __future__ import annotations

import importlib.util
import itertools
import os
import signal
import subprocess
import sys
import tempfile
import warnings

WT = '/tmp/wtu_C10'
warnings.filterwarnings('ignore', message='overflow encountered in exp')
sys.path.insert(0, os.path.join(WT, 'src'))

import networkx as nx  # noqa: E402
import numpy as np  # noqa: E402
from pymatgen.core import Lattice, Structure  # noqa: E402

import gemdat  # noqa: E402,F401
import gemdat.path as new  # noqa: E402
from gemdat.volume import FreeEnergyVolume  # noqa: E402

assert new.__file__.startswith(WT), new.__file__


def _load_original():
    orig_file = '/repo/src/gemdat/path.py'
    if not os.path.exists(orig_file):
        src = subprocess.run(['git', '-C', WT, 'show', 'HEAD:src/gemdat/path.py'], check=True,
                             capture_output=True, text=True).stdout
        tmp = tempfile.NamedTemporaryFile('w', suffix='_orig_path.py', delete=False)
        tmp.write(src)
        tmp.close()
        orig_file = tmp.name
    # name it gemdat._orig_path so that its relative imports (._plot_backend, .utils) resolve
    spec = importlib.util.spec_from_file_location('gemdat._orig_path', orig_file)
    mod = importlib.util.module_from_spec(spec)
    sys.modules['gemdat._orig_path'] = mod
    spec.loader.exec_module(mod)
    return mod


old = _load_original()
assert old.__file__ != new.__file__

METHODS = ['dijkstra', 'bellman-ford', 'minmax-energy', 'dijkstra-exp', 'simple']
PERCOLATE = ['x', 'y', 'z', 'xy', 'xz', 'yz', 'xyz', 'zx', 'xq']
failures: list[str] = []
n_checks = 0
n_npaths = [0]


def typed(x):
    """Representation that also pins the python type of scalars / containers."""
    if isinstance(x, (list, tuple)):
        return (type(x).__name__, tuple(typed(i) for i in x))
    if isinstance(x, dict):
        return ('dict', tuple((k, typed(v)) for k, v in x.items()))
    if isinstance(x, np.ndarray):
        return ('ndarray', str(x.dtype), x.shape, x.tobytes())
    if isinstance(x, float) and x != x:
        return (type(x).__name__, 'nan')
    return (type(x).__name__, repr(x))


def graph_fingerprint(G):
    nodes = [(typed(n), typed(d)) for n, d in G.nodes(data=True)]
    adj = [(typed(u), [(typed(v), typed(d)) for v, d in nbrs.items()]) for u, nbrs in G.adj.items()]
    return (type(G).__name__, nodes, adj)


def path_fingerprint(p):
    if p is None:
        return None
    out = [typed(p.sites), typed(p.energy), typed(p.dims), typed(p.total_energy), repr(p)]
    if p.dims:
        out.append(typed(p.wrapped_sites()))
        out.append(typed(p.frac_sites()))
    return out


def run(fn, *a, **k):
    try:
        return ('ok', fn(*a, **k))
    except Exception as e:  # noqa: BLE001
        return ('exc', type(e).__name__, str(e))


class _Timeout(BaseException):
    pass


def _alarm(signum, frame):
    raise _Timeout


def run_timed(seconds, fn, *a, **k):
    """Like run(), but gives up after `seconds` (Yen's k-shortest-paths may enumerate exponentially many paths)."""
    signal.signal(signal.SIGALRM, _alarm)
    signal.setitimer(signal.ITIMER_REAL, seconds)
    try:
        return run(fn, *a, **k)
    except _Timeout:
        return None
    finally:
        signal.setitimer(signal.ITIMER_REAL, 0)


def check(label, a, b, fp):
    global n_checks
    n_checks += 1
    if a[0] != b[0]:
        failures.append(f'{label}: outcome differs {a[0]} vs {b[0]}: {a[1:]!r:.300} / {b[1:]!r:.300}')
        return
    if a[0] == 'exc':
        if a[1:] != b[1:]:
            failures.append(f'{label}: exception differs {a[1:]} vs {b[1:]}')
        return
    fa, fb = fp(a[1]), fp(b[1])
    if fa != fb:
        failures.append(f'{label}: result differs')


def random_grid(rng, case):
    """Free-energy grids: unequal sizes, thin axes (1, 2), ties, blocked / negative / nan / inf voxels."""
    thin = [1, 2, 3]
    if case % 5 == 0:
        shape = tuple(int(rng.choice(thin)) for _ in range(3))
    elif case % 5 == 1:
        shape = (int(rng.integers(1, 3)), int(rng.integers(3, 6)), int(rng.integers(2, 5)))
    else:
        shape = tuple(int(v) for v in rng.integers(3, 6, size=3))
    kind = case % 4
    if kind == 0:  # many ties -> tie breaking depends on node / adjacency order
        data = rng.integers(0, 4, size=shape).astype(float)
    elif kind == 1:
        data = rng.random(shape) * 5
    elif kind == 2:  # large values -> exp overflow / clipping of weight_exp
        data = rng.random(shape) * rng.choice([20.0, 60.0, 800.0])
    else:
        data = np.round(rng.random(shape) * 3, 1)
    n = data.size
    flat = data.reshape(-1)
    nblock = int(rng.integers(0, max(1, n // 3)))
    for idx in rng.choice(n, size=nblock, replace=False):
        flat[idx] = rng.choice([1e8, 1e21, np.inf, -1.0, np.nan, 1e7, 1e20])
    return data


def random_lattice(rng, case):
    if case % 3 == 0:
        return Lattice.cubic(float(rng.uniform(3, 8)))
    if case % 3 == 1:
        return Lattice.from_parameters(*rng.uniform(3, 8, size=3), *rng.uniform(60, 120, size=3))
    # rotated triclinic cell
    lat = Lattice.from_parameters(*rng.uniform(3, 8, size=3), *rng.uniform(70, 110, size=3))
    q, _ = np.linalg.qr(rng.normal(size=(3, 3)))
    return Lattice(lat.matrix @ q)


def pick_nodes(rng, G, k):
    nodes = list(G.nodes)
    if not nodes:
        return []
    return [nodes[int(i)] for i in rng.integers(0, len(nodes), size=k)]


def main():
    rng = np.random.default_rng(20261001)
    n_cases = 40
    for case in range(n_cases):
        data = random_grid(rng, case)
        lattice = random_lattice(rng, case)
        vol = FreeEnergyVolume(data=data, lattice=lattice)

        for diagonal in (True, False):
            for thr in (1e20, 1e7, 30.0, 2.5):
                # --- graph construction: ndarray and FreeEnergyVolume input
                src = vol if (case + int(diagonal)) % 2 else data
                ga = run(old.free_energy_graph, src, max_energy_threshold=thr, diagonal=diagonal)
                gb = run(new.free_energy_graph, src, max_energy_threshold=thr, diagonal=diagonal)
                check(f'case{case} graph diag={diagonal} thr={thr}', ga, gb, graph_fingerprint)
                if ga[0] != 'ok' or gb[0] != 'ok' or thr not in (1e7, 30.0):
                    continue
                Ga, Gb = ga[1], gb[1]

                # --- optimal paths for every method between random admissible voxels (+ bad requests)
                picks = pick_nodes(rng, Ga, 4)
                pairs = list(zip(picks[::2], picks[1::2]))
                if picks:
                    pairs.append((picks[0], picks[0]))  # start == stop
                    pairs.append((np.array(picks[0]), list(picks[-1])))  # array / list requests
                    pairs.append((picks[0], tuple(int(s) + 50 for s in data.shape)))  # not a node
                for (start, stop), method in itertools.product(pairs, METHODS + ['nonsense', None, ['dijkstra']]):
                    pa = run(old.optimal_path, Ga, start=start, stop=stop, method=method)
                    pb = run(new.optimal_path, Gb, start=start, stop=stop, method=method)
                    check(f'case{case} optimal_path {method} {start}->{stop} diag={diagonal} thr={thr}',
                          pa, pb, path_fingerprint)
                if picks:
                    pa = run(old.optimal_path, Ga, start=picks[0], stop=picks[-1])
                    pb = run(new.optimal_path, Gb, start=picks[0], stop=picks[-1])
                    check(f'case{case} optimal_path default', pa, pb, path_fingerprint)

                # --- n shortest paths (keep graphs small: Yen's algorithm is expensive)
                if picks and Ga.number_of_nodes() <= 40 and picks[0] != picks[1]:
                    npath_cfgs = (('dijkstra', 3, 0.15), ('simple', 2, 0.0),
                                  ('dijkstra-exp', 4, 0.5), ('minmax-energy', 2, 0.3))
                    for method, n_paths, min_diff in npath_cfgs[case % 2::2]:
                        fp = lambda ps: [path_fingerprint(p) for p in ps]  # noqa: E731
                        na = run_timed(0.3, old.optimal_n_paths, Ga, start=picks[0], stop=picks[1],
                                       method=method, n_paths=n_paths, min_diff=min_diff)
                        if na is None:  # original does not terminate quickly on this input: skip
                            continue
                        nb = run_timed(30, new.optimal_n_paths, Gb, start=picks[0], stop=picks[1],
                                       method=method, n_paths=n_paths, min_diff=min_diff)
                        if nb is None:
                            failures.append(f'case{case} optimal_n_paths {method}: refactored version hangs')
                            continue
                        n_npaths[0] += 1
                        check(f'case{case} optimal_n_paths {method} n={n_paths}', na, nb, fp)

        # --- volume level wrappers (dims get attached -> wrapped / fractional coordinates)
        Gv = run(old.free_energy_graph, data, max_energy_threshold=1e7)[1]
        picks = pick_nodes(rng, Gv, 2)
        if picks:
            for method in METHODS:
                wa = run(lambda: _with(old, vol, 'optimal_path', start=picks[0], stop=picks[1], method=method))
                wb = run(lambda: _with(new, vol, 'optimal_path', start=picks[0], stop=picks[1], method=method))
                check(f'case{case} vol.optimal_path {method}', wa, wb, path_fingerprint)

        # --- percolating paths: all direction sets, peaks incl. blocked voxels, empty peak list
        good = np.argwhere((data >= 0) & (data < 1e7))
        allv = np.argwhere(np.ones(data.shape, dtype=bool))
        peak_sets = [np.empty((0, 3), dtype=int)]
        if len(good):
            peak_sets.append(good[rng.choice(len(good), size=min(len(good), 4), replace=False)])
            peak_sets.append(good[:1])
            peak_sets.append([list(map(int, good[-1]))])  # plain lists as peaks
        peak_sets.append(allv[rng.choice(len(allv), size=min(len(allv), 3), replace=False)])  # may be blocked
        # rotate through the direction sets (each call builds a graph of the tiled grid, which is slow)
        directions = [PERCOLATE[(case + j) % len(PERCOLATE)] for j in (0, 3, 6)] + ['', 'abc']
        for percolate in directions:
            for pi, peaks in enumerate(peak_sets):
                if pi >= 2 and percolate != directions[pi % 3]:
                    continue
                qa = run(old.optimal_percolating_path, vol, peaks=peaks, percolate=percolate)
                qb = run(new.optimal_percolating_path, vol, peaks=peaks, percolate=percolate)
                check(f'case{case} percolating {percolate!r} peaks#{pi}', qa, qb, path_fingerprint)

        # --- Pathway helpers on a path that leaves the cell
        if len(good):
            site = tuple(int(v) for v in good[0])
            sites = [site, tuple(s + d for s, d in zip(site, data.shape)), tuple(s - 1 for s in site)]
            pa = old.Pathway(sites=sites, energy=[0.1, 0.2, 0.3], dims=data.shape)
            pb = new.Pathway(sites=sites, energy=[0.1, 0.2, 0.3], dims=data.shape)
            check(f'case{case} Pathway', ('ok', pa), ('ok', pb), path_fingerprint)
            structure = Structure(lattice, ['Li', 'Li'], [[0.1, 0.2, 0.3], [0.6, 0.7, 0.95]])
            la = run(lambda: [str(s) for s in pa.path_over_structure(structure)])
            lb = run(lambda: [str(s) for s in pb.path_over_structure(structure)])
            check(f'case{case} path_over_structure', la, lb, typed)
            check(f'case{case} nodims', run(old.Pathway(sites=sites, energy=[1.0] * 3).frac_sites),
                  run(new.Pathway(sites=sites, energy=[1.0] * 3).frac_sites), typed)

    print(f'cases={n_cases} checks={n_checks} (optimal_n_paths: {n_npaths[0]}) failures={len(failures)}')
    for f in failures[:30]:
        print('  DIFF', f)
    return 1 if failures else 0


def _with(mod, vol, name, **kwargs):
    """Mimic FreeEnergyVolume.<name> but dispatch to the chosen implementation module."""
    G = mod.free_energy_graph(vol.data, max_energy_threshold=1e7)
    path = getattr(mod, name)(G, **kwargs)
    path.dims = vol.dims
    return path


if __name__ == '__main__':
    sys.exit(main())
