"""Differential test for refactoring C08/2 (Volume voxel <-> fractional conversions share a
_dims_array property; centroid unwrapping uses boolean masks and voxel_to_frac_coords).

Runs the same randomised cases against the ORIGINAL gemdat (/repo/src, read-only) and the
refactored gemdat (/tmp/wtu_C08/src) in two subprocesses and compares every result.
Exit code 0 = identical, 1 = difference found.
"""
import os
import pickle
import subprocess
import sys
import tempfile

ORIG = '/repo/src'
NEW = '/tmp/wtu_C08/src'
N_CASES = 40


def enc(x):
    import numpy as np

    a = np.asarray(x)
    return (a.dtype.str, a.shape, a.tobytes())


def attempt(fn):
    try:
        return ('ok', fn())
    except Exception as exc:  # noqa: BLE001
        return ('error', type(exc).__name__)


def worker(expected_root, out):
    import warnings

    import numpy as np
    from pymatgen.core import Lattice, PeriodicSite

    import gemdat.volume as volume_module
    from gemdat.volume import Volume

    assert os.path.realpath(volume_module.__file__).startswith(os.path.realpath(expected_root)), (
        volume_module.__file__
    )
    warnings.simplefilter('ignore')
    rng = np.random.default_rng(80802)
    results = []
    for n in range(N_CASES):
        kind = n % 5
        if kind == 0:
            a = rng.uniform(3, 9)
            lattice = Lattice.cubic(a)
        elif kind == 1:
            lattice = Lattice.orthorhombic(*rng.uniform(3, 9, 3))
        elif kind == 2:
            lattice = Lattice.hexagonal(rng.uniform(3, 9), rng.uniform(3, 9))
        else:
            lattice = Lattice.from_parameters(*rng.uniform(3, 9, 3), *rng.uniform(70, 110, 3))
        if n % 2:
            q, _ = np.linalg.qr(rng.normal(size=(3, 3)))
            lattice = Lattice(lattice.matrix @ q)
        dims = tuple(int(d) for d in rng.integers(1 if n % 7 == 0 else 6, 15, 3))
        nx, ny, nz = dims

        # density: a few gaussian blobs (periodic), some close to / across the cell faces,
        # plus (sometimes) a channel that spans the whole cell along one axis
        grid = np.stack(np.meshgrid(*(np.arange(d) for d in dims), indexing='ij'), axis=-1)
        data = np.zeros(dims)
        n_blobs = int(rng.integers(1, 4))
        centres = []
        for b in range(n_blobs):
            c = rng.random(3) * dims
            if b == 0:
                c[n % 3] = 0.2  # blob cut by the lower/upper face
            centres.append(c)
            d = grid - c
            d -= np.round(d / dims) * dims
            data += np.exp(-(d**2).sum(-1) / (2 * rng.uniform(0.8, 1.6) ** 2))
        if n % 4 == 1:
            axis = n % 3
            sl = [int(rng.integers(0, d)) for d in dims]
            sl[axis] = slice(None)
            data[tuple(sl)] += 2.0
            c = np.array([s if isinstance(s, int) else 0 for s in sl], dtype=float)
            centres.append(c)
        data = np.round(data * 50).astype(int) if n % 3 == 0 else data
        if data.max() <= 0:
            data = data + 1
        vol = Volume(data=data, lattice=lattice, label=f'v{n}')
        res = []

        # --- voxel size / dims
        res.append(attempt(lambda: enc(vol.voxel_size)))
        res.append(attempt(lambda: tuple(vol.dims)))

        # --- voxel -> frac for every index, in several container types
        all_idx = np.argwhere(np.ones(dims, dtype=bool))
        res.append(attempt(lambda: enc(vol.voxel_to_frac_coords(all_idx))))
        res.append(attempt(lambda: enc(vol.voxel_to_frac_coords(all_idx.tolist()[:7]))))
        res.append(attempt(lambda: enc(vol.voxel_to_frac_coords(tuple(all_idx[-1])))))
        res.append(attempt(lambda: enc(vol.voxel_to_frac_coords(all_idx.astype(float) + 0.25))))
        res.append(attempt(lambda: enc(vol.voxel_to_frac_coords(all_idx.astype(np.int32)))))
        res.append(attempt(lambda: enc(vol.voxel_to_frac_coords(np.float32(all_idx[:5])))))
        res.append(attempt(lambda: enc(vol.voxel_to_frac_coords([]))))
        res.append(attempt(lambda: enc(vol.voxel_to_frac_coords(3))))
        res.append(attempt(lambda: enc(vol.voxel_to_frac_coords([1, 2]))))
        res.append(attempt(lambda: enc(vol.voxel_to_cart_coords(all_idx))))
        res.append(attempt(lambda: enc(vol.voxel_to_cart_coords([0, 0, 0]))))

        # --- frac -> voxel: random, negative, faces, exact voxel edges, lists, scalars
        fracs = rng.random((50, 3))
        fracs[0] = 0.0
        fracs[1] = np.nextafter(1.0, 0.0)
        fracs[2] = 1.0
        fracs[3] = -rng.random(3)
        fracs[4] = rng.integers(0, dims) / np.array(dims)
        fracs[5] = 1.5
        res.append(attempt(lambda: enc(vol.frac_coords_to_voxel(fracs))))
        res.append(attempt(lambda: enc(vol.frac_coords_to_voxel(fracs.tolist()))))
        res.append(attempt(lambda: enc(vol.frac_coords_to_voxel(tuple(fracs[7])))))
        res.append(attempt(lambda: enc(vol.frac_coords_to_voxel(fracs.astype(np.float32)))))
        res.append(attempt(lambda: enc(vol.frac_coords_to_voxel(0.3))))
        res.append(attempt(lambda: enc(vol.frac_coords_to_voxel(2))))
        res.append(attempt(lambda: enc(vol.frac_coords_to_voxel([0, 1, 2]))))
        res.append(attempt(lambda: enc(vol.frac_coords_to_voxel([[np.nan, 0.1, 0.2]]))))
        res.append(attempt(lambda: enc(vol.frac_coords_to_voxel([0.1, 0.2]))))
        res.append(attempt(lambda: enc(vol.frac_coords_to_voxel(np.empty((0, 3))))))
        # round trip for every index
        res.append(
            attempt(lambda: enc(vol.frac_coords_to_voxel(vol.voxel_to_frac_coords(all_idx))))
        )
        site = PeriodicSite('Li', fracs[8], lattice)
        res.append(attempt(lambda: enc(vol.site_to_voxel(site))))
        site2 = PeriodicSite('Li', [1.25, -0.5, 0.999], lattice)
        res.append(attempt(lambda: enc(vol.site_to_voxel(site2))))

        # --- centroid method on watershed regions (regions crossing faces / spanning the cell)
        peaks = np.unique(np.mod(np.round(np.array(centres)).astype(int), dims), axis=0)

        def centroid_case(background_level):
            props = vol._peaks_to_props(peaks, background_level=background_level)
            frac = vol._props_to_frac_coords_centroid(props=props)
            # prop.coords is cached by skimage: the in-place shift must stay observable
            after = [enc(p.coords) for p in props]
            spans = [tuple(p.image.shape) for p in props]
            again = vol._props_to_frac_coords_centroid(props=props)
            return (enc(frac), after, spans, enc(again))

        for level in (0.0, 0.1, 0.5):
            res.append(attempt(lambda: centroid_case(level)))
        res.append(attempt(lambda: enc(vol._props_to_frac_coords_centroid(props=[]))))

        def structure_case(**kwargs):
            st = vol.to_structure(**kwargs)
            return (enc(st.frac_coords), [str(sp) for sp in st.species])

        res.append(attempt(lambda: structure_case(peaks=peaks)))
        res.append(attempt(lambda: structure_case(peaks=peaks, background_level=0.3, specie='Li')))
        if n % 4 == 0:
            res.append(attempt(lambda: structure_case()))

        # --- dims re-assigned after construction (list instead of tuple)
        vol2 = Volume(data=data, lattice=lattice)
        vol2.dims = list(dims)
        res.append(attempt(lambda: enc(vol2.voxel_size)))
        res.append(attempt(lambda: enc(vol2.voxel_to_frac_coords(all_idx[:4]))))
        res.append(attempt(lambda: enc(vol2.frac_coords_to_voxel(fracs[:4]))))
        results.append(res)
    with open(out, 'wb') as f:
        pickle.dump(results, f)


def main():
    outs = {}
    with tempfile.TemporaryDirectory() as td:
        for name, root in (('orig', ORIG), ('new', NEW)):
            out = os.path.join(td, name + '.pkl')
            env = dict(os.environ, PYTHONPATH=root)
            subprocess.run([sys.executable, __file__, '--worker', root, out], env=env, check=True)
            with open(out, 'rb') as f:
                outs[name] = pickle.load(f)
    assert len(outs['orig']) == len(outs['new']) == N_CASES
    bad = n_ok = n_err = 0
    for i, (a, b) in enumerate(zip(outs['orig'], outs['new'])):
        assert len(a) == len(b)
        for j, (ra, rb) in enumerate(zip(a, b)):
            if ra[0] == 'ok':
                n_ok += 1
            else:
                n_err += 1
            if ra != rb:
                bad += 1
                print(f'case {i} call {j}: DIFFERENT {str(ra)[:120]} | {str(rb)[:120]}')
    print(f'cases={N_CASES} calls_ok={n_ok} calls_error={n_err} differences={bad}')
    return 1 if bad else 0


if __name__ == '__main__':
    if len(sys.argv) > 1 and sys.argv[1] == '--worker':
        worker(sys.argv[2], sys.argv[3])
    else:
        sys.exit(main())
