"""Differential test for refactoring C14/2 (Nernst-Einstein terms passed through a frozen dataclass;
TrajectoryMetricsStd aggregation merged into shared helpers driven by operator.methodcaller).

Runs the same randomised workload in two subprocesses: one importing the ORIGINAL gemdat, one importing
the refactored gemdat from the worktree, and compares all results bit-for-bit (floats: <= 1e-12 rel/abs).

Original source is located as follows:
  1. $ORIG_SRC if set;
  2. otherwise the untouched HEAD of the worktree, exported with `git archive` to a temp dir;
  3. otherwise /repo/src (read-only).
"""
import os
import pickle
import subprocess
import sys
import tempfile

WORKTREE = os.environ.get('WORKTREE', '/tmp/wtu_C14')
PY = '/venv/bin/python'
N_CASES = 40


# --------------------------------------------------------------------------- worker
def build_cases():
    import numpy as np
    from pymatgen.core import Element

    from gemdat import Trajectory

    cases = []
    for seed in range(N_CASES):
        rng = np.random.default_rng(1000 + seed)
        kind = seed % 8
        n_atoms = int(rng.integers(1, 7))
        n_frames = int(rng.integers(2, 70))
        if kind == 0:  # cubic
            lattice = np.eye(3) * rng.uniform(3, 12)
        elif kind == 1:  # orthorhombic
            lattice = np.diag(rng.uniform(3, 12, size=3))
        else:  # triclinic, arbitrarily rotated (possibly left-handed)
            lattice = rng.normal(size=(3, 3)) * 4 + np.eye(3) * 6
            if abs(np.linalg.det(lattice)) < 1:
                lattice = lattice + np.eye(3) * 5
        step = [0.01, 0.05, 0.2, 0.45][seed % 4]  # large steps cross cell faces
        start = rng.uniform(0, 1, size=(1, n_atoms, 3))
        walk = np.cumsum(rng.normal(scale=step, size=(n_frames, n_atoms, 3)), axis=0)
        coords = start + walk
        if kind == 3:  # all atoms move identically (Haven ratio of one)
            coords = start + walk[:, :1, :]
        if kind == 4:  # one atom never moves: zero speed, sign 0 everywhere
            coords[:, 0, :] = coords[0, 0, :]
        if kind == 5:  # monotonic drift along one axis: no sign flips at all
            coords = start + np.linspace(0, 2.5, n_frames).reshape(-1, 1, 1) * np.array([1.0, 0, 0])
        if kind == 6:  # positions exactly on cell faces
            coords = np.round(coords * 2) / 2
        if kind == 7:  # shortest possible trajectory
            coords = coords[:2]
        coords = coords % 1.0 if seed % 3 == 0 else coords
        symbols = ['Li', 'Na', 'O', 'S', 'P', 'Li']
        species = [Element(symbols[int(i)]) for i in rng.integers(0, len(symbols), size=n_atoms)]
        traj = Trajectory(
            species=species,
            coords=coords,
            lattice=lattice,
            time_step=float(rng.uniform(0.5, 5) * 1e-15),
            metadata={'temperature': float(rng.uniform(50, 1500))},
        )
        cases.append((seed, traj))
    return cases


def attempt(fn):
    import numpy as np

    try:
        out = fn()
    except Exception as exc:  # noqa: BLE001
        return ('EXC', type(exc).__name__)
    return normalise(out)


def normalise(out):
    import numpy as np

    if isinstance(out, (tuple, list)):
        return ('SEQ', [normalise(o) for o in out])
    if hasattr(out, 'nominal_value'):  # uncertainties.ufloat
        return ('UFLOAT', float(out.nominal_value), float(out.std_dev))
    if isinstance(out, np.ndarray):
        return ('ARR', out.dtype.str, out.shape, np.ascontiguousarray(out).tobytes())
    unit = str(getattr(out, 'unit', ''))
    if isinstance(out, (float, np.floating)):
        return ('FLOAT', type(out).__name__, unit, float(out).hex())
    return ('OBJ', type(out).__name__, repr(out))


def worker(path):
    import warnings

    warnings.simplefilter('ignore')
    import gemdat
    from gemdat.metrics import TrajectoryMetrics, TrajectoryMetricsStd

    results = {'__file__': gemdat.__file__}
    for seed, traj in build_cases():
        m = TrajectoryMetrics(traj)
        r = {}
        r['speed'] = attempt(m.speed)
        r['amplitudes'] = attempt(m.amplitudes)
        r['amplitudes_again'] = attempt(m.amplitudes)  # cached path
        r['vibration_amplitude'] = attempt(m.vibration_amplitude)
        r['attempt_frequency'] = attempt(m.attempt_frequency)
        r['particle_density'] = attempt(m.particle_density)
        r['mol_per_liter'] = attempt(m.mol_per_liter)
        for d in (1, 2, 3):
            r[f'D{d}'] = attempt(lambda: m.tracer_diffusivity(dimensions=d))
            r[f'Dcom{d}'] = attempt(lambda: m.tracer_diffusivity_center_of_mass(dimensions=d))
            r[f'haven{d}'] = attempt(lambda: m.haven_ratio(dimensions=d))
            for z in (1, 2, -1, 3, 0, 1.5):
                r[f'sigma{d}{z}'] = attempt(lambda: m.tracer_conductivity(z_ion=z, dimensions=d))
        r['sigma_default_dim'] = attempt(lambda: m.tracer_conductivity(z_ion=1))
        # boundary cases for the metadata look-up / division: no temperature, zero temperature
        for label, meta in (('noT', {}), ('T0', {'temperature': 0}), ('Tint', {'temperature': 300})):
            other = traj.__class__(species=traj.species, coords=traj.positions, lattice=traj.get_lattice(),
                                   time_step=traj.time_step, metadata=meta)
            r['sigma_' + label] = attempt(
                lambda: TrajectoryMetrics(other).tracer_conductivity(z_ion=2, dimensions=3))
            r['stdsigma_' + label] = attempt(
                lambda: TrajectoryMetricsStd(other.split(2)).tracer_conductivity(z_ion=1, dimensions=3))
        # the sum of the amplitudes of a single atom equals its final distance: check per-atom totals
        for sel in ('Li', 'O', 'Xx'):  # 'Xx' / absent species: empty selection
            r[f'filter_{sel}'] = attempt(lambda: TrajectoryMetrics(traj.filter(sel)).amplitudes())
        for n_parts, equal in ((2, True), (3, False), (5, True)):
            def std(name, **kw):
                parts = traj.split(n_parts, equal_parts=equal)
                return getattr(TrajectoryMetricsStd(parts), name)(**kw)

            tag = f'std{n_parts}{int(equal)}'
            r[tag + 'speed'] = attempt(lambda: std('speed'))
            r[tag + 'amplitudes'] = attempt(lambda: std('amplitudes'))
            r[tag + 'vib'] = attempt(lambda: std('vibration_amplitude'))
            r[tag + 'D'] = attempt(lambda: std('tracer_diffusivity', dimensions=3))
            r[tag + 'sigma'] = attempt(lambda: std('tracer_conductivity', z_ion=1, dimensions=2))
            r[tag + 'sigma2'] = attempt(lambda: std('tracer_conductivity', z_ion=-2, dimensions=1))
            r[tag + 'D1'] = attempt(lambda: std('tracer_diffusivity', dimensions=1))
        results[seed] = r
    with open(path, 'wb') as f:
        pickle.dump(results, f)


# --------------------------------------------------------------------------- driver
def original_src(tmp):
    if os.environ.get('ORIG_SRC'):
        return os.environ['ORIG_SRC']
    dest = os.path.join(tmp, 'orig')
    os.makedirs(dest)
    try:
        archive = subprocess.run(['git', '-C', WORKTREE, 'archive', 'HEAD', 'src/gemdat'],
                                 check=True, capture_output=True).stdout
        subprocess.run(['tar', '-x', '-C', dest], input=archive, check=True)
        return os.path.join(dest, 'src')
    except Exception:  # noqa: BLE001
        return '/repo/src'


def run(src, out):
    env = dict(os.environ, PYTHONPATH=src)
    subprocess.run([PY, os.path.abspath(__file__), '--worker', out], check=True, env=env, cwd='/tmp')
    with open(out, 'rb') as f:
        return pickle.load(f)


def close(a, b):
    import numpy as np

    if a == b:
        return True
    if type(a) is not type(b) or not isinstance(a, tuple) or a[0] != b[0]:
        return False
    if a[0] == 'SEQ':
        return len(a[1]) == len(b[1]) and all(close(x, y) for x, y in zip(a[1], b[1]))
    if a[0] == 'ARR':
        if a[1:3] != b[1:3]:
            return False
        x = np.frombuffer(a[3], dtype=a[1])
        y = np.frombuffer(b[3], dtype=b[1])
        return bool(np.allclose(x, y, rtol=1e-12, atol=1e-12, equal_nan=True))
    if a[0] == 'FLOAT':
        x, y = float.fromhex(a[3]), float.fromhex(b[3])
        return a[1:3] == b[1:3] and ((x != x and y != y) or abs(x - y) <= 1e-12 * max(1.0, abs(x), abs(y)))
    if a[0] == 'UFLOAT':
        return all((x != x and y != y) or abs(x - y) <= 1e-12 * max(1.0, abs(x), abs(y))
                   for x, y in zip(a[1:], b[1:]))
    return False


def main():
    with tempfile.TemporaryDirectory() as tmp:
        orig = run(original_src(tmp), os.path.join(tmp, 'orig.pkl'))
        new = run(os.path.join(WORKTREE, 'src'), os.path.join(tmp, 'new.pkl'))
    print('original :', orig.pop('__file__'))
    print('refactor :', new.pop('__file__'))
    bad = 0
    n = exact = 0
    kinds = {}
    for seed in orig:
        for key, val in orig[seed].items():
            n += 1
            exact += val == new[seed][key]
            kinds[val[0]] = kinds.get(val[0], 0) + 1
            if not close(val, new[seed][key]):
                bad += 1
                print('DIFF seed', seed, key, val[:3], new[seed][key][:3])
    print(f'cases={len(orig)} comparisons={n} bit-identical={exact} differing={bad} kinds={kinds}')
    return 1 if bad or len(orig) < 20 else 0


if __name__ == '__main__':
    if len(sys.argv) == 3 and sys.argv[1] == '--worker':
        worker(sys.argv[2])
    else:
        sys.exit(main())
