"""Differential test: Volume.get_free_energy, original (/repo/src) vs refactored (/tmp/wtw_C09/src).

The script re-runs itself as a worker under both PYTHONPATHs with the same seed, and compares the pickled results bit for bit.
"""
import os
import pickle
import subprocess
import sys
import warnings

ORIG = '/repo/src'
NEW = '/tmp/wtw_C09/src'
N_CASES = 40


def worker():
    warnings.simplefilter('ignore')
    import numpy as np
    from pymatgen.core import Lattice

    import gemdat
    from gemdat.volume import FreeEnergyVolume, Volume

    assert gemdat.__file__.startswith(os.environ['PYTHONPATH']), gemdat.__file__
    rng = np.random.default_rng(20261002)
    out = []
    for case in range(N_CASES):
        shape = tuple(int(n) for n in rng.integers(1, 7, size=3))
        kind = case % 8
        if kind == 0:
            data = rng.integers(0, 50, size=shape)  # integer counts with zeros
        elif kind == 1:
            data = rng.random(shape) * rng.choice([1e-30, 1.0, 1e30])
        elif kind == 2:
            data = np.zeros(shape, dtype=int)  # never visited at all -> 0/0
        elif kind == 3:
            data = rng.integers(0, 3, size=shape).astype(float)  # many empty voxels
        elif kind == 4:
            data = rng.normal(size=shape)  # negative 'densities' -> log of negatives
        elif kind == 5:
            data = rng.integers(0, 1000, size=shape).astype(np.float32)
        elif kind == 6:
            data = rng.integers(0, 5, size=shape).astype(float)
            data.flat[0] = np.inf
        else:
            data = np.asfortranarray(rng.integers(0, 9, size=shape))
        if case % 3 == 0:
            lattice = Lattice.from_parameters(*rng.uniform(3, 12, 3), *rng.uniform(60, 120, 3))
        elif case % 3 == 1:
            lattice = Lattice(rng.normal(size=(3, 3)) * 5 + np.eye(3) * 8)  # rotated / triclinic
        else:
            lattice = Lattice.cubic(float(rng.uniform(2, 15)))
        temperature = [300, 300.0, 1e-3, 1500.5, 0, -10.0, np.float64(650.0), 1e6][int(rng.integers(0, 8))]
        vol = Volume(data=data.copy(), lattice=lattice, label='trajectory')
        try:
            fe = vol.get_free_energy(temperature=temperature)
            rec = (
                'ok',
                type(fe).__name__,
                isinstance(fe, FreeEnergyVolume),
                fe.data.dtype.str,
                fe.data.shape,
                fe.data.tobytes(),
                fe.data.flags['C_CONTIGUOUS'],
                fe.lattice.matrix.tobytes(),
                fe.label,
                str(fe.units),
                fe.dims,
                bool(np.isfinite(fe.data).all()),
                np.array_equal(vol.data, data),  # input not modified
            )
        except Exception as exc:  # noqa: BLE001
            rec = ('exc', type(exc).__name__, str(exc))
        out.append(rec)
    # bad input
    for bad in ('hot', None):
        try:
            Volume(data=np.ones((2, 2, 2)), lattice=Lattice.cubic(3)).get_free_energy(temperature=bad)
            out.append(('ok-bad',))
        except Exception as exc:  # noqa: BLE001
            out.append(('exc', type(exc).__name__, str(exc)))
    sys.stdout.buffer.write(pickle.dumps(out))


def run(path):
    env = dict(os.environ, PYTHONPATH=path)
    res = subprocess.run([sys.executable, __file__, 'worker'], env=env, capture_output=True, check=False)
    if res.returncode != 0:
        sys.stderr.write(res.stderr.decode())
        raise SystemExit(f'worker failed for {path}')
    return pickle.loads(res.stdout)


def main():
    a, b = run(ORIG), run(NEW)
    assert len(a) == len(b) >= 20
    bad = [i for i, (x, y) in enumerate(zip(a, b)) if x != y]
    n_ok = sum(1 for x in a if x[0] == 'ok')
    print(f'cases={len(a)} ok_cases={n_ok} differing={len(bad)}')
    for i in bad:
        print('DIFF in case', i, a[i][:5], b[i][:5])
    sys.exit(1 if bad else 0)


if __name__ == '__main__':
    if len(sys.argv) > 1 and sys.argv[1] == 'worker':
        worker()
    else:
        main()
