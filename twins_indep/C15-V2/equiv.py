"""Differential test for refactoring 2 (C15): Trajectory.split.

Runs the same randomised scenario script twice in subprocesses - once with PYTHONPATH=/repo/src (original,
read-only) and once with PYTHONPATH=/tmp/wtu_C15/src (refactored) - and compares every recorded value exactly.
"""
import os
import pickle
import subprocess
import sys
import tempfile

import numpy as np

ORIG = '/repo/src'
NEW = '/tmp/wtu_C15/src'
N_CASES = 40


def worker(out):
    import warnings

    warnings.filterwarnings('ignore')
    import gemdat
    from gemdat import Trajectory
    from pymatgen.core import Element, Lattice, Species

    assert gemdat.__file__.startswith(os.environ['EXPECT_ROOT']), gemdat.__file__

    def snap(t):
        """Everything observable about a trajectory, without changing its representation first."""
        d = {
            'cls': type(t).__name__,
            'mode_before': bool(t.coords_are_displacement),
            'raw': np.array(t.coords),
            'species': [repr(s) for s in t.species],
            'lattice': np.array(t.get_lattice().matrix) if t.constant_lattice else np.array(t.lattice),
            'time_step': t.time_step,
            'metadata': repr(sorted(t.metadata.items())),
            'base': np.array(t.base_positions),
        }
        d['positions'] = np.array(t.positions)
        d['displacements'] = np.array(t.displacements)
        d['positions2'] = np.array(t.positions)
        return d

    def attempt(f):
        try:
            return f()
        except Exception as e:  # noqa
            return ('EXC', type(e).__name__)

    def random_lattice(rng, kind):
        if kind == 0:
            return Lattice.cubic(rng.uniform(4, 9))
        if kind == 1:
            return Lattice.from_parameters(*rng.uniform(4, 9, 3), *rng.uniform(62, 118, 3))
        # rotated triclinic cell
        base = Lattice.from_parameters(*rng.uniform(4, 9, 3), *rng.uniform(70, 110, 3)).matrix
        q, _ = np.linalg.qr(rng.normal(size=(3, 3)))
        return Lattice(base @ q)

    pool = [Element('Li'), Element('S'), Species('Na', 1), Species('O', -2), Element('P')]

    results = []
    for case in range(N_CASES):
        rng = np.random.default_rng(2000 + case)
        n_atoms = int(rng.integers(1, 6))
        species = [pool[i] for i in rng.integers(0, len(pool), n_atoms)]
        n_frames = int(rng.integers(1, 40)) if case % 7 else int(rng.integers(1, 4))
        start = rng.uniform(-0.2, 1.2, (1, n_atoms, 3))
        steps = rng.normal(0, 0.08, (n_frames, n_atoms, 3))
        coords = start + np.cumsum(steps, axis=0)  # walks across the cell faces
        if case % 5 == 0:
            coords[0, 0] = [0.0, 1.0, -1e-17]  # boundary values
        lattice = random_lattice(rng, case % 3)
        meta = {'temperature': float(rng.integers(100, 900)), 'tag': case}
        extra = {}
        if case % 6 == 4:
            # NPT-like: one lattice per frame
            extra['lattice'] = [lattice.matrix * (1 + 0.01 * i) for i in range(n_frames)]
            extra['constant_lattice'] = False
        else:
            extra['lattice'] = lattice
        if case % 4 == 2:
            extra['site_properties'] = {'label': [f'a{i}' for i in range(n_atoms)]}
            extra['frame_properties'] = [{'energy': float(i)} for i in range(n_frames)]
        if case % 8 == 5:
            extra['site_properties'] = [{'magmom': [float(i + j) for j in range(n_atoms)]} for i in range(n_frames)]

        def make():
            kind = case % 4
            if kind == 3 and 'constant_lattice' not in extra:
                t0 = Trajectory(species=list(species), coords=coords.copy(), lattice=lattice, time_step=1e-15)
                disp = np.array(t0.displacements)
                return Trajectory(species=list(species), coords=disp, time_step=2e-15,
                                  metadata=dict(meta), coords_are_displacement=True,
                                  base_positions=coords[0].copy(), **extra)
            t = Trajectory(species=list(species), coords=coords.copy(), time_step=2e-15,
                           metadata=dict(meta), **extra)
            if kind == 1:
                t.displacements  # put the source in displacement representation
            if kind == 2:
                t.positions
            return t

        def snap_part(p, src):
            d = snap(p)
            d['site_properties'] = repr(p.site_properties)
            d['frame_properties'] = repr(p.frame_properties)
            d['constant_lattice'] = p.constant_lattice
            d['lattice_raw'] = np.array(p.lattice)
            d['meta_shared'] = p.metadata is src.metadata
            d['len'] = len(p)
            return d

        def run_split(t, *args, **kwargs):
            parts = t.split(*args, **kwargs)
            return [type(parts).__name__] + [snap_part(p, t) for p in parts]

        rec = {}
        n_options = sorted({0, 1, 2, 3, 5, 7, 10, max(n_frames - 2, 0), n_frames - 1 if n_frames > 1 else 1,
                            n_frames, n_frames + 1, n_frames + 3, -1, -2})
        for n in n_options:
            for eq in (False, True, 1, 0, 'yes', None):
                t = make()
                rec[f'split_{n}_{eq!r}'] = attempt(lambda: run_split(t, n, eq))
                rec[f'split_{n}_{eq!r}_src'] = snap_part(t, t)
        t = make()
        rec['default'] = attempt(lambda: run_split(t))
        t = make()
        rec['default_eq'] = attempt(lambda: run_split(t, equal_parts=True))
        # split of derived trajectories, after read-only queries
        if n_frames > 4:
            t = make()
            attempt(t.distances_from_base_position)  # (get_lattice fails upstream for per-frame lattices)
            t.displacements
            sub = t[1:]
            rec['sub_split'] = attempt(lambda: run_split(sub, 3, True))
            rec['sub_split_src'] = snap_part(t, t)
            if extra.get('constant_lattice', True):
                f = t.filter(species[0].symbol)
                rec['filter_split'] = attempt(lambda: run_split(f, n_parts=2, equal_parts=True))
                # parts of parts
                parts = t.split(2, equal_parts=True)
                rec['nested'] = attempt(lambda: [run_split(p, 2, True) for p in parts])
                # later queries on parts do not disturb siblings / source
                parts = t.split(3, True)
                parts[0].displacements
                parts[1].distances_from_base_position()
                parts[2].mean_squared_displacement()
                rec['siblings'] = [snap_part(p, t) for p in parts] + [snap_part(t, t)]
        results.append(rec)

    with open(out, 'wb') as f:
        pickle.dump(results, f)


def same(a, b, path, errors):
    if type(a) is not type(b):
        errors.append(f'{path}: type {type(a)} != {type(b)}')
    elif isinstance(a, dict):
        if a.keys() != b.keys():
            errors.append(f'{path}: keys differ')
            return
        for k in a:
            same(a[k], b[k], f'{path}/{k}', errors)
    elif isinstance(a, (list, tuple)):
        if len(a) != len(b):
            errors.append(f'{path}: len differ')
            return
        for i, (x, y) in enumerate(zip(a, b)):
            same(x, y, f'{path}[{i}]', errors)
    elif isinstance(a, np.ndarray):
        if a.shape != b.shape or a.dtype != b.dtype or not np.array_equal(a, b, equal_nan=True):
            errors.append(f'{path}: arrays differ {a.shape} {b.shape}')
    elif a != b:
        errors.append(f'{path}: {a!r} != {b!r}')


def main():
    outs = []
    with tempfile.TemporaryDirectory() as td:
        for name, root in (('orig', ORIG), ('new', NEW)):
            out = os.path.join(td, name + '.pkl')
            env = dict(os.environ, PYTHONPATH=root, EXPECT_ROOT=root)
            subprocess.run([sys.executable, __file__, '--worker', out], env=env, check=True)
            with open(out, 'rb') as f:
                outs.append(pickle.load(f))
    errors = []
    same(outs[0], outs[1], '', errors)
    n_values = sum(len(r) for r in outs[0])
    n_exc = sum(1 for r in outs[0] for v in r.values() if isinstance(v, tuple) and v and v[0] == 'EXC')
    print(f'cases={len(outs[0])} recorded={n_values} exceptions_recorded={n_exc} differences={len(errors)}')
    for e in errors[:20]:
        print('  DIFF', e)
    sys.exit(1 if errors else 0)


if __name__ == '__main__':
    if len(sys.argv) == 3 and sys.argv[1] == '--worker':
        worker(sys.argv[2])
    else:
        main()
