"""Differential test for refactoring 3 (src/gemdat/jumps.py: bodies of the @weak_lru_cache methods
Jumps.jump_diffusivity / activation_energies / counter / _counter / to_graph / rates restructured).

The same scenario is executed in two subprocesses, one with PYTHONPATH=/repo/src (ORIGINAL) and one
with PYTHONPATH=/tmp/wtt_C20/src (refactored); the pickled results (values, dtypes, key order of
counters / frames / graphs, exception types+messages, liveness flags) must be identical
(floats: equal to within 1e-12 relative, in practice bit-identical or 1 ulp apart).

Scenario: 24 synthetic hopping trajectories: random general-triclinic / rotated-triclinic / cubic /
hexagonal cells, a 2x2x2 (or 2x2x1) grid of labelled Li sites, several of them ON cell faces so
vibrating atoms cross the faces, Li atoms hopping between sites with 'no site' transit frames,
a frozen S framework; float and per-label dict site radii; inner-site fractions.  For every
trajectory several Jumps objects (different minimal_residence) are alive at the same time, queried
in two rounds with varying arguments (dimensions, n_parts, min/max_e_act), compared with freshly
created objects (uncached recomputation), then dropped and garbage collected.
"""
import gc
import os
import pickle
import subprocess
import sys
import warnings
import weakref

ORIG_SRC = '/repo/src'
NEW_SRC = '/tmp/wtt_C20/src'
N_CASES = 24


def plain(x):
    import networkx as nx
    import numpy as np
    import pandas as pd

    if isinstance(x, pd.DataFrame):
        return ('DF', [str(c) for c in x.columns], [tuple(i) if isinstance(i, tuple) else i for i in x.index],
                np.array(x.to_numpy(dtype=float)))
    if isinstance(x, nx.DiGraph):
        return ('G', [(n, sorted(d.items())) for n, d in x.nodes(data=True)],
                [(a, b, [(k, float(v)) for k, v in d.items()]) for a, b, d in x.edges(data=True)])
    if isinstance(x, dict):  # Counter included, keep insertion order
        return ('D', type(x).__name__, [(k, plain(v)) for k, v in x.items()])
    if isinstance(x, np.ndarray):
        return np.array(x)
    if hasattr(x, 'unit') and isinstance(x, float):
        return ('FWU', float(x), str(x.unit))
    if isinstance(x, (float, np.floating)):
        return float(x)
    if isinstance(x, (int, np.integer)) and not isinstance(x, bool):
        return int(x)
    if isinstance(x, tuple):
        return tuple(plain(v) for v in x)
    return x


def call(fn, *args, **kwargs):
    try:
        with warnings.catch_warnings():
            warnings.simplefilter('ignore')
            res = fn(*args, **kwargs)
    except Exception as exc:  # noqa: BLE001
        return ('EXC', type(exc).__name__, str(exc))
    return plain(res)


def make_case(seed):
    import numpy as np
    from pymatgen.core import Lattice, Structure

    import gemdat

    rng = np.random.default_rng(seed)
    kind = seed % 4
    if kind == 0:
        lattice = Lattice.from_parameters(*rng.uniform(7, 11, 3), *rng.uniform(70, 110, 3))
    elif kind == 1:
        m = Lattice.from_parameters(*rng.uniform(7, 10, 3), 80, 97, 105).matrix
        q, _ = np.linalg.qr(rng.normal(size=(3, 3)))
        lattice = Lattice(m @ q)  # rotated cell, not lower triangular
    elif kind == 2:
        lattice = Lattice.cubic(rng.uniform(7, 10))
    else:
        lattice = Lattice.hexagonal(rng.uniform(7, 9), rng.uniform(7, 12))

    nz = 2 if seed % 3 else 1
    grid = np.array([(i / 2, j / 2, k / nz) for i in range(2) for j in range(2) for k in range(nz)])
    offset = rng.uniform(0, 0.02, 3) if seed % 2 else np.zeros(3)  # zeros: sites exactly on faces
    site_coords = (grid + offset + rng.normal(scale=0.005, size=grid.shape)) % 1.0
    n_sites = len(site_coords)
    labels = [('A', 'B', 'C')[i % (2 + seed % 2)] for i in range(n_sites)]
    sites = Structure(lattice, ['Li'] * n_sites, site_coords, labels=labels)

    n_li = int(rng.integers(1, min(4, n_sites)))
    n_t = int(rng.integers(80, 200))
    p_hop = rng.uniform(0.04, 0.15)
    inv = np.linalg.inv(lattice.matrix)
    coords = np.zeros((n_t, n_li + 2, 3))
    for a in range(n_li):
        cur = int(rng.integers(n_sites))
        t = 0
        while t < n_t:
            if t > 0 and rng.random() < p_hop:
                new = int(rng.integers(n_sites))
                if new != cur and rng.random() < 0.6:
                    # transit frame half way (minimum image) between the sites: 'no site' state
                    d = site_coords[new] - site_coords[cur]
                    d -= np.round(d)
                    coords[t, a] = site_coords[cur] + 0.5 * d
                    t += 1
                    if t >= n_t:
                        break
                cur = new
            amp = rng.choice([0.05, 0.15, 0.45])  # 0.45 A sometimes leaves the (inner) site
            coords[t, a] = site_coords[cur] + (rng.normal(scale=amp / 3, size=3) @ inv)
            t += 1
    coords[:, n_li] = [0.25, 0.25, 0.3]
    coords[:, n_li + 1] = [0.75, 0.7, 0.8]
    coords %= 1.0
    from pymatgen.core import Element

    traj = gemdat.Trajectory(
        species=[Element('Li')] * n_li + [Element('S')] * 2,
        coords=coords,
        lattice=lattice,
        time_step=float(rng.uniform(0.5e-15, 3e-15)),
        metadata={'temperature': float(rng.uniform(200, 1000))},
    )
    if seed % 3 == 0:
        radius = {lab: float(rng.uniform(0.5, 0.9)) for lab in sorted(set(labels))}
    else:
        radius = float(rng.uniform(0.5, 0.9))
    inner = float(rng.choice([1.0, 0.7, 0.4]))
    return traj, sites, radius, inner


def child():
    import gemdat
    from gemdat.jumps import Jumps
    from gemdat.transitions import Transitions

    assert gemdat.__file__.startswith(os.environ['EXPECT_SRC']), gemdat.__file__

    def query(j, rnd, with_collective):
        rec = [
            ('n_jumps', j.n_jumps),
            call(j._counter),
            call(j.counter),
            call(j.matrix),
        ]
        dims = (1, 2, 3) if rnd == 0 else (3, 1, 2)
        for d in dims:
            rec.append(call(j.jump_diffusivity, d))
            rec.append(call(j.jump_diffusivity, dimensions=d))
        rec.append(call(j.jump_diffusivity, 0))
        for n_parts in (1, 2, 3, 10)[:: 1 if rnd == 0 else -1]:
            rec.append(call(j.rates, n_parts))
            rec.append(call(j.rates, n_parts=n_parts))
            rec.append(call(j.activation_energies, n_parts))
        rec.append(call(j.rates))
        rec.append(call(j.activation_energies))
        g = call(j.to_graph)
        rec.append(g)
        e_acts = sorted(e[2][0][1] for e in g[2]) if g[0] == 'G' and g[2] else [0.1]
        # thresholds well away from any edge value so that 1-ulp jitter cannot flip the filtering
        h = len(e_acts) // 2
        mid = 0.5 * (e_acts[h - 1] + e_acts[h]) if h > 0 and e_acts[h] - e_acts[h - 1] > 1e-6 else e_acts[h] + 1e-3
        lo = e_acts[0] - 1e-3
        for kw in ({'min_e_act': mid}, {'max_e_act': mid}, {'min_e_act': lo, 'max_e_act': mid},
                   {'min_e_act': 0.0, 'max_e_act': 0}, {'min_e_act': float('nan')}, {'max_e_act': -1.0}):
            rec.append(call(j.to_graph, **kw))
        rec.append(call(j.to_graph, mid, None))
        labs = sorted(set(j.sites.labels))
        rec.append(call(j.activation_energy_between_sites, 0, 1))
        rec.append(call(j.activation_energy_between_sites, labs[0], labs[-1]))
        if with_collective:
            rec.append(call(lambda: j.collective().n_solo_jumps))
            rec.append(call(lambda: j.collective(max_dist=4.5).site_pair_count_matrix()))
            rec.append(call(lambda: j.solo_fraction))
        return rec

    out = []
    for seed in range(N_CASES):
        traj, sites, radius, inner = make_case(seed)
        with warnings.catch_warnings():
            warnings.simplefilter('ignore')
            tr = Transitions.from_trajectory(
                trajectory=traj, sites=sites, floating_specie='Li',
                site_radius=radius, site_inner_fraction=inner,
            )
        rec = [('n_events', tr.n_events)]
        objs = []
        for mr in (0, 1, 3, 10_000):
            try:
                objs.append(Jumps(tr, minimal_residence=mr))
            except ValueError as exc:
                rec.append(('EXC', 'ValueError', str(exc), mr))
        small = [j.n_jumps <= 40 for j in objs]
        for rnd in range(2):
            for j, sm in zip(objs, small):
                rec.append(query(j, rnd, sm))
        for j in objs[:2]:
            fresh = query(Jumps(tr, minimal_residence=j.minimal_residence), 0, False)
            cached = query(j, 0, False)
            assert same(fresh, cached), f'cache not transparent, seed {seed}: {first_diff(fresh, cached)}'
        refs = [weakref.ref(j) for j in objs]
        objs.clear()
        del j
        rec.append([r() is None for r in refs])
        gc.collect()
        rec.append([r() is None for r in refs])
        out.append(rec)
    sys.stdout.buffer.write(pickle.dumps(out))


RTOL = 1e-12  # numpy SIMD transcendental loops (np.log) jitter by 1 ulp with buffer alignment, even
# between two runs of the ORIGINAL code, so floats are compared to 1e-12 relative instead of bitwise
MAXDEV = [0.0]


def same(a, b):
    import numpy as np

    if isinstance(a, (list, tuple)):
        return type(a) is type(b) and len(a) == len(b) and all(same(x, y) for x, y in zip(a, b))
    if isinstance(a, np.ndarray):
        if not (isinstance(b, np.ndarray) and a.shape == b.shape and a.dtype == b.dtype):
            return False
        if a.dtype.kind != 'f':
            return bool(np.array_equal(a, b))
        if np.array_equal(a, b, equal_nan=True):
            return True
        if not np.array_equal(np.isnan(a), np.isnan(b)) or not np.array_equal(np.isinf(a), np.isinf(b)):
            return False
        fin = np.isfinite(a)
        if not np.array_equal(a[~fin & ~np.isnan(a)], b[~fin & ~np.isnan(b)]):
            return False
        scale = max(np.abs(a[fin]).max(), np.abs(b[fin]).max())
        dev = np.abs(a[fin] - b[fin]).max() / scale
        MAXDEV[0] = max(MAXDEV[0], float(dev))
        return bool(dev <= RTOL)
    if isinstance(a, float):
        if not isinstance(b, float):
            return False
        if a == b or (a != a and b != b):
            return True
        if a != a or b != b or abs(a) == float('inf') or abs(b) == float('inf'):
            return False
        dev = abs(a - b) / max(abs(a), abs(b))
        MAXDEV[0] = max(MAXDEV[0], dev)
        return dev <= RTOL
    return type(a) is type(b) and a == b


def first_diff(a, b, path=''):
    if isinstance(a, (list, tuple)) and isinstance(b, (list, tuple)) and len(a) == len(b):
        for i, (x, y) in enumerate(zip(a, b)):
            if not same(x, y):
                return first_diff(x, y, f'{path}[{i}]')
    return f'{path}: {a!r} != {b!r}'


def count(x, stats):
    if isinstance(x, tuple) and len(x) >= 3 and isinstance(x[0], str) and x[0] == 'EXC':
        stats['exc'] += 1
        stats.setdefault('kinds', set()).add(x[1] + ': ' + x[2][:60])
    elif isinstance(x, tuple) and x and isinstance(x[0], str) and x[0] in ('DF', 'G', 'D', 'FWU'):
        stats[x[0]] = stats.get(x[0], 0) + 1
    elif isinstance(x, (list, tuple)):
        for v in x:
            count(v, stats)
    else:
        stats['other'] += 1


def main():
    results = []
    for src in (ORIG_SRC, NEW_SRC):
        env = dict(os.environ, PYTHONPATH=src, EXPECT_SRC=src, PYTHONHASHSEED='0')
        proc = subprocess.run(
            [sys.executable, os.path.abspath(__file__), '--child'],
            env=env, stdout=subprocess.PIPE, stderr=subprocess.PIPE, cwd='/tmp',
        )
        if proc.returncode != 0:
            print(proc.stderr.decode()[-3000:])
            return 1
        results.append(pickle.loads(proc.stdout))
    if not same(results[0], results[1]):
        print('results differ:', first_diff(results[0], results[1]))
        return 1
    stats = {'exc': 0, 'other': 0}
    count(results[0], stats)
    kinds = stats.pop('kinds', set())
    print(f'{len(results[0])} random cases identical; value kinds: {stats}')
    for k in sorted(kinds):
        print('   exception kind seen (identically in both):', k)
    return 0


if __name__ == '__main__':
    if '--child' in sys.argv:
        child()
        sys.exit(0)
    rc = main()
    print(f'max relative float deviation seen: {MAXDEV[0]:.3g} (tolerance {RTOL})')
    print('EQUIVALENT' if rc == 0 else 'DIFFERENT')
    sys.exit(rc)
