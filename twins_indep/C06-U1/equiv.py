"""Differential test for refactoring C06/1 (mean_squared_displacement split into a pipeline).

The ORIGINAL implementation is the untouched HEAD of the repository (identical to /repo/src): it is
taken from $GEMDAT_ORIG_SRC when set, otherwise exported with `git archive HEAD` from the worktree
into a temporary directory.  The REFACTORED implementation is the worktree's working copy.
Both are run in separate subprocesses (PYTHONPATH differs) on identical randomised inputs.
Exit status is non-zero when any result differs.
"""
import io
import os
import pickle
import subprocess
import sys
import tarfile
import tempfile

WORKTREE = os.environ.get('GEMDAT_NEW_ROOT', '/tmp/wtu_C06')
N_CASES = 40
TOL = 1e-12


# --------------------------------------------------------------------------- worker
def make_lattice(rng, kind):
    import numpy as np

    if kind == 0:  # cubic
        a = rng.uniform(3, 12)
        return np.eye(3) * a
    if kind == 1:  # orthorhombic
        return np.diag(rng.uniform(3, 12, size=3))
    if kind == 2:  # hexagonal-like
        a, c = rng.uniform(3, 9, size=2)
        return np.array([[a, 0, 0], [-a / 2, a * np.sqrt(3) / 2, 0], [0, 0, c]])
    if kind == 3:  # general triclinic
        m = np.diag(rng.uniform(4, 10, size=3)) + rng.uniform(-2, 2, size=(3, 3))
        return m
    # rotated triclinic: random rotation applied to a sheared cell
    m = np.diag(rng.uniform(4, 10, size=3)) + np.triu(rng.uniform(-3, 3, size=(3, 3)), 1)
    q, _ = np.linalg.qr(rng.normal(size=(3, 3)))
    return m @ q


def make_case(seed):
    import numpy as np

    rng = np.random.default_rng(seed)
    kind = seed % 5
    lattice = make_lattice(rng, kind)
    n_times = [2, 3, 5, 8, 17, 32, 61][seed % 7]
    n_atoms = [1, 2, 3, 5, 9][(seed // 3) % 5]
    start = rng.uniform(0, 1, size=(1, n_atoms, 3))
    style = (seed // 5) % 4
    if style == 0:  # small thermal motion
        steps = rng.normal(scale=0.02, size=(n_times, n_atoms, 3))
    elif style == 1:  # strong drift: atoms cross the cell faces many times
        steps = rng.normal(scale=0.05, size=(n_times, n_atoms, 3)) + rng.uniform(-0.3, 0.3, size=(1, n_atoms, 3))
    elif style == 2:  # large jumps close to half a cell
        steps = rng.uniform(-0.49, 0.49, size=(n_times, n_atoms, 3))
    else:  # first atom immobile, others drifting
        steps = rng.normal(scale=0.1, size=(n_times, n_atoms, 3))
        steps[:, 0, :] = 0
    steps[0] = 0
    coords = start + np.cumsum(steps, axis=0)
    wrapped = (seed // 2) % 2 == 0
    if wrapped:
        coords = np.mod(coords, 1)
    as_displacements = seed % 11 == 0
    return dict(lattice=lattice, coords=coords, n_atoms=n_atoms, as_displacements=as_displacements,
                steps=steps, start=start, time_step=float(rng.uniform(0.5, 3)) * 1e-15)


def worker(out_path):
    import numpy as np
    from pymatgen.core import Element

    from gemdat import Trajectory
    from gemdat.metrics import TrajectoryMetrics

    elements = ['Li', 'Na', 'S', 'P', 'O', 'Cl', 'K', 'B', 'Si']
    results = {}
    for seed in range(N_CASES):
        case = make_case(seed)
        species = [Element(elements[i % len(elements)]) for i in range(case['n_atoms'])]
        kwargs = dict(species=species, lattice=case['lattice'], time_step=case['time_step'],
                      metadata={'temperature': 300})
        if case['as_displacements']:
            traj = Trajectory(coords=case['steps'].copy(), coords_are_displacement=True,
                              base_positions=case['start'][0].copy(), **kwargs)
        else:
            traj = Trajectory(coords=case['coords'].copy(), **kwargs)

        res = {}
        res['msd'] = traj.mean_squared_displacement()
        res['dist'] = traj.distances_from_base_position()
        res['cum'] = traj.cumulative_displacements
        # msd must not depend on the representation the coords are currently in
        traj.to_positions()
        res['msd_after_positions'] = traj.mean_squared_displacement()
        sub = traj[1:] if len(traj) > 2 else traj
        res['msd_sub'] = sub.mean_squared_displacement()
        res['dist_sub'] = sub.distances_from_base_position()
        metrics = TrajectoryMetrics(traj)
        for dim in (1, 2, 3):
            res[f'D{dim}'] = float(metrics.tracer_diffusivity(dimensions=dim))
        res['D_unit'] = str(metrics.tracer_diffusivity(dimensions=3).unit)
        res['speed'] = metrics.speed()
        res['D_com'] = float(metrics.tracer_diffusivity_center_of_mass(dimensions=3))
        try:
            res['haven'] = float(metrics.haven_ratio(dimensions=3))
        except ZeroDivisionError as exc:  # immobile centre of mass
            res['haven'] = f'{type(exc).__name__}: {exc}'
        res['msd_com'] = traj.center_of_mass().mean_squared_displacement()
        filt = traj.filter('Li')
        res['msd_li'] = filt.mean_squared_displacement()
        res['dist_li'] = filt.distances_from_base_position()
        results[seed] = res

    # module-level pieces, exercised directly on raw arrays (incl. an empty selection)
    import gemdat.trajectory as T
    from pymatgen.core import Lattice

    rng = np.random.default_rng(12345)
    for k in range(10):
        lat = Lattice(make_lattice(rng, k % 5))
        vecs = rng.normal(size=(k, 3))  # k == 0 -> empty selection
        results[f'lengths{k}'] = {'lengths': T._lengths(vecs, lattice=lat)}

    with open(out_path, 'wb') as f:
        pickle.dump(results, f)


# --------------------------------------------------------------------------- driver
def export_original(tmpdir):
    override = os.environ.get('GEMDAT_ORIG_SRC')
    if override:
        return override
    data = subprocess.run(['git', '-C', WORKTREE, 'archive', 'HEAD', 'src/gemdat'],
                          check=True, stdout=subprocess.PIPE).stdout
    with tarfile.open(fileobj=io.BytesIO(data)) as tar:
        tar.extractall(tmpdir)
    return os.path.join(tmpdir, 'src')


def run_worker(src, out_path):
    env = dict(os.environ)
    env['PYTHONPATH'] = src
    check = subprocess.run([sys.executable, '-c', 'import gemdat, os; print(os.path.dirname(gemdat.__file__))'],
                           env=env, check=True, stdout=subprocess.PIPE, text=True).stdout.strip()
    assert os.path.realpath(check).startswith(os.path.realpath(src)), (check, src)
    subprocess.run([sys.executable, os.path.abspath(__file__), '--worker', out_path], env=env, check=True)
    with open(out_path, 'rb') as f:
        return pickle.load(f)


def compare(a, b, where, stats):
    import numpy as np

    if isinstance(a, np.ndarray) or isinstance(b, np.ndarray):
        a = np.asarray(a)
        b = np.asarray(b)
        if a.shape != b.shape or a.dtype != b.dtype:
            print(f'DIFF {where}: shape/dtype {a.shape}/{a.dtype} vs {b.shape}/{b.dtype}')
            return False
        if a.tobytes() == b.tobytes():
            stats['bitwise'] += 1
            return True
        stats['approx'] += 1
        err = np.abs(a - b) / np.maximum(1.0, np.abs(a))
        if not np.all(np.isnan(a) == np.isnan(b)) or np.nanmax(err, initial=0.0) > TOL:
            print(f'DIFF {where}: max err {np.nanmax(err, initial=0.0)}')
            return False
        return True
    if isinstance(a, float):
        if a == b or (a != a and b != b):
            stats['bitwise'] += 1
            return True
        stats['approx'] += 1
        if abs(a - b) > TOL * max(1.0, abs(a)):
            print(f'DIFF {where}: {a!r} vs {b!r}')
            return False
        return True
    if a != b:
        print(f'DIFF {where}: {a!r} vs {b!r}')
        return False
    stats['bitwise'] += 1
    return True


def main():
    with tempfile.TemporaryDirectory() as tmp:
        orig_src = export_original(tmp)
        new_src = os.path.join(WORKTREE, 'src')
        orig = run_worker(orig_src, os.path.join(tmp, 'orig.pkl'))
        new = run_worker(new_src, os.path.join(tmp, 'new.pkl'))

    ok = True
    stats = {'bitwise': 0, 'approx': 0}
    if orig.keys() != new.keys():
        print('DIFF: different case keys')
        ok = False
    for case in orig:
        if orig[case].keys() != new[case].keys():
            print(f'DIFF case {case}: different result keys')
            ok = False
            continue
        for key in orig[case]:
            ok &= compare(orig[case][key], new[case][key], f'case {case} / {key}', stats)
    print(f'cases={len(orig)} compared bitwise-identical={stats["bitwise"]} within-tol-only={stats["approx"]}')
    print('EQUIVALENT' if ok else 'NOT EQUIVALENT')
    return 0 if ok else 1


if __name__ == '__main__':
    if len(sys.argv) == 3 and sys.argv[1] == '--worker':
        worker(sys.argv[2])
    else:
        sys.exit(main())
