"""Differential test for a behaviour-preserving refactoring (property C05).

The script runs itself twice in a subprocess: once with PYTHONPATH=/repo/src (ORIGINAL,
read-only) and once with PYTHONPATH=/tmp/wtu_C05/src (REFACTORED).  Each run evaluates the
jump / occupancy bookkeeping of gemdat on the same seeded random inputs and pickles plain
python / numpy observations; the parent compares them and exits non-zero on any difference.

Usage: /venv/bin/python equiv.py
"""

from __future__ import annotations

import os
import pickle
import subprocess
import sys
import tempfile
import warnings

ORIG_SRC = '/repo/src'
NEW_SRC = '/tmp/wtu_C05/src'
N_CASES = 36
RTOL = 1e-12


# --------------------------------------------------------------------------- inputs
def random_lattice(rng, kind):
    import numpy as np
    from pymatgen.core import Lattice

    if kind == 'cubic':
        return Lattice.cubic(rng.uniform(7.0, 10.0))
    if kind == 'ortho':
        return Lattice.orthorhombic(*rng.uniform(6.5, 11.0, size=3))
    if kind == 'hex':
        return Lattice.hexagonal(rng.uniform(7.0, 9.0), rng.uniform(7.0, 11.0))
    lat = Lattice.from_parameters(
        *rng.uniform(7.0, 11.0, size=3), *rng.uniform(65.0, 115.0, size=3)
    )
    if kind == 'triclinic':
        return lat
    # rotated: general orientation of the cell in space (not a-along-x)
    q, _ = np.linalg.qr(rng.normal(size=(3, 3)))
    if np.linalg.det(q) < 0:
        q[:, 0] *= -1
    return Lattice(lat.matrix @ q)


def random_sites(rng, lattice, n_sites, n_labels, near_face):
    import numpy as np
    from pymatgen.core import Structure

    coords: list = []
    tries = 0
    while len(coords) < n_sites and tries < 10000:
        tries += 1
        c = rng.uniform(0, 1, size=3)
        if near_face and len(coords) < 2:
            ax = rng.integers(3)
            c[ax] = rng.choice([0.01, 0.99, 0.0])
        if coords:
            d = lattice.get_all_distances(np.array([c]), np.array(coords))
            if d.min() < 2.2:
                continue
        coords.append(c)
    labels = [f'S{rng.integers(n_labels)}' for _ in coords]
    labels[0] = 'S0'
    return Structure(
        lattice=lattice, species=['Li'] * len(coords), coords=np.array(coords), labels=labels
    )


def random_trajectory(rng, lattice, sites, n_atoms, n_steps, stay, shared):
    """Atoms hop between sites (minimum image path), rattle, sometimes leave all sites.

    Unless `shared`, every atom owns a disjoint subset of the sites so that no site ever
    holds two atoms (pymatgen refuses occupancies > 1).
    """
    import numpy as np
    from pymatgen.core import Element

    import gemdat

    n_sites = len(sites)
    fsites = sites.frac_coords
    pos = np.zeros((n_steps, n_atoms + 1, 3))
    pos[:, 0] = rng.uniform(0, 1, size=3)  # framework atom, never moves
    inv = lattice.inv_matrix
    owned = np.array_split(rng.permutation(n_sites), n_atoms)
    for a in range(n_atoms):
        mine = np.arange(n_sites) if shared else owned[a]
        cur = int(rng.choice(mine))
        base = fsites[cur].copy()
        t = 0
        frozen = stay and a == 0
        while t < n_steps:
            dwell = int(rng.integers(1, 40))
            if frozen:
                dwell = n_steps
            for _ in range(dwell):
                if t >= n_steps:
                    break
                pos[t, a + 1] = base + (rng.normal(scale=0.12, size=3) @ inv)
                t += 1
            if t >= n_steps:
                break
            mode = rng.random()
            nxt = int(rng.choice(mine))
            delta = fsites[nxt] - fsites[cur]
            delta -= np.round(delta)  # shortest way, possibly through a cell face
            n_transit = int(rng.integers(0, 5))
            if mode < 0.15:
                # wander off to nowhere and come back to the same site
                off = rng.normal(scale=1.0, size=3) @ inv
                for _ in range(int(rng.integers(1, 6))):
                    if t >= n_steps:
                        break
                    pos[t, a + 1] = base + off
                    t += 1
                continue
            for k in range(n_transit):
                if t >= n_steps:
                    break
                pos[t, a + 1] = base + delta * (k + 1) / (n_transit + 1)
                t += 1
            base = base + delta
            cur = nxt
    return gemdat.Trajectory(
        species=[Element('O')] + [Element('Li')] * n_atoms,
        coords=pos,
        lattice=lattice.matrix,
        time_step=float(rng.choice([1e-15, 2e-15, 5e-16])),
        metadata={'temperature': float(rng.choice([300, 650.5, 900]))},
    )


def make_case(seed):
    import numpy as np

    rng = np.random.default_rng(1000 + seed)
    kind = ['cubic', 'ortho', 'hex', 'triclinic', 'rotated', 'rotated'][seed % 6]
    lattice = random_lattice(rng, kind)
    n_labels = int(rng.integers(1, 4))
    sites = random_sites(
        rng, lattice, int(rng.integers(3, 10)), n_labels, near_face=(seed % 2 == 0)
    )
    shared = seed % 12 == 7
    n_atoms = int(rng.integers(1, 6 if shared else max(2, len(sites) // 2 + 1)))
    n_steps = int(rng.integers(150, 420))
    traj = random_trajectory(
        rng, lattice, sites, n_atoms, n_steps, stay=(seed % 5 == 0), shared=shared
    )
    if seed % 3 == 0:
        radius = {lab: float(rng.uniform(0.45, 1.0)) for lab in sorted(set(sites.labels))}
        if seed % 9 == 0 and len(radius) > 1:
            # one site type is so small that it is (almost) never occupied
            radius[sorted(radius)[-1]] = 1e-4
    else:
        radius = float(rng.uniform(0.45, 1.0))
    inner = float(rng.choice([1.0, 0.8, 0.5, 0.3]))
    return dict(
        kind=kind,
        sites=sites,
        traj=traj,
        radius=radius,
        inner=inner,
        n_parts=int(rng.integers(2, 6)),
        minimal_residence=int(rng.choice([0, 0, 3, 12])),
    )


# --------------------------------------------------------------------------- observations
def guarded(fn):
    try:
        with warnings.catch_warnings():
            warnings.simplefilter('ignore')
            return ('ok', fn())
    except Exception as exc:  # noqa: BLE001 - the exception itself is the observation
        return ('exc', type(exc).__name__, str(exc))


def df_obs(df):
    import numpy as np

    return dict(
        index=[tuple(i) if isinstance(i, tuple) else i for i in df.index.tolist()],
        columns=list(df.columns),
        dtypes=[str(t) for t in df.dtypes],
        values=np.asarray(df.to_numpy(), dtype=float)
        if all(t.kind in 'fiu' for t in df.dtypes)
        else df.to_numpy().tolist(),
    )


def structure_obs(struct):
    return dict(
        species=[
            sorted((str(el), float(amt), type(amt).__name__) for el, amt in s.species.items())
            for s in struct
        ],
        num_atoms=[float(s.species.num_atoms) for s in struct],
        labels=list(struct.labels),
        frac=struct.frac_coords,
        lattice=struct.lattice.matrix,
    )


def graph_obs(G):
    return dict(
        nodes=[(n, dict(d)) for n, d in G.nodes(data=True)],
        edges=[
            (u, v, type(u).__name__, float(d['e_act']), type(d['e_act']).__name__, sorted(d))
            for u, v, d in G.edges(data=True)
        ],
        kind=type(G).__name__,
    )


def transitions_obs(tr, n_parts, minimal_residence):
    from gemdat.transitions import _calculate_transitions_matrix, _split_transitions_events

    obs = {}
    obs['events'] = df_obs(tr.events)
    obs['states'] = tr.states
    obs['t_matrix'] = guarded(lambda: tr.matrix())
    obs['t_matrix_dtype'] = guarded(lambda: str(tr.matrix().dtype))
    obs['occupancy'] = guarded(lambda: structure_obs(tr.occupancy()))
    obs['occ_by_type'] = guarded(lambda: list(tr.occupancy_by_site_type().items()))
    obs['atom_locations'] = guarded(lambda: list(tr.atom_locations().items()))
    obs['n'] = (tr.n_floating, tr.n_states, tr.n_events, tr.n_sites)

    def split_obs():
        parts = tr.split(n_parts)
        return [
            dict(
                events=df_obs(p.events),
                states=p.states,
                inner=p.inner_states,
                n_frames=len(p.trajectory),
                n_frames_diff=len(p.diff_trajectory),
                first=p.diff_trajectory.positions[0] if len(p.diff_trajectory) else None,
                matrix=p.matrix(),
                occ=structure_obs(p.occupancy()),
                loc=list(p.atom_locations().items()),
            )
            for p in parts
        ]

    obs['split'] = guarded(split_obs)
    obs['split_too_many'] = guarded(lambda: len(tr.split(tr.n_events + 1)))
    obs['split_events_time'] = guarded(
        lambda: [
            df_obs(p)
            for p in _split_transitions_events(tr.events, tr.n_states, n_parts=n_parts)
        ]
    )
    # sub-selections of events, including an empty one and one with only NOSITE rows
    ev = tr.events
    subsets = {
        'empty': ev.iloc[0:0],
        'nosite_only': ev[(ev['start site'] == -1) | (ev['destination site'] == -1)],
        'head': ev.iloc[: max(1, len(ev) // 3)],
        'rev': ev.iloc[::-1],
    }
    for name, sub in subsets.items():
        obs[f'matrix_{name}'] = guarded(
            lambda sub=sub: _calculate_transitions_matrix(sub, n_sites=tr.n_sites)
        )

    def jumps_obs():
        jumps = tr.jumps(minimal_residence=minimal_residence)
        out = {}
        out['data'] = df_obs(jumps.data)
        out['n'] = (jumps.n_jumps, jumps.n_floating)
        out['matrix'] = guarded(lambda: jumps.matrix())
        out['matrix_dtype'] = guarded(lambda: str(jumps.matrix().dtype))
        out['_counter'] = guarded(
            lambda: [(k, type(k[0]).__name__, v) for k, v in jumps._counter().items()]
        )
        out['counter'] = guarded(lambda: list(jumps.counter().items()))
        out['counter_type'] = guarded(lambda: type(jumps.counter()).__name__)
        out['counter_missing'] = guarded(lambda: jumps.counter()[('nope', 'S0')])
        out['site_pairs'] = jumps.site_pairs
        for dim in (1, 2, 3):
            out[f'jd{dim}'] = guarded(
                lambda dim=dim: (
                    float(jumps.jump_diffusivity(dim)),
                    type(jumps.jump_diffusivity(dim)).__name__,
                    str(getattr(jumps.jump_diffusivity(dim), 'unit', None)),
                )
            )
        out['graph'] = guarded(lambda: graph_obs(jumps.to_graph()))
        out['graph_min'] = guarded(lambda: graph_obs(jumps.to_graph(min_e_act=0.1)))
        out['graph_win'] = guarded(
            lambda: graph_obs(jumps.to_graph(min_e_act=0.05, max_e_act=0.25))
        )
        out['graph_zero'] = guarded(lambda: graph_obs(jumps.to_graph(min_e_act=0.0, max_e_act=0.0)))
        labels = sorted(set(jumps.sites.labels))
        out['e_between'] = [
            guarded(lambda a=a, b=b: float(jumps.activation_energy_between_sites(a, b)))
            for a in labels
            for b in labels
        ]
        out['rates'] = guarded(lambda: df_obs(jumps.rates(n_parts=n_parts)))
        out['rates_1'] = guarded(lambda: df_obs(jumps.rates(n_parts=1)))
        out['e_act'] = guarded(lambda: df_obs(jumps.activation_energies(n_parts=n_parts)))
        out['split'] = guarded(
            lambda: [
                (p.n_jumps, list(p.counter().items()), p.matrix()) for p in jumps.split(n_parts)
            ]
        )
        return out

    obs['jumps'] = guarded(jumps_obs)
    return obs


def synthetic_transitions(seed):
    """Transitions built directly from random state arrays (no geometry involved)."""
    import numpy as np
    from pymatgen.core import Element

    import gemdat
    from gemdat.transitions import Transitions, _calculate_transition_events

    rng = np.random.default_rng(5000 + seed)
    lattice = random_lattice(rng, ['triclinic', 'rotated', 'cubic'][seed % 3])
    n_sites = int(rng.integers(3, 9))
    sites = random_sites(rng, lattice, n_sites, int(rng.integers(1, 3)), near_face=True)
    n_sites = len(sites)
    n_atoms = int(rng.integers(1, n_sites // 2 + 1))
    owned = np.array_split(rng.permutation(n_sites), n_atoms)
    n_steps = int(rng.integers(60, 200))
    states = np.full((n_steps, n_atoms), -1)
    for a in range(n_atoms):
        t = 0
        while t < n_steps:
            length = int(rng.integers(1, 15))
            val = int(rng.choice(owned[a]))
            if seed % 4 and rng.random() < 0.25:
                val = -1
            states[t : t + length, a] = val
            t += length
    if seed % 4 == 1 and n_atoms > 1:
        states[:, 0] = -1  # an atom that is never at a site
    inner = np.where(rng.random(states.shape) < 0.7, states, -1)
    events = _calculate_transition_events(atom_sites=states, atom_inner_sites=inner)
    coords = rng.uniform(-0.5, 1.5, size=(n_steps, n_atoms, 3))
    traj = gemdat.Trajectory(
        species=[Element('Li')] * n_atoms,
        coords=coords,
        lattice=lattice.matrix,
        time_step=1e-15,
        metadata={'temperature': 450},
    )
    tr = Transitions(
        trajectory=traj,
        diff_trajectory=traj,
        sites=sites,
        events=events,
        states=states,
        inner_states=inner,
    )
    return tr, int(rng.integers(2, 5)), int(rng.choice([0, 2]))


def occupancy_edge_cases():
    """Occupancy bookkeeping on hand-made state arrays (only `sites` and `states` matter)."""
    import numpy as np
    from pymatgen.core import Element

    import gemdat
    from gemdat.transitions import Transitions

    rng = np.random.default_rng(77)
    out = {}
    for k, kind in enumerate(['triclinic', 'rotated', 'hex']):
        lattice = random_lattice(rng, kind)
        sites = random_sites(rng, lattice, 5, 2, near_face=True)
        n = len(sites)
        arrays = {
            'no_frames': np.zeros((0, 2), dtype=int),
            'all_nosite': np.full((7, 2), -1),
            'one_site_only': np.full((9, 1), n - 1),
            'out_of_range': np.array([[0, n + 3], [n, 1], [-1, 1]]),
            'other_negative': np.array([[0, -2], [-3, 1], [-1, 1], [2, -1]]),
            'int32': rng.permutation(np.arange(-1, n).repeat(3)).reshape(-1, 2).astype(np.int32)[:8],
        }
        for name, states in arrays.items():
            n_atoms = states.shape[1]
            traj = gemdat.Trajectory(
                species=[Element('Li')] * n_atoms,
                coords=rng.uniform(size=(max(1, len(states)), n_atoms, 3)),
                lattice=lattice.matrix,
                time_step=1e-15,
                metadata={'temperature': 300},
            )
            tr = Transitions(
                trajectory=traj,
                diff_trajectory=traj,
                sites=sites,
                events=None,
                states=states,
                inner_states=states,
            )
            out[f'{k}.{name}'] = dict(
                occ=guarded(lambda tr=tr: structure_obs(tr.occupancy())),
                by_type=guarded(lambda tr=tr: list(tr.occupancy_by_site_type().items())),
                loc=guarded(lambda tr=tr: list(tr.atom_locations().items())),
            )
    return out


def worker(out_path):
    results = {}
    for seed in range(N_CASES):
        case = make_case(seed)

        def build(case=case):
            return case['traj'].transitions_between_sites(
                sites=case['sites'],
                floating_specie='Li',
                site_radius=case['radius'],
                site_inner_fraction=case['inner'],
            )

        built = guarded(build)
        if built[0] != 'ok':
            results[f'geo{seed}'] = built
            continue
        results[f'geo{seed}'] = transitions_obs(
            built[1], case['n_parts'], case['minimal_residence']
        )
    for seed in range(12):
        built = guarded(lambda seed=seed: synthetic_transitions(seed))
        if built[0] != 'ok':
            results[f'syn{seed}'] = built
            continue
        tr, n_parts, min_res = built[1]
        results[f'syn{seed}'] = transitions_obs(tr, n_parts, min_res)
    results['occupancy_edge_cases'] = occupancy_edge_cases()
    with open(out_path, 'wb') as fh:
        pickle.dump(results, fh)


# --------------------------------------------------------------------------- comparison
def compare(a, b, path, problems):
    import numpy as np

    if isinstance(a, np.ndarray) or isinstance(b, np.ndarray):
        a_arr, b_arr = np.asarray(a), np.asarray(b)
        if a_arr.shape != b_arr.shape or a_arr.dtype != b_arr.dtype:
            problems.append(f'{path}: shape/dtype {a_arr.shape}{a_arr.dtype} vs {b_arr.shape}{b_arr.dtype}')
        elif a_arr.dtype.kind == 'f':
            if not np.allclose(a_arr, b_arr, rtol=RTOL, atol=0.0, equal_nan=True):
                problems.append(f'{path}: float arrays differ')
        elif not np.array_equal(a_arr, b_arr):
            problems.append(f'{path}: arrays differ')
        return
    if type(a) is not type(b):
        problems.append(f'{path}: type {type(a).__name__} vs {type(b).__name__}')
        return
    if isinstance(a, dict):
        if list(a.keys()) != list(b.keys()):
            problems.append(f'{path}: keys {list(a.keys())} vs {list(b.keys())}')
            return
        for k in a:
            compare(a[k], b[k], f'{path}.{k}', problems)
        return
    if isinstance(a, (list, tuple)):
        if len(a) != len(b):
            problems.append(f'{path}: len {len(a)} vs {len(b)}')
            return
        for i, (x, y) in enumerate(zip(a, b)):
            compare(x, y, f'{path}[{i}]', problems)
        return
    if isinstance(a, float):
        if not (a == b or (a != a and b != b) or abs(a - b) <= RTOL * max(abs(a), abs(b))):
            problems.append(f'{path}: {a!r} vs {b!r}')
        return
    if a != b:
        problems.append(f'{path}: {a!r} vs {b!r}')


def count_ok(res):
    n_jump_ok = sum(
        1 for v in res.values() if isinstance(v, dict) and 'jumps' in v and v['jumps'][0] == 'ok'
    )
    return n_jump_ok


def main():
    with tempfile.TemporaryDirectory() as td:
        outs = {}
        for tag, src in (('orig', ORIG_SRC), ('new', NEW_SRC)):
            out = os.path.join(td, f'{tag}.pkl')
            env = dict(os.environ, PYTHONPATH=src, PYTHONHASHSEED='0')
            subprocess.run(
                [sys.executable, os.path.abspath(__file__), '--worker', out], env=env, check=True
            )
            with open(out, 'rb') as fh:
                outs[tag] = pickle.load(fh)
    problems: list[str] = []
    compare(outs['orig'], outs['new'], 'res', problems)
    n_cases = len(outs['orig'])
    n_jump_ok = count_ok(outs['orig'])
    print(f'cases={n_cases} cases_with_jumps={n_jump_ok} differences={len(problems)}')
    for p in problems[:40]:
        print('  DIFF', p)
    if n_cases < 20 or n_jump_ok < 20:
        print('not enough effective cases')
        return 2
    return 1 if problems else 0


if __name__ == '__main__':
    if len(sys.argv) == 3 and sys.argv[1] == '--worker':
        import gemdat  # noqa: F401

        src = os.environ['PYTHONPATH'].split(os.pathsep)[0]
        assert os.path.abspath(gemdat.__file__).startswith(src), (gemdat.__file__, src)
        worker(sys.argv[2])
        sys.exit(0)
    sys.exit(main())
