"""Differential test for refactoring 3 (collective.Collective._compute).

Runs the same randomised cases once against /repo/src (original) and once against
/tmp/wtt_C07/src (refactored), each in its own subprocess, and compares the pickled results.
Exit code 0 iff all results are identical.
"""
import os
import pickle
import subprocess
import sys
import tempfile

ORIG = '/repo/src'
NEW = '/tmp/wtt_C07/src'
N_DIRECT = 60
N_PIPELINE = 16


def random_matrix(rng, kind):
    import numpy as np
    from pymatgen.core import Lattice
    from scipy.spatial.transform import Rotation

    if kind == 0:
        return np.eye(3) * 4.0  # with grid sites: distances exactly == max_dist occur
    if kind == 1:
        return np.diag(rng.uniform(3, 8, size=3))
    m = Lattice.from_parameters(*rng.uniform(4, 9, size=3), *rng.uniform(65, 115, size=3)).matrix.copy()
    if kind == 3:
        m = m @ Rotation.from_rotvec(rng.normal(size=3)).as_matrix().T
    return m


def summarize(coll):
    import numpy as np

    out = {
        'n_solo': (type(coll.n_solo_jumps).__name__, int(coll.n_solo_jumps)),
        'n_coll': (type(coll.n_coll_jumps).__name__, int(coll.n_coll_jumps)),
        'coll_jumps': [tuple((type(x).__name__, x.item() if hasattr(x, 'item') else x)
                             for pair in cj for x in pair) for cj in coll.coll_jumps],
        'collective': [
            tuple((ev.name, str(ev.dtype), list(ev.index), ev.tolist()) for ev in pair)
            for pair in coll.collective
        ],
        'labels': coll.site_pair_count_matrix_labels(),
        'matrix': coll.site_pair_count_matrix().tolist(),
    }
    try:
        jumps, counts = coll.multiple_collective()
        out['multiple'] = (jumps.tolist(), counts.tolist())
    except Exception as exc:
        out['multiple'] = ('exc', type(exc).__name__, str(exc))
    return out


def run_direct(seed):
    from types import SimpleNamespace

    import numpy as np
    import pandas as pd
    from pymatgen.core import Lattice, Structure

    from gemdat.collective import Collective

    rng = np.random.default_rng(seed)
    kind = seed % 4
    m = random_matrix(rng, kind)
    if kind == 0:
        g = np.array([[i, j, k] for i in range(4) for j in range(2) for k in range(2)]) / 4.0
        frac = g[rng.permutation(len(g))[: int(rng.integers(2, 12))]]
    else:
        frac = rng.random((int(rng.integers(2, 10)), 3))
        frac[0] = 0.0
        if len(frac) > 2:
            frac[1] = [0.999, 0.001, 0.5]  # neighbour through the cell face
    n_sites = len(frac)
    labels = [('A', 'B', 'C')[int(x)] for x in rng.integers(0, 3, size=n_sites)]
    sites = Structure(lattice=m, species=['Li'] * n_sites, coords=frac, labels=labels)

    n_ev = [0, 1, 2][seed % 3] if seed % 10 == 7 else int(rng.integers(2, 30))
    start = rng.integers(0, 40, size=n_ev)
    data = pd.DataFrame({
        'atom index': rng.integers(0, 4, size=n_ev),
        'start site': rng.integers(0, n_sites, size=n_ev),
        'destination site': rng.integers(0, n_sites, size=n_ev),
        'start time': start,
        'stop time': start + rng.integers(1, 8, size=n_ev),
    })
    if seed % 6 == 5:  # column order / index as produced by other conversion methods
        data = data[['start time', 'atom index', 'stop time', 'destination site', 'start site']]
        data.index = data.index[::-1]
    max_steps = int(rng.integers(0, 12))
    max_dist = 1.0 if kind == 0 else float(rng.uniform(0.5, 4.0))
    before = data.copy()
    try:
        coll = Collective(jumps=SimpleNamespace(data=data), sites=sites, lattice=Lattice(m),
                          max_steps=max_steps, max_dist=max_dist)
        res = ('ok', summarize(coll))
    except Exception as exc:
        res = ('exc', type(exc).__name__, str(exc))
    assert data.equals(before), 'input mutated'
    return res


def run_pipeline(seed):
    import warnings

    import numpy as np
    from pymatgen.core import Element, Structure

    import gemdat
    from gemdat.transitions import Transitions

    rng = np.random.default_rng(50_000 + seed)
    m = random_matrix(rng, 1 + seed % 3)
    n_sites = int(rng.integers(3, 7))
    frac = rng.random((n_sites, 3))
    frac[0] = 0.0
    sites = Structure(lattice=m, species=['Li'] * n_sites, coords=frac,
                      labels=[('A', 'B')[k % 2] for k in range(n_sites)])
    n_li, n_steps = int(rng.integers(2, 5)), int(rng.integers(60, 200))
    which = rng.integers(0, n_sites, size=(n_steps, n_li))
    hold = rng.random((n_steps, n_li)) < 0.9
    for t in range(1, n_steps):
        which[t] = np.where(hold[t], which[t - 1], which[t])
    li = frac[which] + rng.normal(scale=0.03, size=(n_steps, n_li, 3))
    host = rng.random((1, 2, 3)) + rng.normal(scale=0.01, size=(n_steps, 2, 3))
    traj = gemdat.Trajectory(
        species=[Element('Li')] * n_li + [Element('S')] * 2,
        coords=np.concatenate([li, host], axis=1), lattice=m, time_step=2e-15,
        metadata={'temperature': 300},
    )
    with warnings.catch_warnings():
        warnings.simplefilter('ignore')
        try:
            tr = Transitions.from_trajectory(trajectory=traj, sites=sites, floating_specie='Li',
                                             site_radius=float(rng.uniform(0.3, 0.9)))
            jumps = tr.jumps()
            coll = jumps.collective(max_dist=float(rng.uniform(1.0, 5.0)))
            return ('ok', summarize(coll), int(jumps.n_solo_jumps), float(jumps.solo_fraction),
                    int(coll.max_steps))
        except Exception as exc:
            return ('exc', type(exc).__name__, str(exc))


def worker(path):
    import gemdat

    results = {'__file__': os.path.dirname(gemdat.__file__)}
    for seed in range(N_DIRECT):
        results['direct', seed] = run_direct(seed)
    for seed in range(N_PIPELINE):
        results['pipeline', seed] = run_pipeline(seed)
    with open(path, 'wb') as fh:
        pickle.dump(results, fh)


def main():
    with tempfile.TemporaryDirectory() as td:
        outs = {}
        for tag, src in (('orig', ORIG), ('new', NEW)):
            path = os.path.join(td, tag + '.pkl')
            env = dict(os.environ, PYTHONPATH=src, PYTHONHASHSEED='0')
            subprocess.run([sys.executable, os.path.abspath(__file__), '--worker', path],
                           env=env, check=True)
            with open(path, 'rb') as fh:
                outs[tag] = pickle.load(fh)
    assert outs['orig'].pop('__file__') == ORIG + '/gemdat', 'original not imported from /repo'
    assert outs['new'].pop('__file__') == NEW + '/gemdat', 'refactored not imported from worktree'
    assert outs['orig'].keys() == outs['new'].keys()

    bad = n_ok = n_exc = n_pairs = n_with_pairs = n_all_solo = 0
    for key, a in outs['orig'].items():
        b = outs['new'][key]
        if a != b:
            bad += 1
            print(f'DIFF case={key}\n  orig={str(a)[:400]}\n  new ={str(b)[:400]}')
        if a[0] == 'ok':
            n_ok += 1
            n_pairs += len(a[1]['coll_jumps'])
            n_with_pairs += bool(a[1]['coll_jumps'])
            n_all_solo += not a[1]['coll_jumps']
        else:
            n_exc += 1
    print(f'cases={len(outs["orig"])} ok={n_ok} exceptions={n_exc} cases_with_collective={n_with_pairs} '
          f'cases_all_solo={n_all_solo} collective_pairs={n_pairs} differing={bad}')
    sys.exit(1 if bad else 0)


if __name__ == '__main__':
    if len(sys.argv) == 3 and sys.argv[1] == '--worker':
        worker(sys.argv[2])
    else:
        main()
