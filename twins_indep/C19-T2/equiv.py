"""Differential test: original (/repo/src) vs refactored (/tmp/wtt_C19/src) gemdat.

The same deterministic, seeded workload is executed in two subprocesses (one per
source tree, selected with PYTHONPATH); the pickled results are compared here.
Exit status 0 only if every result is identical (floats within 1e-12).
"""
import os
import pickle
import subprocess
import sys
import tempfile

ORIG = '/repo/src'
NEW = '/tmp/wtt_C19/src'
N_CASES = 30


# --------------------------------------------------------------------------- worker
def random_lattice(rng, kind):
    import numpy as np
    from pymatgen.core import Lattice

    if kind == 0:
        return Lattice.cubic(float(rng.uniform(4, 8)))
    if kind == 1:
        return Lattice.from_parameters(
            rng.uniform(4, 7), rng.uniform(5, 8), rng.uniform(6, 9),
            rng.uniform(70, 110), rng.uniform(70, 110), rng.uniform(70, 110),
        )
    # rotated triclinic cell (general matrix)
    base = Lattice.from_parameters(5.0, 6.5, 7.5, 80, 95, 105).matrix
    q, _ = np.linalg.qr(rng.normal(size=(3, 3)))
    if np.linalg.det(q) < 0:
        q[:, 0] *= -1
    return Lattice(base @ q)


def make_system(rng, case):
    import numpy as np
    from pymatgen.core import Element, Structure

    from gemdat import Trajectory

    lattice = random_lattice(rng, case % 3)
    n_sites = int(rng.integers(3, 7))
    site_frac = rng.uniform(0, 1, size=(n_sites, 3))
    # put a few sites right at a cell face
    site_frac[0, 0] = 0.0
    site_frac[-1, 1] = 0.999
    labels = [('A', 'B', 'C')[i % int(rng.integers(1, 4))] for i in range(n_sites)]
    sites = Structure(lattice, ['Li'] * n_sites, site_frac, labels=labels)

    n_li = int(rng.integers(1, 5))
    n_fw = int(rng.integers(1, 3))
    n_frames = int(rng.integers(12, 90))

    # Li atoms hop between sites with some dwell time and thermal noise,
    # with an occasional excursion far from any site ('no site' state)
    coords = np.empty((n_frames, n_li + n_fw, 3))
    for a in range(n_li):
        cur = int(rng.integers(0, n_sites))
        for t in range(n_frames):
            r = rng.random()
            if t in (0, 1, n_frames - 2, n_frames - 1) and rng.random() < 0.7:
                cur = int(rng.integers(0, n_sites))  # events at first/last frames
            elif r < 0.25:
                cur = int(rng.integers(0, n_sites))
            pos = site_frac[cur] + rng.normal(scale=0.01, size=3)
            if rng.random() < 0.15:
                pos = rng.uniform(-0.5, 1.5, size=3)  # wanders, crosses faces
            coords[t, a] = pos
    for b in range(n_fw):
        coords[:, n_li + b] = rng.uniform(0, 1, size=3) + rng.normal(scale=0.005, size=(n_frames, 3))

    species = [Element('Li')] * n_li + [Element('S')] * n_fw
    traj = Trajectory(
        species=species,
        coords=coords,
        lattice=lattice.matrix,
        time_step=float(rng.uniform(1e-15, 3e-15)),
        metadata={'temperature': float(rng.uniform(200, 900))},
    )
    return traj, sites


def dump_df(df):
    return {
        'columns': list(df.columns),
        'index': list(df.index),
        'dtypes': [str(d) for d in df.dtypes],
        'values': df.to_numpy().tolist(),
    }


def dump_traj(t):
    import numpy as np

    return {
        'len': len(t),
        'coords': np.asarray(t.coords),
        'species': [str(s) for s in t.species],
        'time_step': t.time_step,
        'metadata': dict(t.metadata),
        'lattice': np.asarray(t.get_lattice().matrix),
        'coords_are_displacement': t.coords_are_displacement,
    }


def guarded(fn):
    try:
        return ('ok', fn())
    except Exception as exc:  # noqa: BLE001
        return ('exc', type(exc).__name__, str(exc))


def dump_transitions(tr):
    return {
        'states': tr.states,
        'inner_states': tr.inner_states,
        'events': dump_df(tr.events),
        'trajectory': dump_traj(tr.trajectory),
        'diff_trajectory': dump_traj(tr.diff_trajectory),
        'sites': [list(map(float, s.frac_coords)) for s in tr.sites],
        'cls': type(tr).__name__,
    }


def dump_jumps(j):
    return {
        'data': dump_df(j.data),
        'counter': sorted(j.counter().items()),
        'minimal_residence': j.minimal_residence,
        'transitions': dump_transitions(j.transitions),
    }


def worker(out_path):
    import warnings

    import numpy as np
    import pandas as pd

    import gemdat
    from gemdat import Transitions
    from gemdat.transitions import _split_transitions_events

    warnings.simplefilter('ignore')
    results = {'__file__': os.path.dirname(gemdat.__file__)}

    for case in range(N_CASES):
        rng = np.random.default_rng(1900 + case)
        traj, sites = make_system(rng, case)
        res = {}

        # ---- Trajectory.split on the full and on displacement trajectories
        for n in sorted({1, 2, 3, int(rng.integers(1, len(traj))), len(traj) - 1, len(traj), len(traj) + 3}):
            for eq in (False, True):
                res['traj', n, eq] = guarded(lambda: [dump_traj(p) for p in traj.split(n, equal_parts=eq)])
        # exhaustive sweep over n_parts for this refactoring (Trajectory.split)
        for n in range(-2, len(traj) + 3):
            for eq in (False, True, 1, 0, 'yes', None):
                res['trajsweep', n, repr(eq)] = guarded(
                    lambda: [(len(p), float(p.coords.sum()), p.coords[0].tolist(), p.coords[-1].tolist())
                             for p in traj.split(n, equal_parts=eq)]
                )
        res['traj', 'kw'] = guarded(lambda: [dump_traj(p) for p in traj.split(n_parts=4, equal_parts=True)])
        res['traj', 'default'] = guarded(lambda: [dump_traj(p) for p in traj.split()])
        res['traj', 0] = guarded(lambda: [dump_traj(p) for p in traj.split(0, equal_parts=True)])
        res['traj', -3] = guarded(lambda: [dump_traj(p) for p in traj.split(-3)])
        disp = traj.filter('Li')
        disp.to_displacements()
        res['traj', 'disp'] = guarded(lambda: [dump_traj(p) for p in disp.split(3, equal_parts=True)])

        # ---- Transitions.split / Jumps.split
        tr = Transitions.from_trajectory(
            trajectory=traj,
            sites=sites,
            floating_specie='Li',
            site_radius=float(rng.uniform(0.4, 1.0)),
            site_inner_fraction=float(rng.choice([1.0, 0.5, 0.8])),
        )
        n_ev = tr.n_events
        res['n_events'] = n_ev
        ns = sorted({1, 2, 3, 5, max(1, n_ev // 2), max(1, n_ev - 1), max(1, n_ev), n_ev + 1})
        for n in ns:
            res['transitions', n] = guarded(lambda: [dump_transitions(p) for p in tr.split(n)])
        res['transitions', 0] = guarded(lambda: [dump_transitions(p) for p in tr.split(0)])
        res['transitions', -2] = guarded(lambda: [dump_transitions(p) for p in tr.split(-2)])
        res['transitions', 'default'] = guarded(lambda: [dump_transitions(p) for p in tr.split()])

        for minres in (0, 2):
            jumps = guarded(lambda: tr.jumps(minimal_residence=minres))
            if jumps[0] != 'ok':
                res['jumps', minres] = jumps
                continue
            jumps = jumps[1]
            res['jumps', minres] = dump_jumps(jumps)
            for n in (1, 2, 3, 4, 7):
                res['jumps', minres, 'split', n] = guarded(lambda: [dump_jumps(p) for p in jumps.split(n)])
                res['jumps', minres, 'rates', n] = guarded(lambda: dump_df(jumps.rates(n_parts=n)))

        # ---- _split_transitions_events directly on synthetic event tables
        n_states = int(rng.integers(1, 60))
        n_rows = int(rng.integers(0, 40))
        times = rng.integers(0, n_states + 2, size=n_rows)  # also beyond the last frame
        if n_rows >= 4:
            times[0] = 0
            times[1] = n_states - 1
            times[2] = n_states
            times[3] = n_states + 1
        if rng.random() < 0.5:
            times = np.sort(times)
        ev = pd.DataFrame(
            {
                'atom index': rng.integers(0, 5, size=n_rows),
                'start site': rng.integers(-1, 4, size=n_rows),
                'destination site': rng.integers(-1, 4, size=n_rows),
                'time': times,
                'stop time': times + rng.integers(1, 5, size=n_rows),
            }
        )
        if case % 4 == 1:
            ev.index = ev.index[::-1]
        if case % 4 == 2:
            ev['time'] = ev['time'].astype(float) + 0.5 * (case % 3 == 0)
        before = dump_df(ev)
        for n in sorted({1, 2, 3, max(1, n_rows // 2), max(1, n_rows), n_rows + 1, 0}):
            res['raw', n] = guarded(lambda: [dump_df(p) for p in _split_transitions_events(ev, n_states, n)])
            res['raw2', n] = guarded(
                lambda: [
                    dump_df(p)
                    for p in _split_transitions_events(
                        ev, n_states, n, split_key='time', dependent_keys=['time', 'stop time']
                    )
                ]
            )
            res['raw3', n] = guarded(
                lambda: [
                    dump_df(p)
                    for p in _split_transitions_events(ev, n_states, n, split_key='stop time', dependent_keys='nope')
                ]
            )
        res['raw_default'] = guarded(lambda: [dump_df(p) for p in _split_transitions_events(ev, n_states)])
        res['raw_input_untouched'] = (before == dump_df(ev))
        results[case] = res

    with open(out_path, 'wb') as fh:
        pickle.dump(results, fh)


# --------------------------------------------------------------------------- compare
def same(a, b, path, errors):
    import numpy as np

    if type(a) is not type(b) and not (isinstance(a, (int, float, np.number)) and isinstance(b, (int, float, np.number))):
        errors.append(f'{path}: type {type(a).__name__} != {type(b).__name__}')
    elif isinstance(a, dict):
        if list(a.keys()) != list(b.keys()):
            errors.append(f'{path}: keys differ {list(a)} != {list(b)}')
            return
        for k in a:
            same(a[k], b[k], f'{path}/{k}', errors)
    elif isinstance(a, (list, tuple)):
        if len(a) != len(b):
            errors.append(f'{path}: len {len(a)} != {len(b)}')
            return
        for i, (x, y) in enumerate(zip(a, b)):
            same(x, y, f'{path}[{i}]', errors)
    elif isinstance(a, np.ndarray):
        if a.shape != b.shape or a.dtype != b.dtype:
            errors.append(f'{path}: shape/dtype {a.shape}{a.dtype} != {b.shape}{b.dtype}')
        elif a.dtype.kind == 'f':
            if not np.allclose(a, b, rtol=0, atol=1e-12, equal_nan=True):
                errors.append(f'{path}: float arrays differ')
        elif not np.array_equal(a, b):
            errors.append(f'{path}: arrays differ')
    elif isinstance(a, float) or isinstance(a, np.floating):
        if not (a == b or abs(a - b) <= 1e-12 or (a != a and b != b)):
            errors.append(f'{path}: {a!r} != {b!r}')
    elif a != b:
        errors.append(f'{path}: {a!r} != {b!r}')


def main():
    outs = []
    with tempfile.TemporaryDirectory() as td:
        for name, src in (('orig', ORIG), ('new', NEW)):
            out = os.path.join(td, name + '.pkl')
            env = dict(os.environ, PYTHONPATH=src, PYTHONDONTWRITEBYTECODE='1', PYTHONHASHSEED='0')
            proc = subprocess.run([sys.executable, os.path.abspath(__file__), '--worker', out], env=env, cwd=td)
            if proc.returncode != 0:
                print(f'worker for {name} failed')
                return 2
            with open(out, 'rb') as fh:
                outs.append(pickle.load(fh))
    orig, new = outs
    assert orig.pop('__file__').startswith(ORIG), 'original tree not imported'
    assert new.pop('__file__').startswith(NEW), 'refactored tree not imported'
    errors = []
    same(orig, new, '', errors)
    n_ok = sum(1 for c in orig.values() for v in c.values() if isinstance(v, tuple) and v and v[0] == 'ok')
    n_exc = sum(1 for c in orig.values() for v in c.values() if isinstance(v, tuple) and v and v[0] == 'exc')
    print(f'cases={len(orig)} compared_calls_ok={n_ok} compared_calls_raising={n_exc} differences={len(errors)}')
    for e in errors[:40]:
        print('  DIFF', e)
    return 1 if errors else 0


if __name__ == '__main__':
    if len(sys.argv) == 3 and sys.argv[1] == '--worker':
        worker(sys.argv[2])
    else:
        sys.exit(main())
