"""Differential test: original vs refactored `_calculate_transition_events` (NamedTuple + generator pipeline)."""
import sys
import types
import importlib
import warnings

import numpy as np
import pandas as pd

WT = '/tmp/wtu_C03/src'
sys.path.insert(0, WT)

# original package under an alias (no __init__ executed, relative imports resolve inside /repo/src/gemdat)
orig_pkg = types.ModuleType('gemdat_orig')
orig_pkg.__path__ = ['/repo/src/gemdat']
sys.modules['gemdat_orig'] = orig_pkg
otr = importlib.import_module('gemdat_orig.transitions')
otraj = importlib.import_module('gemdat_orig.trajectory')

import gemdat  # noqa: E402
import gemdat.transitions as ntr  # noqa: E402

assert ntr.__file__.startswith(WT), ntr.__file__
assert otr.__file__.startswith('/repo/src'), otr.__file__

from pymatgen.core import Element, Lattice, Structure  # noqa: E402

warnings.simplefilter('ignore')
failures = 0
n_cases = 0


def run(mod, **kw):
    try:
        return 'ok', mod._calculate_transition_events(**kw)
    except Exception as e:  # noqa: BLE001
        return 'err', (type(e), str(e))


def compare(tag, a, b):
    global failures, n_cases
    n_cases += 1
    if a[0] != b[0]:
        print('FAIL', tag, 'status', a[0], b[0], a[1] if a[0] == 'err' else '', b[1] if b[0] == 'err' else '')
        failures += 1
        return
    if a[0] == 'err':
        if a[1] != b[1]:
            print('FAIL', tag, 'exception differs', a[1], b[1])
            failures += 1
        return
    try:
        pd.testing.assert_frame_equal(a[1], b[1], check_exact=True, check_dtype=True)
        assert a[1].to_numpy().dtype == b[1].to_numpy().dtype
        assert list(a[1].columns) == list(b[1].columns)
        assert a[1].index.equals(b[1].index)
    except AssertionError as e:
        print('FAIL', tag, e)
        failures += 1


def random_states(rng, n_t, n_a, n_sites, p_move, p_nosite, dtype=np.int64):
    states = np.empty((n_t, n_a), dtype=dtype)
    if n_t == 0:
        return states
    cur = rng.integers(-1, n_sites, size=n_a)
    for t in range(n_t):
        move = rng.random(n_a) < p_move
        new = rng.integers(0, n_sites, size=n_a)
        new[rng.random(n_a) < p_nosite] = -1
        cur = np.where(move, new, cur)
        states[t] = cur
    return states


rng = np.random.default_rng(20261001)

# --- randomised state histories --------------------------------------------------------
for case in range(80):
    n_t = int(rng.choice([1, 2, 3, 5, 17, 60, 200, 40, 90, 120]))
    n_a = int(rng.choice([1, 2, 4, 9]))
    n_sites = int(rng.integers(1, 7))
    p_move = float(rng.choice([0.0, 0.05, 0.2, 0.7, 0.1, 0.4]))
    p_nosite = float(rng.choice([0.0, 0.3, 0.9]))
    dtype = rng.choice([np.int64, np.int32, np.int16])
    states = random_states(rng, n_t, n_a, n_sites, p_move, p_nosite, dtype=dtype)
    mode = case % 4
    if mode == 0:  # inner site = subset of site
        inner = np.where(rng.random(states.shape) < 0.6, states, -1).astype(states.dtype)
    elif mode == 1:  # atoms never enter an inner site
        inner = np.full_like(states, -1)
    elif mode == 2:  # inner identical
        inner = states.copy()
    else:  # independent inner history (possibly other dtype)
        inner = random_states(rng, n_t, n_a, n_sites, 0.3, 0.5, dtype=np.int64)
    # force some atoms to stay in one site while their inner state flickers
    if n_a > 1 and n_t > 3 and case % 3 == 0:
        states[:, 0] = 2
        inner[:, 0] = np.where(rng.random(n_t) < 0.5, 2, -1)
    kw = dict(atom_sites=states, atom_inner_sites=inner)
    compare(f'rand{case}', run(otr, **kw), run(ntr, **kw))

# --- hand-made boundary cases --------------------------------------------------------------
hand = {
    'constant': (np.zeros((10, 3), int), np.zeros((10, 3), int)),
    'constant_inner_changes': (np.zeros((10, 2), int), np.tile(np.array([[0], [-1]]), (5, 2))),
    'zero_atoms': (np.zeros((10, 0), int), np.zeros((10, 0), int)),
    'zero_frames': (np.zeros((0, 3), int), np.zeros((0, 3), int)),
    'one_frame': (np.array([[0, 1, -1]]), np.array([[0, -1, -1]])),
    'two_frames': (np.array([[0, 1, -1], [1, 1, 0]]), np.array([[0, -1, -1], [-1, 1, 0]])),
    'last_step_only': (np.array([[0, 0], [0, 0], [1, 0]]), np.array([[-1, 0], [-1, 0], [-1, -1]])),
    'first_eq_last': (np.array([[3], [4], [4], [3]]), np.array([[3], [-1], [4], [3]])),
    'first_ne_last': (np.array([[3], [3], [3], [5]]), np.array([[-1], [-1], [-1], [-1]])),
    'float_states': (np.array([[0.0, 1.0], [1.0, 1.0], [-1.0, 2.0]]), np.array([[0, 1], [-1, 1], [-1, 2]])),
    'fortran_order': (np.asfortranarray(random_states(rng, 30, 4, 3, 0.3, 0.3)),
                      np.asfortranarray(random_states(rng, 30, 4, 3, 0.3, 0.3))),
}
# mismatched shapes (never produced by the library, the per-atom pipeline still treats them like the original)
hand['fewer_inner_atoms'] = (random_states(rng, 20, 4, 3, 0.4, 0.3), random_states(rng, 20, 2, 3, 0.4, 0.3))
hand['fewer_inner_frames'] = (random_states(rng, 20, 3, 3, 0.4, 0.3), random_states(rng, 12, 3, 3, 0.4, 0.3))
hand['more_inner_frames'] = (random_states(rng, 12, 3, 3, 0.4, 0.3), random_states(rng, 20, 3, 3, 0.4, 0.3))
for tag, (s, i) in hand.items():
    kw = dict(atom_sites=s, atom_inner_sites=i)
    compare(tag, run(otr, **kw), run(ntr, **kw))

# --- end to end through Transitions.from_trajectory (cubic, triclinic, rotated cells) -----------
def make_inputs(rng, lattice, n_t=80):
    site_frac = np.array([[0.1, 0.1, 0.1], [0.6, 0.1, 0.1], [0.1, 0.6, 0.1], [0.6, 0.6, 0.6], [0.95, 0.5, 0.02]])
    n_li = 3
    start = site_frac[rng.integers(0, len(site_frac), n_li)]
    steps = rng.normal(scale=0.03, size=(n_t, n_li, 3))
    li = start[None] + np.cumsum(steps, axis=0)
    fixed = np.tile(np.array([[0.3, 0.3, 0.3], [0.8, 0.8, 0.3]]), (n_t, 1, 1)) + rng.normal(scale=0.002, size=(n_t, 2, 3))
    coords = np.concatenate([li, fixed], axis=1)  # not wrapped: atoms cross cell faces
    species = [Element('Li')] * n_li + [Element('S')] * 2
    return species, coords, site_frac


lattices = [
    Lattice.cubic(6.0),
    Lattice.from_parameters(5.0, 6.0, 7.0, 80, 95, 110),
    Lattice.from_parameters(6.0, 6.0, 9.0, 90, 90, 120),
    Lattice(np.array([[0.0, 5.0, 0.0], [0.0, 0.0, 6.0], [7.0, 0.0, 0.0]])),  # rotated axes
    Lattice(np.array([[4.0, 1.0, 0.5], [-0.7, 5.0, 1.0], [0.3, -1.2, 6.0]])),
]
for li_, lattice in enumerate(lattices):
    for rep in range(3):
        species, coords, site_frac = make_inputs(rng, lattice)
        frac_inner = float(rng.choice([1.0, 0.5, 0.05]))
        res = []
        for tmod, trmod in ((otraj, otr), (gemdat.trajectory, ntr)):
            traj = tmod.Trajectory(species=species, coords=coords, lattice=lattice, time_step=1e-15,
                                   metadata={'temperature': 300})
            sites = Structure(lattice, ['Li'] * len(site_frac), site_frac, labels=['A', 'A', 'B', 'B', 'B'])
            try:
                tr = trmod.Transitions.from_trajectory(trajectory=traj, sites=sites, floating_specie='Li',
                                                       site_radius=1.2, site_inner_fraction=frac_inner)
                res.append(('ok', tr.events))
                res.append(('ok', pd.DataFrame(tr.matrix())))
            except Exception as e:  # noqa: BLE001
                res.append(('err', (type(e), str(e))))
                res.append(('err', (type(e), str(e))))
        compare(f'e2e_events_{li_}_{rep}', res[0], res[2])
        compare(f'e2e_matrix_{li_}_{rep}', res[1], res[3])

print(f'cases={n_cases} failures={failures}')
sys.exit(1 if failures else 0)
