"""Differential test for refactoring C09/4 (gemdat.path.optimal_percolating_path).

The same randomised inputs are evaluated in two subprocesses, one importing the ORIGINAL
package from /repo/src and one importing the refactored package from /tmp/wtt_C09/src.
All results (arrays bit-for-bit, dtypes, warnings, exceptions) must be identical.
"""

from __future__ import annotations

import os
import pickle
import subprocess
import sys
import tempfile

ORIG = '/repo/src'
NEW = '/tmp/wtt_C09/src'
PY = '/venv/bin/python'


def canon(obj):
    import numpy as np

    if isinstance(obj, np.ndarray):
        return ('nd', obj.dtype.str, obj.shape, np.ascontiguousarray(obj).tobytes())
    if isinstance(obj, np.generic):
        return ('npscalar', obj.dtype.str, obj.tobytes())
    if isinstance(obj, bool) or obj is None or isinstance(obj, (int, str)):
        return (type(obj).__name__, obj)
    if isinstance(obj, float):
        return ('float', obj.hex())
    if isinstance(obj, (list, tuple)):
        return (type(obj).__name__, [canon(o) for o in obj])
    if isinstance(obj, dict):
        return ('dict', [(canon(k), canon(v)) for k, v in obj.items()])
    raise TypeError(type(obj))


def make_cases():
    import numpy as np
    from pymatgen.core import Lattice

    rng = np.random.default_rng(9094)

    def lattice(i):
        kind = i % 3
        if kind == 0:
            return Lattice.cubic(float(rng.uniform(2, 4)))
        if kind == 1:
            return Lattice.from_parameters(*rng.uniform(2, 4, 3), *rng.uniform(65, 115, 3))
        m = Lattice.from_parameters(2.1, 3.2, 3.3, 75, 98, 108).matrix
        q, _ = np.linalg.qr(rng.normal(size=(3, 3)))
        return Lattice(m @ q)

    directions = ['x', 'y', 'z', 'xy', 'yz', 'xz', 'xyz', 'zx', 'x', 'z', 'y', '', 'q', 'x-z', ['x', 'z'], 'yx', None]
    cases = []
    for i in range(60):
        lat = lattice(i)
        mode = i % 5
        if mode == 0:
            # trajectory of a diffusing atom -> density on the voxel grid of the cell
            n_steps = int(rng.integers(20, 400))
            n_atoms = int(rng.integers(1, 4))
            coords = rng.random((1, n_atoms, 3)) + np.cumsum(
                rng.normal(scale=0.07, size=(n_steps, n_atoms, 3)), axis=0
            )
            payload = ('trajectory', coords % 1.0, float(rng.uniform(0.7, 1.2)))
        elif mode == 1:
            shape = tuple(int(x) for x in rng.integers(1, 5, 3))
            data = rng.poisson(float(rng.uniform(0.3, 2.0)), shape)
            if data.sum() == 0:
                data.flat[0] = 3
            payload = ('density', data)
        elif mode == 2:
            shape = tuple(int(x) for x in rng.integers(2, 5, 3))
            payload = ('density', rng.random(shape) + 0.01)  # everything visited
        elif mode == 3:
            # a few isolated visited voxels: their periodic images cannot be reached -> no path
            shape = tuple(int(x) for x in rng.integers(4, 6, 3))
            data = np.zeros(shape, dtype=int)
            for _ in range(int(rng.integers(1, 4))):
                data[tuple(int(rng.integers(0, s)) for s in shape)] = int(rng.integers(1, 50))
            payload = ('density', data)
        else:
            # one fully visited channel along a random axis plus isolated voxels:
            # some peaks percolate, others do not
            shape = tuple(int(x) for x in rng.integers(4, 6, 3))
            data = np.zeros(shape, dtype=int)
            axis = int(rng.integers(0, 3))
            index = [int(rng.integers(0, s)) for s in shape]
            index[axis] = slice(None)
            data[tuple(index)] = rng.integers(1, 60, shape[axis])
            for _ in range(3):
                data[tuple(int(rng.integers(0, s)) for s in shape)] += int(rng.integers(1, 50))
            payload = ('density', data)
        peak_mode = ['visited', 'mixed', 'empty', 'visited', 'list', 'visited'][i % 6]
        cases.append(
            (payload, lat, float(rng.uniform(100, 1200)), directions[i % len(directions)], peak_mode,
             int(rng.integers(0, 2**31)))
        )
    return cases


def safe_length(path, lattice):
    # Pathway.total_length asserts on zero-length steps (grid dimension 1); not under test here
    try:
        return float(path.total_length(lattice))
    except AssertionError:
        return 'assert'


def worker(out_path):
    import warnings

    import numpy as np
    from pymatgen.core import Element

    import gemdat
    from gemdat.path import optimal_percolating_path
    from gemdat.volume import Volume, trajectory_to_volume

    assert os.path.dirname(os.path.dirname(gemdat.__file__)) == os.environ['GEMDAT_EQUIV_SRC']

    results = []
    for payload, lat, temperature, percolate, peak_mode, seed in make_cases():
        rng = np.random.default_rng(seed)
        with warnings.catch_warnings(record=True) as caught:
            warnings.simplefilter('always')
            res = {}
            try:
                if payload[0] == 'trajectory':
                    coords = payload[1]
                    traj = gemdat.Trajectory(
                        species=[Element('Li')] * coords.shape[1],
                        coords=coords,
                        lattice=lat,
                        time_step=1e-15,
                        metadata={'temperature': temperature},
                    )
                    vol = trajectory_to_volume(traj, resolution=payload[2])
                else:
                    vol = Volume(data=payload[1], lattice=lat)
                F = vol.get_free_energy(temperature)
                res['dims'] = tuple(int(d) for d in F.dims)
                F_before = F.data.copy()

                visited = np.argwhere(vol.data > 0)
                unvisited = np.argwhere(vol.data == 0)
                rng.shuffle(visited)
                if peak_mode == 'visited':
                    peaks = visited[:4]
                elif peak_mode == 'mixed':  # a never-visited voxel is not a node -> NodeNotFound
                    peaks = np.vstack([visited[:2], unvisited[:1]]) if len(unvisited) else visited[:3]
                elif peak_mode == 'empty':
                    peaks = np.zeros((0, 3), dtype=int)
                else:
                    peaks = [tuple(int(x) for x in row) for row in visited[:3]]
                res['n_peaks'] = len(peaks)

                if seed % 2:
                    path = F.optimal_percolating_path(peaks=peaks, percolate=percolate)
                else:
                    path = optimal_percolating_path(F, peaks=peaks, percolate=percolate)

                res['F_untouched'] = bool(np.array_equal(F_before, F.data))
                if path is None:
                    res['path'] = None
                else:
                    res['path'] = {
                        'cls': type(path).__name__,
                        'sites': list(path.sites),
                        'energy': list(path.energy),
                        'total': path.total_energy,
                        'dims': path.dims,
                        'dims_is_F_dims': path.dims is F.dims,
                        'wrapped': path.wrapped_sites(),
                        'frac': path.frac_sites(),
                        'length': safe_length(path, F.lattice),
                        'start': path.start_site,
                        'stop': path.stop_site,
                    }
            except Exception as exc:  # noqa: BLE001
                res['exc'] = type(exc).__name__
                res['msg'] = str(exc)
        res['warnings'] = sorted((w.category.__name__, str(w.message)) for w in caught)
        results.append(canon(res))

    with open(out_path, 'wb') as fh:
        pickle.dump(results, fh)


def run(src, out_path):
    env = dict(os.environ, PYTHONPATH=src, GEMDAT_EQUIV_SRC=src)
    subprocess.run([PY, os.path.abspath(__file__), '--worker', out_path], env=env, check=True)
    with open(out_path, 'rb') as fh:
        return pickle.load(fh)


def main():
    with tempfile.TemporaryDirectory() as td:
        a = run(ORIG, os.path.join(td, 'orig.pkl'))
        b = run(NEW, os.path.join(td, 'new.pkl'))
    assert len(a) == len(b) and len(a) >= 20
    bad = [i for i, (x, y) in enumerate(zip(a, b)) if x != y]
    n_exc = sum(1 for x in a if any(k == ('str', 'exc') for k, _ in x[1]))
    print(f'cases={len(a)} raising={n_exc} differing={len(bad)}')
    if bad:
        for i in bad[:5]:
            print('DIFF in case', i, '\n  orig:', a[i], '\n  new: ', b[i])
        sys.exit(1)
    print('OK: identical results')


if __name__ == '__main__':
    if len(sys.argv) == 3 and sys.argv[1] == '--worker':
        worker(sys.argv[2])
    else:
        main()
