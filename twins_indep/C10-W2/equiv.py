"""Differential test: optimal_percolating_path (original /repo/src vs refactored /tmp/wtw_C10/src)."""
import importlib.util
import sys
import warnings

sys.path.insert(0, '/tmp/wtw_C10/src')
import numpy as np
import networkx as nx
import gemdat  # noqa: F401
from gemdat import path as new

spec = importlib.util.spec_from_file_location('gemdat._orig_path', '/repo/src/gemdat/path.py')
old = importlib.util.module_from_spec(spec)
sys.modules['gemdat._orig_path'] = old
spec.loader.exec_module(old)
assert old.__file__.startswith('/repo/') and new.__file__.startswith('/tmp/wtw_C10/')

from pymatgen.core import Lattice
from gemdat.volume import FreeEnergyVolume

warnings.simplefilter('ignore')
fails = 0


def run(mod, F, peaks, percolate):
    try:
        p = mod.optimal_percolating_path(F, peaks=peaks, percolate=percolate)
    except Exception as e:  # noqa: BLE001
        return ('exc', type(e).__name__, str(e))
    if p is None:
        return None
    return (
        [tuple(int(c) for c in s) for s in p.sites],
        [type(c).__name__ for s in p.sites for c in s],
        [float(e) for e in p.energy],
        float(p.total_energy),
        tuple(p.dims),
        p.wrapped_sites(),
        p.frac_sites().tolist(),
        repr(p),
    )


rng = np.random.default_rng(2024)
dirs = ['x', 'y', 'z', 'xy', 'yz', 'xz', 'xyz', 'zx', '', 'q', 'xq']
n = 0
for i in range(44):
    shape = tuple(int(x) for x in rng.integers(2, 6, size=3))
    data = rng.uniform(0.0, 5.0, size=shape)
    if i % 3 == 0:
        data = np.round(data)  # ties between peaks / paths
    if i % 4 == 1:
        # walls that block percolation along one axis (values above the 1e7 threshold / negative / nan)
        ax = int(rng.integers(3))
        sl = [slice(None)] * 3
        sl[ax] = int(rng.integers(shape[ax]))
        data[tuple(sl)] = [1e8, -1.0, np.nan, np.inf][i % 4 if i % 8 < 4 else (i // 4) % 4]
    if i % 5 == 2:
        data[rng.random(shape) < 0.3] = 1e9
    if i % 2:
        lat = Lattice.from_parameters(3 + rng.random(), 4 + rng.random(), 5 + rng.random(),
                                      55 + 60 * rng.random(), 65 + 40 * rng.random(), 75 + 40 * rng.random())
    else:
        lat = Lattice.cubic(4.0 + rng.random())
    F = FreeEnergyVolume(data=data, lattice=lat)
    k = int(rng.integers(0, 5))
    peaks = np.array([[int(rng.integers(s)) for s in shape] for _ in range(k)], dtype=int).reshape(k, 3)
    if i % 6 == 0 and k:
        peaks = np.vstack([peaks, peaks[:1]])  # duplicated peak -> equal cost, first must win
    percolate = dirs[i % len(dirs)]
    a = run(old, F, peaks, percolate)
    b = run(new, F, peaks, percolate)
    n += 1
    if a != b:
        fails += 1
        print('MISMATCH', i, shape, percolate, peaks.tolist())
        print('  old', a)
        print('  new', b)
    # peaks given as a list of tuples as well
    pl = [tuple(int(c) for c in p) for p in peaks]
    try:
        a2 = run(old, F, pl, percolate)
        b2 = run(new, F, pl, percolate)
    except Exception as e:  # noqa: BLE001
        a2, b2 = 1, 2
    if a2 != b2:
        fails += 1
        print('MISMATCH(list peaks)', i, a2, b2)

print(f'cases={n} fails={fails}')
sys.exit(1 if fails else 0)
