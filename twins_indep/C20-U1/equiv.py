"""Differential test for refactoring 1 (src/gemdat/caching.py: weak_lru_cache split into
private helpers, functools.update_wrapper instead of functools.wraps).

Part A loads the ORIGINAL caching.py from /repo/src and the refactored one from the
worktree under two different module names, decorates identical probe classes with both
and replays the same random history (create / query with varying args / drop / gc, with
more live objects than the cache size) against both.  The complete traces - returned
values, which calls were real computations, liveness of dropped objects, raised
exceptions, wrapper metadata - must be identical.  For the identity-hashed probe class the
returned value is additionally compared with an uncached recomputation (property C20).

Part B runs one gemdat-level history (TrajectoryMetrics on random trajectories, including
triclinic / rotated cells) in two subprocesses, PYTHONPATH=/repo/src and
PYTHONPATH=<worktree>/src, and compares the printed results.
"""
import gc
import importlib.util
import os
import subprocess
import sys
import weakref

import numpy as np

ORIG = '/repo/src/gemdat/caching.py'
WT = os.environ.get('C20_WORKTREE', '/tmp/wtu_C20')
NEW = f'{WT}/src/gemdat/caching.py'


def load(name, path):
    spec = importlib.util.spec_from_file_location(name, path)
    mod = importlib.util.module_from_spec(spec)
    spec.loader.exec_module(mod)
    return mod


orig = load('caching_orig', ORIG)
new = load('caching_new', NEW)


def make_classes(deco, maxsize):
    """Probe classes; `log` records every real (uncached) computation."""
    log = []

    class Ident:
        """Identity hash/eq, like every gemdat analysis class."""

        def __init__(self, val):
            self.val = val

        def raw_f(self, a, b=0, *, c=1):
            return ('f', self.val, a, b, c)

        @deco(maxsize=maxsize)
        def f(self, a, b=0, *, c=1):
            """doc of f."""
            log.append(('f', self.val, a, b, c))
            if a == 'boom':
                raise ValueError(f'boom {self.val}')
            return ('f', self.val, a, b, c), len(log)

        @deco()
        def g(self) -> tuple:
            log.append(('g', self.val))
            return ('g', self.val), len(log)

        @deco(maxsize=None)
        def h(self, *args, **kwargs):
            log.append(('h', self.val, args, tuple(kwargs.items())))
            return ('h', self.val, args, tuple(kwargs.items())), len(log)

        @deco(maxsize, True)
        def t(self, x):
            log.append(('t', self.val, x, type(x).__name__))
            return ('t', self.val, x, type(x).__name__), len(log)

        @deco(maxsize=0)
        def z(self, x=None):
            log.append(('z', self.val, x))
            return ('z', self.val, x), len(log)

    class ByValue(Ident):
        """Equality by value: live weak references then compare equal as well."""

        def __eq__(self, other):
            return type(other) is type(self) and other.val == self.val

        def __hash__(self):
            return hash(self.val)

    return Ident, ByValue, log


ARGS = [0, 1, 1.0, True, 2, 'x', 'boom', (1, 2), None, [1]]


def gen_history(rng, n_ops, maxsize):
    ops = []
    n_live = 0
    for _ in range(n_ops):
        r = rng.random()
        if n_live == 0 or r < 0.22 or (n_live <= maxsize and r < 0.35):
            ops.append(('create', int(rng.integers(2)), int(rng.integers(4))))
            n_live += 1
        elif r < 0.80:
            meth = str(rng.choice(['f', 'f', 'g', 'h', 't', 'z']))
            pick = lambda: ARGS[int(rng.integers(len(ARGS)))]
            if meth == 'f':
                form = int(rng.integers(5))
                call = {0: ((pick(),), {}), 1: ((pick(), pick()), {}), 2: ((pick(),), {'c': pick()}),
                        3: ((), {'a': pick()}), 4: ((pick(),), {'b': pick(), 'c': pick()})}[form]
            elif meth == 'g':
                call = ((), {})
            elif meth == 'h':
                call = (tuple(pick() for _ in range(int(rng.integers(3)))),
                        {k: pick() for k in ['p', 'q'][: int(rng.integers(3))]})
            elif meth == 't':
                call = ((pick(),), {})
            else:
                call = ((), {}) if rng.random() < 0.5 else ((pick(),), {})
            ops.append(('query', int(rng.integers(10**6)), meth, call))
        elif r < 0.93:
            ops.append(('drop', int(rng.integers(10**6))))
            n_live -= 1
        else:
            ops.append(('gc',))
    return ops


def replay(deco, ops, maxsize, check_transparent):
    Ident, ByValue, log = make_classes(deco, maxsize)
    live = []
    trace = []
    for op in ops:
        if op[0] == 'create':
            cls = (Ident, ByValue)[op[1]]
            live.append(cls(op[2]))
            trace.append(('created', cls.__name__, op[2]))
        elif op[0] == 'query':
            obj = live[op[1] % len(live)]
            args, kwargs = op[3]
            n_before = len(log)
            try:
                res = getattr(obj, op[2])(*args, **kwargs)
                out = ('ok', res)
                if check_transparent and type(obj) is Ident and op[2] == 'f':
                    assert res[0] == obj.raw_f(*args, **kwargs), (res, op)
            except Exception as exc:  # noqa: BLE001
                out = ('exc', type(exc).__name__, str(exc))
            trace.append((op[1] % len(live), op[2], repr(out), len(log) - n_before))
        elif op[0] == 'drop':
            i = op[1] % len(live)
            ref = weakref.ref(live[i])
            obj = None
            del live[i]
            trace.append(('dropped', i, ref() is None))
        else:
            gc.collect()
            trace.append(('gc',))
    meta = []
    for name in 'fghtz':
        m = getattr(Ident, name)
        meta.append((m.__name__, m.__qualname__.split('.')[-2:], m.__doc__, m.__module__,
                     dict(m.__annotations__), sorted(m.__dict__), callable(m.__wrapped__),
                     m.__wrapped__.__name__, type(m).__name__))
    return trace, list(map(repr, log)), meta


def part_a():
    n_hist = 0
    for seed in range(40):
        rng = np.random.default_rng(1000 + seed)
        maxsize = int(rng.choice([1, 2, 3, 8]))
        ops = gen_history(rng, 400, maxsize)
        t_orig = replay(orig.weak_lru_cache, ops, maxsize, check_transparent=True)
        t_new = replay(new.weak_lru_cache, ops, maxsize, check_transparent=True)
        if t_orig != t_new:
            for k, (a, b) in enumerate(zip(t_orig[0], t_new[0])):
                if a != b:
                    print('first trace difference at op', k, a, b)
                    break
            print(f'FAIL part A seed={seed}')
            return 1
        # every drop must have released the object immediately (no strong ref in the cache)
        assert all(e[2] for e in t_new[0] if e[0] == 'dropped'), 'object kept alive by the cache'
        n_hist += 1
    print(f'part A: {n_hist} random histories identical')
    return 0


PART_B = r'''
import gc, sys, weakref
import numpy as np
from pymatgen.core import Element, Lattice
import gemdat
from gemdat.metrics import TrajectoryMetrics

def lattice(rng, kind):
    if kind == 0:
        return Lattice.cubic(float(rng.uniform(6, 10)))
    lat = Lattice.from_parameters(*rng.uniform(6, 11, 3), *rng.uniform(65, 115, 3))
    if kind == 2:
        q, _ = np.linalg.qr(rng.normal(size=(3, 3)))
        lat = Lattice(lat.matrix @ q)
    return lat

def trajectory(rng):
    n_t, n_a = int(rng.integers(20, 60)), int(rng.integers(1, 5))
    steps = rng.normal(scale=0.03, size=(n_t, n_a, 3))
    coords = (rng.random((1, n_a, 3)) + np.cumsum(steps, axis=0)) % 1.0   # atoms cross cell faces
    return gemdat.Trajectory(species=[Element('Li')] * n_a, coords=coords,
                             lattice=lattice(rng, int(rng.integers(3))), time_step=1e-15,
                             metadata={'temperature': float(rng.choice([300, 700]))})

rng = np.random.default_rng(77)
live = []
for step in range(600):
    r = rng.random()
    if not live or r < 0.3:
        live.append(TrajectoryMetrics(trajectory(rng)))
        print('new')
    elif r < 0.8:
        m = live[int(rng.integers(len(live)))]
        which = int(rng.integers(6))
        dims = int(rng.integers(1, 4))
        if which == 0:
            out = m.tracer_diffusivity(dimensions=dims)
        elif which == 1:
            out = m.tracer_conductivity(z_ion=int(rng.integers(1, 3)), dimensions=dims)
        elif which == 2:
            out = m.haven_ratio(dimensions=dims)
        elif which == 3:
            out = m.vibration_amplitude()
        elif which == 4:
            out = m.attempt_frequency()
        else:
            out = m.amplitudes().tobytes().hex()[:64], m.speed().sum().hex()
        print(which, dims, repr(out), getattr(out, 'hex', lambda: '')())
    elif r < 0.93:
        i = int(rng.integers(len(live)))
        m = out = None
        ref = weakref.ref(live[i]); del live[i]
        print('drop', ref() is None)
    else:
        gc.collect(); print('gc')
print('live', len(live))
'''


def part_b():
    outs = []
    for src in ('/repo/src', f'{WT}/src'):
        env = dict(os.environ, PYTHONPATH=src, PYTHONHASHSEED='0')
        p = subprocess.run([sys.executable, '-W', 'ignore', '-c', PART_B], env=env, capture_output=True, text=True)
        if p.returncode != 0:
            print(p.stderr[-2000:])
            print('FAIL part B: subprocess failed for', src)
            return 1
        outs.append(p.stdout)
    if outs[0] != outs[1]:
        for k, (a, b) in enumerate(zip(outs[0].splitlines(), outs[1].splitlines())):
            if a != b:
                print('line', k, a, '!=', b)
                break
        print('FAIL part B')
        return 1
    n = len(outs[0].splitlines())
    assert n > 500 and 'drop False' not in outs[1]
    print(f'part B: gemdat-level history identical ({n} lines)')
    return 0


if __name__ == '__main__':
    rc = part_a() or part_b()
    print('EQUIVALENT' if rc == 0 else 'DIFFERENT')
    sys.exit(rc)
