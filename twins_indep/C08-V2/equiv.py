"""Differential test: original (/repo/src) vs refactored (/tmp/wtu_C08/src) Volume voxel <-> coordinate mapping.

Runs itself as a worker twice (PYTHONPATH=/repo/src and PYTHONPATH=/tmp/wtu_C08/src), pickles the
results of the same seeded random inputs and compares them bit-for-bit.  Exit code 0 == identical.
"""
import os
import pickle
import subprocess
import sys
import tempfile

ORIG = '/repo/src'
NEW = '/tmp/wtu_C08/src'
PY = '/venv/bin/python'


def worker(out):
    import warnings

    import numpy as np
    from pymatgen.core import Element, Lattice, PeriodicSite

    import gemdat
    from gemdat.volume import FreeEnergyVolume, Volume, trajectory_to_volume

    warnings.filterwarnings('ignore')
    assert os.path.dirname(gemdat.__file__).startswith(os.environ['EXPECT_ROOT']), gemdat.__file__
    rng = np.random.default_rng(80802)

    def rand_lattice(kind):
        if kind == 0:
            return Lattice.cubic(rng.uniform(1.5, 7))
        if kind == 1:
            return Lattice.orthorhombic(*rng.uniform(1.5, 8, 3))
        if kind == 2:
            return Lattice.from_parameters(*rng.uniform(2, 8, 3), *rng.uniform(65, 115, 3))
        m = Lattice.from_parameters(*rng.uniform(2, 8, 3), *rng.uniform(70, 110, 3)).matrix
        q, _ = np.linalg.qr(rng.normal(size=(3, 3)))
        return Lattice(m @ q)

    def enc(x):
        """Encode a result so that equality means bit-identical."""
        if isinstance(x, np.ndarray):
            return ('nd', x.dtype.str, x.shape, x.tobytes())
        if isinstance(x, np.generic):
            return ('np', x.dtype.str, x.tobytes())
        return ('py', type(x).__name__, repr(x))

    def call(f, *a, **k):
        try:
            return enc(f(*a, **k))
        except Exception as exc:  # noqa: BLE001
            return ('err', type(exc).__name__)

    results = []

    def add(key, val):
        results.append((key, val))

    for case in range(40):
        lat = rand_lattice(case % 4)
        dims = tuple(int(v) for v in rng.integers(1, 40, 3))
        cls = Volume if case % 3 else FreeEnergyVolume
        vol = cls(data=rng.integers(0, 50, size=dims), lattice=lat)
        g = np.array(dims)

        add((case, 'voxel_size'), call(lambda: vol.voxel_size))
        add((case, 'dims'), enc(tuple(vol.dims)))

        # voxel -> frac / cart, many input flavours
        all_vox = np.stack(np.meshgrid(*[np.arange(d) for d in dims], indexing='ij'), -1).reshape(-1, 3)
        pick = all_vox[rng.choice(len(all_vox), size=min(len(all_vox), 25), replace=False)]
        vox_inputs = {
            'single-list': [int(v) for v in pick[0]],
            'single-tuple': tuple(int(v) for v in pick[0]),
            'single-arr': pick[0],
            'many': pick,
            'many-list': pick.tolist(),
            'corner-lo': [0, 0, 0],
            'corner-hi': [d - 1 for d in dims],
            'outside': [-1, dims[1], 2 * dims[2] + 3],
            'float-vox': rng.uniform(-2, 45, size=(6, 3)),
            'float32-vox': rng.uniform(0, 30, size=(4, 3)).astype(np.float32),
            'int8-vox': np.array([1, 2, 3], dtype=np.int8),
            'bool-vox': np.array([True, False, True]),
            'scalar': 3,
            'empty': np.zeros((0, 3), dtype=int),
            'empty-list': [],
            'bad-shape': [1, 2],
            '3d': pick[:8].reshape(2, 4, 3),
        }
        for name, v in vox_inputs.items():
            add((case, 'v2f', name), call(vol.voxel_to_frac_coords, v))
            add((case, 'v2c', name), call(vol.voxel_to_cart_coords, v))

        # input must not be modified
        probe = pick.copy()
        vol.voxel_to_frac_coords(probe); vol.voxel_to_cart_coords(probe)
        add((case, 'v2f-noalias'), enc(probe))

        # frac -> voxel incl. voxel faces, cell faces and out-of-cell values
        faces = np.concatenate([np.arange(d + 1) / d for d in dims])
        faces = np.concatenate([faces, np.nextafter(faces, -1), np.nextafter(faces, 2)])
        frac_inputs = {
            'rand': rng.uniform(0, 1, size=(30, 3)),
            'faces': rng.choice(faces, size=(40, 3)),
            'outside': rng.uniform(-2, 3, size=(10, 3)),
            'zero': [0.0, 0.0, 0.0],
            'neg-zero': [-0.0, -0.0, -0.0],
            'almost-one': [np.nextafter(1.0, 0.0)] * 3,
            'one': [1.0, 1.0, 1.0],
            'tuple': tuple(rng.uniform(0, 1, 3)),
            'int-frac': np.array([0, 1, 0]),
            'float32': rng.uniform(0, 1, size=(5, 3)).astype(np.float32),
            'scalar': 0.37,
            'empty': np.zeros((0, 3)),
            'bad-shape': [0.1, 0.2],
            'centres': (all_vox[:50] + 0.5) / g,
        }
        for name, f in frac_inputs.items():
            add((case, 'f2v', name), call(vol.frac_coords_to_voxel, f))
        probe = frac_inputs['rand'].copy()
        vol.frac_coords_to_voxel(probe)
        add((case, 'f2v-noalias'), enc(probe))

        # round trip voxel -> centre -> voxel
        add((case, 'roundtrip'), call(lambda: vol.frac_coords_to_voxel(vol.voxel_to_frac_coords(all_vox[:200]))))

        # sites (atoms outside the cell, cartesian input, to_unit_cell)
        for s in range(6):
            fc = rng.uniform(-1.5, 2.5, 3) if s % 2 else rng.choice(faces, 3)
            site = PeriodicSite(Element('Li'), fc, lat, to_unit_cell=bool(s % 3 == 0))
            add((case, 'site', s), call(vol.site_to_voxel, site))
            csite = PeriodicSite(Element('Na'), lat.get_cartesian_coords(fc), lat, coords_are_cartesian=True)
            add((case, 'csite', s), call(vol.site_to_voxel, csite))

        # changing .dims after construction is honoured by every conversion
        vol.dims = tuple(int(v) for v in rng.integers(1, 9, 3))
        add((case, 'redim-size'), call(lambda: vol.voxel_size))
        add((case, 'redim-v2f'), call(vol.voxel_to_frac_coords, [1, 2, 3]))
        add((case, 'redim-f2v'), call(vol.frac_coords_to_voxel, [0.3, 0.6, 0.99]))
        vol.dims = list(vol.dims)
        add((case, 'listdim-size'), call(lambda: vol.voxel_size))
        add((case, 'listdim-v2c'), call(vol.voxel_to_cart_coords, [1, 2, 3]))

    # --- density volumes from trajectories, peaks -> structure (uses the centroid helper) --------
    for case in range(24):
        lat = rand_lattice(case % 4)
        n_atoms = int(rng.integers(1, 4))
        n_frames = int(rng.integers(40, 120))
        centres = rng.uniform(0, 1, size=(1, n_atoms, 3))
        if case % 2:
            centres[0, 0] = [0.01, 0.99, 0.5]  # blob wrapping around the cell faces
        coords = centres + rng.normal(scale=0.03, size=(n_frames, n_atoms, 3))
        traj = gemdat.Trajectory(
            species=[Element('Li')] * n_atoms, coords=coords, lattice=lat, time_step=1e-15,
            metadata={'temperature': 300},
        )
        res = float(rng.choice([0.2, 0.3, 0.45]))
        vol = trajectory_to_volume(traj, resolution=res)
        add((case, 'T-size'), call(lambda: vol.voxel_size))
        add((case, 'T-data'), enc(vol.data))
        peaks = np.unique(vol.frac_coords_to_voxel(traj.positions[::10].reshape(-1, 3)), axis=0)
        add((case, 'T-peaks'), enc(peaks))
        for bg in (0.0, 0.1, 0.5):
            props = vol._peaks_to_props(peaks=peaks, background_level=bg)
            add((case, 'T-centroid', bg), call(lambda: vol._props_to_frac_coords_centroid(props=props)))
            add((case, 'T-struct', bg), call(lambda: vol.to_structure(peaks=peaks, background_level=bg).frac_coords))
        add((case, 'T-centroid-empty'), call(lambda: vol._props_to_frac_coords_centroid(props=[])))
        add((case, 'T-findpeaks-struct'), call(lambda: vol.to_structure().frac_coords))
        fe = vol.get_free_energy(temperature=300.0)
        add((case, 'T-fe-size'), call(lambda: fe.voxel_size))
        add((case, 'T-fe-v2c'), call(fe.voxel_to_cart_coords, peaks))

    with open(out, 'wb') as fh:
        pickle.dump(results, fh)


def main():
    outs = []
    with tempfile.TemporaryDirectory() as td:
        for tag, root in (('orig', ORIG), ('new', NEW)):
            out = os.path.join(td, tag + '.pkl')
            env = dict(os.environ, PYTHONPATH=root, EXPECT_ROOT=root)
            subprocess.run([PY, os.path.abspath(__file__), '--worker', out], check=True, env=env)
            with open(out, 'rb') as fh:
                outs.append(pickle.load(fh))
    a, b = outs
    bad = 0
    if len(a) != len(b):
        print('different number of results', len(a), len(b))
        bad += 1
    for (ka, ra), (kb, rb) in zip(a, b):
        if ka != kb or ra != rb:
            bad += 1
            print('DIFF', ka, kb, ra[:3], rb[:3])
    n_err = sum(1 for _, r in a if r[0] == 'err')
    kinds = sorted({(k[1], r[1]) for k, r in a if r[0] == 'err'})
    print(f'compared {len(a)} results ({n_err} of them expected exceptions: {kinds}): {bad} differences')
    sys.exit(1 if bad else 0)


if __name__ == '__main__':
    if len(sys.argv) == 3 and sys.argv[1] == '--worker':
        worker(sys.argv[2])
    else:
        main()
