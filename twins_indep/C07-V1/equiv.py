"""Differential test for refactoring 1 (C07): _calculate_atom_states via _SiteGroup / _iter_site_groups.

Runs the same randomised cases in two subprocesses (PYTHONPATH=/repo/src = original,
PYTHONPATH=/tmp/wtu_C07/src = refactored), pickles the results and compares them exactly.
"""
import os
import pickle
import subprocess
import sys
import tempfile

ORIG = '/repo/src'
NEW = '/tmp/wtu_C07/src'
N_CASES = 36


def make_case(seed):
    import numpy as np
    from pymatgen.core import Element, Lattice, Structure
    from scipy.spatial.transform import Rotation

    from gemdat import Trajectory

    rng = np.random.default_rng(seed)
    kind = seed % 4
    if kind == 0:
        lattice = Lattice.cubic(rng.uniform(5, 7))
    elif kind == 1:
        lattice = Lattice.from_parameters(*rng.uniform(5, 8, 3), *rng.uniform(70, 110, 3))
    elif kind == 2:
        lattice = Lattice.from_parameters(*rng.uniform(5, 8, 3), *rng.uniform(60, 120, 3))
        rot = Rotation.random(random_state=seed).as_matrix()
        lattice = Lattice(lattice.matrix @ rot.T)
    else:
        lattice = Lattice.orthorhombic(*rng.uniform(4, 9, 3))

    n_sites = int(rng.integers(3, 9))
    # well separated sites: rejection sample
    site_frac = []
    while len(site_frac) < n_sites:
        c = rng.random(3)
        if seed % 5 == 0 and len(site_frac) == 0:
            c = np.array([0.0, 0.999, 0.5])  # on a cell face
        if all(lattice.get_all_distances(c, s)[0, 0] > 1.6 for s in site_frac):
            site_frac.append(c)
    site_frac = np.array(site_frac)
    labels = [('A', 'B', 'C')[i % (2 + seed % 2)] for i in range(n_sites)]
    rng.shuffle(labels)
    sites = Structure(lattice, ['Li'] * n_sites, site_frac, labels=list(labels))

    n_steps = int(rng.integers(1, 60))
    n_li = int(rng.integers(1, 6))
    n_fix = int(rng.integers(0, 3))
    start = site_frac[rng.integers(0, n_sites, n_li)]
    # random walk in fractional coordinates, not wrapped: crosses the cell faces
    steps = rng.normal(0, 0.035, (n_steps, n_li, 3))
    li = start[None] + np.cumsum(steps, axis=0)
    fix = rng.random((1, n_fix, 3)) + rng.normal(0, 0.005, (n_steps, n_fix, 3))
    coords = np.concatenate([li, fix], axis=1) + rng.integers(-1, 2, 3)
    species = [Element('Li')] * n_li + [Element('O')] * n_fix
    order = rng.permutation(n_li + n_fix)
    coords = coords[:, order]
    species = [species[i] for i in order]
    traj = Trajectory(
        species=species,
        coords=coords,
        lattice=lattice,
        time_step=1e-15,
        metadata={'temperature': 300},
    )
    return rng, traj, sites


def run_case(seed):
    import warnings

    import numpy as np

    from gemdat import Transitions
    from gemdat.transitions import _calculate_atom_states

    rng, traj, sites = make_case(seed)
    diff = traj.filter('Li')
    out = {}
    present = sorted(set(sites.labels))
    radius_specs = {
        'all': {'': float(rng.uniform(0.4, 1.2))},
        'per_label': {lab: float(rng.uniform(0.3, 1.3)) for lab in present},
        'per_label_rev': {lab: float(rng.uniform(0.3, 1.3)) for lab in reversed(present)},
        'mixed': {present[0]: 1.1, '': 0.6},
        'tiny': {present[-1]: 1e-9, present[0]: 0.9},
        'overlap': {'': float(rng.uniform(1.5, 2.5))},
        'missing_label': {present[0]: 0.8, 'Zz': 0.8},
        'empty': {},
    }
    for name, spec in radius_specs.items():
        for frac in (1.0, float(rng.uniform(0.2, 0.9))):
            with warnings.catch_warnings(record=True) as w:
                warnings.simplefilter('always')
                try:
                    res = _calculate_atom_states(
                        sites=sites, trajectory=diff, site_radius=spec, site_inner_fraction=frac
                    )
                    res = (res.dtype.str, res.shape, res.tolist())
                except Exception as exc:  # same error type expected on both sides
                    res = ('EXC', type(exc).__name__)
            out[name, frac] = (res, [(str(x.message), x.category.__name__) for x in w])

    for radius in (None, 0.9, {lab: 0.8 for lab in present}):
        with warnings.catch_warnings(record=True) as w:
            warnings.simplefilter('always')
            try:
                tr = Transitions.from_trajectory(
                    trajectory=traj,
                    sites=sites,
                    floating_specie='Li',
                    site_radius=radius,
                    site_inner_fraction=0.7,
                )
                res = (
                    tr.states.tolist(),
                    tr.inner_states.tolist(),
                    tr.events.to_numpy().tolist(),
                    list(tr.events.columns),
                    tr.matrix().tolist(),
                    tr.occupancy().as_dict()['sites'],
                )
            except Exception as exc:
                res = ('EXC', type(exc).__name__, str(exc))
        out['from_trajectory', repr(radius)] = (
            res,
            [(str(x.message), x.category.__name__, os.path.basename(x.filename)) for x in w],
        )
    return out


def worker(path):
    results = {seed: run_case(seed) for seed in range(N_CASES)}
    with open(path, 'wb') as fh:
        pickle.dump(results, fh)


def main():
    outs = []
    with tempfile.TemporaryDirectory() as td:
        for tag, src in (('orig', ORIG), ('new', NEW)):
            path = os.path.join(td, tag + '.pkl')
            env = dict(os.environ, PYTHONPATH=src, PYTHONHASHSEED='0')
            subprocess.run([sys.executable, __file__, '--worker', path], env=env, check=True)
            with open(path, 'rb') as fh:
                outs.append(pickle.load(fh))
    orig, new = outs
    bad = 0
    n_checks = 0
    n_states_hit = 0
    for seed in orig:
        for key in orig[seed]:
            n_checks += 1
            if orig[seed][key] != new[seed][key]:
                bad += 1
                print('DIFF seed', seed, key)
            res = orig[seed][key][0]
            if res[0] != 'EXC' and key[0] != 'from_trajectory':
                n_states_hit += any(v != -1 for row in res[2] for v in row)
    print(f'cases={len(orig)} checks={n_checks} with_occupied_sites={n_states_hit} differences={bad}')
    sys.exit(1 if bad else 0)


if __name__ == '__main__':
    if len(sys.argv) > 2 and sys.argv[1] == '--worker':
        import gemdat

        assert gemdat.__file__.startswith(os.environ['PYTHONPATH']), gemdat.__file__
        worker(sys.argv[2])
    else:
        main()
