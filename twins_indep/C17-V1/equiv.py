"""Differential test for gemdat.shape (property C17).

Runs the ORIGINAL implementation (/repo/src, read-only) and the refactored one
(/tmp/wtu_C17/src) in two subprocesses on identical randomised inputs and compares
all results bit for bit (shape, dtype, values) - exceptions are compared by type and text.
Exit status 0 = equivalent, 1 = difference found.
"""
import os
import pickle
import subprocess
import sys
import tempfile

ORIG = '/repo/src'
TWIN = '/tmp/wtu_C17/src'
N_RANDOM = 48


def worker(out_path):
    import warnings

    import numpy as np
    from pymatgen.core import Element, Lattice, PeriodicSite, Structure
    from pymatgen.symmetry.groups import SpaceGroup

    import gemdat
    from gemdat.shape import ShapeAnalyzer, ShapeData

    assert gemdat.__file__.startswith(os.environ['EXPECT_ROOT']), gemdat.__file__
    warnings.simplefilter('ignore')
    rng = np.random.default_rng(20261001)

    def rotation(rng):
        q, r = np.linalg.qr(rng.normal(size=(3, 3)))
        q = q * np.sign(np.diag(r))
        if np.linalg.det(q) < 0:
            q[:, 0] = -q[:, 0]
        return q

    def lattice_for(kind, rng):
        a, b, c = rng.uniform(3.0, 7.5, size=3)
        if kind == 'cubic':
            lat = Lattice.cubic(a)
        elif kind == 'tetragonal':
            lat = Lattice.tetragonal(a, c)
        elif kind == 'orthorhombic':
            lat = Lattice.orthorhombic(a, b, c)
        elif kind == 'hexagonal':
            lat = Lattice.hexagonal(a, c)
        elif kind == 'rhombohedral':
            lat = Lattice.rhombohedral(a, rng.uniform(55, 100))
        elif kind == 'monoclinic':
            lat = Lattice.monoclinic(a, b, c, rng.uniform(92, 125))
        else:
            lat = Lattice.from_parameters(a, b, c, *rng.uniform(65, 115, size=3))
        return lat

    SG = [
        ('Fm-3m', 'cubic'), ('Pm-3m', 'cubic'), ('Ia-3d', 'cubic'), ('I4/mmm', 'tetragonal'),
        ('P4_2/mnm', 'tetragonal'), ('Pnma', 'orthorhombic'), ('Cmcm', 'orthorhombic'),
        ('P6_3/mmc', 'hexagonal'), ('P-3m1', 'hexagonal'), ('R-3m', 'hexagonal'),
        ('C2/m', 'monoclinic'), ('P2_1/c', 'monoclinic'), ('P-1', 'triclinic'), ('P1', 'triclinic'),
    ]

    def make_positions(rng, sites_frac, n):
        pos = rng.uniform(-0.6, 1.6, size=(n, 3))
        # points sitting exactly on cell faces / corners
        k = max(1, n // 10)
        pos[:k] = rng.integers(-1, 3, size=(k, 3)).astype(float)
        pos[k:2 * k, rng.integers(0, 3)] = 1.0
        # points close to (and exactly at) the sites, shifted by lattice vectors
        for j in range(2 * k, min(n, 6 * k)):
            s = sites_frac[rng.integers(len(sites_frac))]
            pos[j] = s + rng.normal(scale=0.04, size=3) + rng.integers(-2, 3, size=3)
        if n > 6 * k:
            pos[6 * k] = sites_frac[0]
        return pos

    def dump(shapes):
        out = []
        for s in shapes:
            assert isinstance(s, ShapeData)
            c = np.asarray(s.coords)
            out.append((s.site.label, tuple(s.site.frac_coords.tolist()), float(s.radius), str(c.dtype), c.shape,
                        c.tobytes(), s.distances().tobytes(), np.asarray(s.origin).tobytes()))
        return out

    def guarded(fn):
        try:
            return ('ok', fn())
        except Exception as exc:  # noqa: BLE001
            return ('exc', type(exc).__name__, str(exc))

    results = []
    for case in range(N_RANDOM):
        sg_symbol, kind = SG[case % len(SG)]
        lat = lattice_for(kind, rng)
        if case % 3 == 1:  # rotated cell (generic orientation in space)
            lat = Lattice(lat.matrix @ rotation(rng))
        n_unique = int(rng.integers(1, 4))
        frac = rng.uniform(0, 1, size=(n_unique, 3))
        if case % 4 == 0:
            frac[0] = rng.choice([0.0, 0.5, 0.25], size=3)  # special position
        species = ['Li', 'S', 'P', 'Cl'][:n_unique]
        labels = [f'{sp}{i}' for i, sp in enumerate(species)]
        structure = Structure.from_spacegroup(sg_symbol, lat, species, frac, labels=labels)

        mode = case % 4

        def symmetrized():
            # SpacegroupOperations path; spglib may fail on accidental overlaps -> SpaceGroup fallback
            try:
                return ShapeAnalyzer.from_structure(structure)
            except Exception:  # noqa: BLE001
                return ShapeAnalyzer(sites=[PeriodicSite(sp, f, lat, label=lb) for sp, f, lb in zip(species, frac, labels)],
                                     lattice=lat, spacegroup=SpaceGroup(sg_symbol))

        if mode == 0:
            analyzer = symmetrized()
        elif mode == 1:
            sites = [PeriodicSite(sp, f, lat, label=lb) for sp, f, lb in zip(species, frac, labels)]
            analyzer = ShapeAnalyzer(sites=sites, lattice=lat, spacegroup=SpaceGroup(sg_symbol))
        elif mode == 2:
            # sites shifted outside the unit cell / off the special position
            base = symmetrized()
            vecs = [None if i % 2 else rng.normal(scale=1.5, size=3) for i in range(len(base.sites))]
            analyzer = base.shift_sites(vecs)
        else:
            sites = [PeriodicSite(sp, f + rng.integers(-1, 2, size=3), lat, label=lb, to_unit_cell=False)
                     for sp, f, lb in zip(species, frac, labels)]
            analyzer = ShapeAnalyzer(sites=sites, lattice=lat, spacegroup=SpaceGroup(sg_symbol))

        sites_frac = np.array([s.frac_coords for s in analyzer.sites])
        n_pos = int(rng.choice([0, 1, 7, 60, 400]))
        positions = make_positions(rng, sites_frac, n_pos) if n_pos else np.empty((0, 3))
        radius = float(rng.choice([0.0, 0.35, 0.8, 1.0, 1.7, 3.0, 50.0]))

        results.append(('repr', case, repr(analyzer)))
        results.append(('positions', case, guarded(lambda: dump(analyzer.analyze_positions(positions, radius=radius)))))
        results.append(('positions-default', case, guarded(lambda: dump(analyzer.analyze_positions(positions)))))
        site = analyzer.sites[0]
        results.append(('single', case, guarded(
            lambda: analyzer.find_equivalent_positions(site=site, positions=positions, radius=radius).tobytes())))
        before = positions.copy()
        results.append(('single-default', case, guarded(
            lambda: analyzer.find_equivalent_positions(site=site, positions=positions).tobytes())))
        results.append(('input-untouched', case, bool(np.array_equal(before, positions))))
        # float32 / read-only / non-contiguous inputs
        results.append(('f32', case, guarded(lambda: dump(analyzer.analyze_positions(positions.astype(np.float32), radius=radius)))))
        ro = positions.copy()
        ro.setflags(write=False)
        results.append(('readonly', case, guarded(lambda: dump(analyzer.analyze_positions(ro, radius=radius)))))
        results.append(('strided', case, guarded(lambda: dump(analyzer.analyze_positions(np.asfortranarray(positions)[::-1], radius=radius)))))
        results.append(('int', case, guarded(lambda: dump(analyzer.analyze_positions(np.rint(positions).astype(int), radius=radius)))))

        # trajectory, plain and as supercell that is folded back
        n_steps, n_atoms = int(rng.integers(1, 6)), int(rng.integers(1, 5))
        for supercell in (None, (1, 1, 1), tuple(int(v) for v in rng.integers(1, 4, size=3)), (2.0, 1.0, 3.0)):
            sc = np.ones(3) if supercell is None else np.array(supercell, dtype=float)
            traj_lat = Lattice(lat.matrix * sc[:, None])
            coords = rng.uniform(-0.3, 1.3, size=(n_steps, n_atoms, 3))
            # some atoms right at an equivalent site of the small cell and on supercell faces
            coords[0, 0] = (sites_frac[0] + rng.integers(0, 2, size=3)) / sc
            coords[-1, -1] = rng.integers(0, 2, size=3).astype(float)
            traj = gemdat.Trajectory(species=[Element('Li')] * n_atoms, coords=coords, lattice=traj_lat,
                                     time_step=1.0, metadata={'temperature': 300})
            results.append(('traj', case, supercell, guarded(
                lambda: dump(analyzer.analyze_trajectory(traj, supercell=supercell, radius=radius)))))
            # same call with the warnings recorded (lattice mismatch message is observable output),
            # also with a deliberately wrong / degenerate supercell specification
            for wrong in (supercell, (1, 2, 1), (3,), (0, 1, 2), (-1, 2, 1), np.array([2, 2, 2]), [1.5, 1, 1]):
                def with_warnings(wrong=wrong):
                    with warnings.catch_warnings(record=True) as rec:
                        warnings.simplefilter('always')
                        out = dump(analyzer.analyze_trajectory(traj, supercell=wrong, radius=radius))
                    return out, sorted((w.category.__name__, str(w.message)) for w in rec)
                results.append(('traj-warn', case, repr(supercell), repr(wrong), guarded(with_warnings)))
        results.append(('traj-badcell', case, guarded(
            lambda: dump(analyzer.analyze_trajectory(traj, supercell=(2, 2), radius=radius)))))

        shapes = analyzer.analyze_positions(positions, radius=max(radius, 1.0)) if n_pos else None
        if shapes is not None and all(len(s.coords) for s in shapes):
            opt = analyzer.optimize_sites(shapes)
            results.append(('optimized', case, [tuple(s.frac_coords.tolist()) for s in opt.sites],
                            guarded(lambda: dump(opt.analyze_positions(positions, radius=radius)))))

    # degenerate: empty spacegroup and empty site list
    lat = Lattice.from_parameters(4, 5, 6, 80, 95, 105)
    site = PeriodicSite('Li', [0.1, 0.2, 0.3], lat, label='Li0')
    pos = rng.uniform(0, 1, size=(10, 3))
    empty_sg = ShapeAnalyzer(sites=[site], lattice=lat, spacegroup=[])
    results.append(('empty-spacegroup', guarded(lambda: dump(empty_sg.analyze_positions(pos)))))
    no_sites = ShapeAnalyzer(sites=[], lattice=lat, spacegroup=SpaceGroup('P-1'))
    results.append(('no-sites', guarded(lambda: dump(no_sites.analyze_positions(pos)))))
    p1 = ShapeAnalyzer(sites=[site], lattice=lat, spacegroup=SpaceGroup('P-1'))
    results.append(('1d-positions', guarded(lambda: dump(p1.analyze_positions(pos[0])))))
    results.append(('list-positions', guarded(lambda: dump(p1.analyze_positions(pos.tolist())))))

    with open(out_path, 'wb') as fh:
        pickle.dump(results, fh)


def main():
    with tempfile.TemporaryDirectory() as td:
        outs = []
        for tag, root in (('orig', ORIG), ('twin', TWIN)):
            out = os.path.join(td, f'{tag}.pkl')
            env = dict(os.environ, PYTHONPATH=root, EXPECT_ROOT=root, MPLBACKEND='Agg')
            subprocess.run([sys.executable, os.path.abspath(__file__), '--worker', out], env=env, check=True, cwd=td)
            with open(out, 'rb') as fh:
                outs.append(pickle.load(fh))
    orig, twin = outs
    bad = 0
    if len(orig) != len(twin):
        print(f'DIFF: number of results {len(orig)} != {len(twin)}')
        bad += 1
    n_ok = n_exc = 0
    for a, b in zip(orig, twin):
        if a != b:
            bad += 1
            print('DIFF:', a[:2], '\n   orig:', str(a[-1])[:300], '\n   twin:', str(b[-1])[:300])
        last = a[-1]
        if isinstance(last, tuple) and last and last[0] == 'exc':
            n_exc += 1
        else:
            n_ok += 1
    print(f'compared {len(orig)} results over {N_RANDOM} random analyzers ({n_ok} values, {n_exc} matching exceptions); differences={bad}')
    return 1 if bad else 0


if __name__ == '__main__':
    if len(sys.argv) == 3 and sys.argv[1] == '--worker':
        worker(sys.argv[2])
    else:
        sys.exit(main())
