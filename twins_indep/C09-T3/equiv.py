"""Differential test for refactoring C09/3 (Volume.probability/normalized and the FreeEnergyVolume path wrappers).

The same randomised inputs are evaluated in two subprocesses, one importing the ORIGINAL
package from /repo/src and one importing the refactored package from /tmp/wtt_C09/src.
All results (arrays bit-for-bit, dtypes, warnings, exceptions) must be identical.
"""

from __future__ import annotations

import os
import pickle
import subprocess
import sys
import tempfile

ORIG = '/repo/src'
NEW = '/tmp/wtt_C09/src'
PY = '/venv/bin/python'


def canon(obj):
    import numpy as np

    if isinstance(obj, np.ndarray):
        return ('nd', obj.dtype.str, obj.shape, np.ascontiguousarray(obj).tobytes())
    if isinstance(obj, np.generic):
        return ('npscalar', obj.dtype.str, obj.tobytes())
    if isinstance(obj, bool) or obj is None or isinstance(obj, (int, str)):
        return (type(obj).__name__, obj)
    if isinstance(obj, float):
        return ('float', obj.hex())
    if isinstance(obj, (list, tuple)):
        return (type(obj).__name__, [canon(o) for o in obj])
    if isinstance(obj, dict):
        return ('dict', [(canon(k), canon(v)) for k, v in obj.items()])
    raise TypeError(type(obj))


def make_cases():
    import numpy as np
    from pymatgen.core import Lattice

    rng = np.random.default_rng(9093)

    def lattice(i):
        kind = i % 3
        if kind == 0:
            return Lattice.cubic(float(rng.uniform(2, 9)))
        if kind == 1:
            return Lattice.from_parameters(*rng.uniform(3, 8, 3), *rng.uniform(65, 115, 3))
        m = Lattice.from_parameters(4.1, 5.2, 6.3, 75, 98, 108).matrix
        q, _ = np.linalg.qr(rng.normal(size=(3, 3)))
        return Lattice(m @ q)

    cases = []
    for i in range(30):
        shape = tuple(int(x) for x in rng.integers(1, 5, 3)) if i % 5 else (3, 3, 4)
        kind = i % 6
        if kind == 0:
            data = rng.poisson(0.8, shape)
        elif kind == 1:
            data = rng.integers(1, 300, shape)
        elif kind == 2:
            data = rng.random(shape) * (rng.random(shape) > 0.35)
        elif kind == 3:
            data = (rng.random(shape) * (rng.random(shape) > 0.35)).astype(np.float32)
        elif kind == 4:
            data = rng.integers(0, 4, shape + (2,)).astype(np.uint16)[..., 1]  # non-contiguous
        else:
            data = rng.normal(size=shape)  # outside the quantifier (negative entries)
            if i % 12 == 5:
                data = np.zeros(shape)
        if kind != 5 and data.sum() == 0:
            data.flat[0] = 1
        graph_mode = ['default', 'none', 'empty', 'custom', 'custom_nodiag'][i % 5]
        cases.append(
            (data, lattice(i), float(rng.uniform(20, 1500)), graph_mode, int(rng.integers(0, 2**31)))
        )
    return cases


def path_summary(p):
    return {
        'cls': type(p).__name__,
        'sites': list(p.sites),
        'energy': list(p.energy),
        'total': p.total_energy,
        'dims': p.dims,
    }


def worker(out_path):
    import warnings

    import networkx as nx
    import numpy as np

    import gemdat
    from gemdat.volume import FreeEnergyVolume, Volume

    assert os.path.dirname(os.path.dirname(gemdat.__file__)) == os.environ['GEMDAT_EQUIV_SRC']

    results = []
    for data, lat, temperature, graph_mode, seed in make_cases():
        rng = np.random.default_rng(seed)
        with warnings.catch_warnings(record=True) as caught:
            warnings.simplefilter('always')
            res = {}
            try:
                vol = Volume(data=data.copy(), lattice=lat)
                res['probability'] = vol.probability()
                res['normalized'] = vol.normalized()
                res['data_after'] = vol.data
                F = vol.get_free_energy(temperature)
                res['F'] = F.data
                # F is itself a Volume: the same methods on an energy grid
                res['F_probability'] = F.probability()
                res['F_normalized'] = F.normalized()

                default_graph = F.free_energy_graph(max_energy_threshold=1e7)
                res['n_default_nodes'] = len(default_graph.nodes)
                visited = [tuple(int(x) for x in idx) for idx in np.argwhere(np.asarray(data) > 0)]
                unvisited = [tuple(int(x) for x in idx) for idx in np.argwhere(np.asarray(data) == 0)]

                if graph_mode == 'default':
                    args = ()
                elif graph_mode == 'none':
                    args = (None,)
                elif graph_mode == 'empty':
                    args = (nx.Graph(),)  # falsy graph -> replaced by the default one
                elif graph_mode == 'custom':
                    args = (F.free_energy_graph(max_energy_threshold=float(rng.uniform(0.01, 0.5))),)
                else:
                    args = (F.free_energy_graph(max_energy_threshold=1e20, diagonal=False),)
                res['custom_nodes'] = len(args[0].nodes) if args and args[0] is not None else -1

                calls = []
                pool = visited + unvisited[:2]
                for method in ('dijkstra', 'bellman-ford', 'dijkstra-exp', 'simple', 'minmax-energy', 'bogus'):
                    if not pool:
                        break
                    a = pool[int(rng.integers(0, len(pool)))]
                    b = pool[int(rng.integers(0, len(pool)))]
                    try:
                        p = F.optimal_path(*args, start=a, stop=b, method=method)
                        calls.append(('path', method, a, b, path_summary(p)))
                    except Exception as exc:  # noqa: BLE001
                        calls.append(('path', method, a, b, type(exc).__name__, str(exc)))
                # min_diff > 0 can make optimal_n_paths enumerate every simple path of the graph
                # (exponential), so it is only used on tiny graphs
                tiny = len(default_graph.nodes) <= 5
                combos = ((2, 0.0), (3, 0.0), (4, 0.0)) + (((2, 0.15), (3, 0.4)) if tiny else ())
                for n_paths, min_diff in combos:
                    if not pool:
                        break
                    a = pool[int(rng.integers(0, len(pool)))]
                    b = pool[int(rng.integers(0, len(pool)))]
                    try:
                        ps = F.optimal_n_paths(*args, start=a, stop=b, n_paths=n_paths, min_diff=min_diff)
                        calls.append(
                            ('npaths', n_paths, a, b, type(ps).__name__, [path_summary(p) for p in ps])
                        )
                    except Exception as exc:  # noqa: BLE001
                        calls.append(('npaths', n_paths, a, b, type(exc).__name__, str(exc)))
                # keyword form of the graph argument
                if visited:
                    try:
                        p = F.optimal_path(F_graph=(args[0] if args else None), start=visited[0], stop=visited[-1])
                        calls.append(('kw', path_summary(p)))
                    except Exception as exc:  # noqa: BLE001
                        calls.append(('kw', type(exc).__name__, str(exc)))
                res['calls'] = calls
                res['fields'] = sorted(f.name for f in __import__('dataclasses').fields(F))
                res['repr'] = repr(F)
            except Exception as exc:  # noqa: BLE001
                res['exc'] = type(exc).__name__
                res['msg'] = str(exc)
        res['warnings'] = sorted((w.category.__name__, str(w.message)) for w in caught)
        results.append(canon(res))

    with open(out_path, 'wb') as fh:
        pickle.dump(results, fh)


def run(src, out_path):
    env = dict(os.environ, PYTHONPATH=src, GEMDAT_EQUIV_SRC=src)
    subprocess.run([PY, os.path.abspath(__file__), '--worker', out_path], env=env, check=True)
    with open(out_path, 'rb') as fh:
        return pickle.load(fh)


def main():
    with tempfile.TemporaryDirectory() as td:
        a = run(ORIG, os.path.join(td, 'orig.pkl'))
        b = run(NEW, os.path.join(td, 'new.pkl'))
    assert len(a) == len(b) and len(a) >= 20
    bad = [i for i, (x, y) in enumerate(zip(a, b)) if x != y]
    n_exc = sum(1 for x in a if any(k == ('str', 'exc') for k, _ in x[1]))
    print(f'cases={len(a)} raising={n_exc} differing={len(bad)}')
    if bad:
        for i in bad[:5]:
            print('DIFF in case', i, '\n  orig:', a[i], '\n  new: ', b[i])
        sys.exit(1)
    print('OK: identical results')


if __name__ == '__main__':
    if len(sys.argv) == 3 and sys.argv[1] == '--worker':
        worker(sys.argv[2])
    else:
        main()
