"""Differential test for twin C03/1.

Refactoring: `gemdat.transitions._calculate_transition_events` finds the change
frames by comparing the shifted slices `a[1:] != a[:-1]` instead of
`a != np.roll(a, -1)` followed by dropping the wrap-around hit.

The script re-runs itself as a worker twice, once with PYTHONPATH=/repo/src
(original) and once with PYTHONPATH=/tmp/wtt_C03/src (refactored), on the same
seeded inputs, and compares the pickled results bit for bit.
"""

import os
import pickle
import subprocess
import sys

ORIG = '/repo/src'
TWIN = '/tmp/wtt_C03/src'
SEED = 20261001


def _pack(obj):
    """Turn a result into something comparable with ==."""
    import numpy as np
    import pandas as pd

    if isinstance(obj, pd.DataFrame):
        return (
            'DF',
            list(obj.columns),
            [str(t) for t in obj.dtypes],
            obj.index.tolist(),
            obj.to_numpy().tolist(),
            obj.shape,
        )
    if isinstance(obj, np.ndarray):
        return ('ND', str(obj.dtype), obj.shape, obj.tobytes())
    if isinstance(obj, (list, tuple)):
        return [_pack(o) for o in obj]
    if isinstance(obj, dict):
        return {k: _pack(v) for k, v in obj.items()}
    return obj


def _call(fn, *args, **kwargs):
    try:
        return _pack(fn(*args, **kwargs))
    except Exception as exc:  # exceptions are part of the observable behaviour
        return ('EXC', type(exc).__name__)


def histories(rng):
    """Yield (name, states, inner_states) covering the C03 quantifier."""
    import itertools

    import numpy as np

    # exhaustive: 1 atom, up to 5 frames, sites {-1, 0, 1}; inner in {-1, site}
    for n in range(1, 6):
        for st in itertools.product((-1, 0, 1), repeat=n):
            st = np.array(st)
            for mask in itertools.product((0, 1), repeat=n) if n <= 4 else [(1,) * n, (0,) * n]:
                inner = np.where(np.array(mask, dtype=bool), st, -1)
                yield f'exh{n}', st[:, None], inner[:, None]

    # exhaustive 2 atoms x 3 frames over 2 sites
    for flat in itertools.product((-1, 0, 1), repeat=6):
        st = np.array(flat).reshape(3, 2)
        yield 'exh2x3', st, st.copy()
        yield 'exh2x3-noinner', st, np.full_like(st, -1)

    # random long multi-atom histories
    for k in range(60):
        n_frames = int(rng.integers(2, 400))
        n_atoms = int(rng.integers(1, 9))
        n_sites = int(rng.integers(1, 7))
        p_stay = rng.choice([0.5, 0.9, 0.99])
        st = np.empty((n_frames, n_atoms), dtype=int)
        st[0] = rng.integers(-1, n_sites, n_atoms)
        for t in range(1, n_frames):
            stay = rng.random(n_atoms) < p_stay
            st[t] = np.where(stay, st[t - 1], rng.integers(-1, n_sites, n_atoms))
        kind = k % 6
        if kind == 0:  # an atom that never moves
            st[:, 0] = st[0, 0]
        if kind == 1:  # change at first and at last frame
            st[1, 0] = (st[0, 0] + 2) % (n_sites + 1) - 1
            st[-1, 0] = (st[-2, 0] + 2) % (n_sites + 1) - 1
        if kind == 2:  # last frame equals first frame (wrap-around quiet)
            st[-1] = st[0]
        if kind == 3:  # last frame differs from first but not from previous
            st[-1] = st[-2]
        inner = np.where(rng.random(st.shape) < rng.choice([0.0, 0.3, 1.0]), st, -1)
        if kind == 4:  # an atom never inside any inner site
            inner[:, 0] = -1
        if kind == 5:  # nobody is ever in an inner site
            inner[:] = -1
        dt = [int, np.int32, np.int64][k % 3]
        yield f'rand{k}', st.astype(dt), inner.astype(dt)
        if k % 10 == 0:
            yield f'rand{k}-F', np.asfortranarray(st), np.asfortranarray(inner)

    # degenerate shapes
    yield 'nochange', np.zeros((7, 3), dtype=int), np.zeros((7, 3), dtype=int)
    yield 'nochange-innerflip', np.zeros((7, 2), dtype=int), np.array([[0, -1]] * 3 + [[-1, 0]] * 4)
    yield 'oneframe', np.array([[0, 1, -1]]), np.array([[0, -1, -1]])
    yield 'noframes', np.zeros((0, 2), dtype=int), np.zeros((0, 2), dtype=int)
    yield 'noatoms', np.zeros((5, 0), dtype=int), np.zeros((5, 0), dtype=int)


def worker():
    import numpy as np
    from pymatgen.core import Element, Lattice, Structure

    import gemdat
    from gemdat import transitions as tr

    assert os.path.dirname(gemdat.__file__).startswith(os.environ['EXPECT_SRC']), gemdat.__file__

    rng = np.random.default_rng(SEED)
    out = []
    for name, st, inner in histories(rng):
        out.append((name, _call(tr._calculate_transition_events, atom_sites=st, atom_inner_sites=inner)))

    # end-to-end through Transitions.from_trajectory on non-cubic cells, atoms crossing faces
    lattices = [
        Lattice.from_parameters(6.1, 7.3, 8.2, 78.0, 95.0, 104.0),
        Lattice.from_parameters(5.0, 5.0, 9.0, 90.0, 90.0, 120.0),
        Lattice(np.array([[4.9, 0.3, -0.2], [0.8, 5.6, 0.4], [-0.5, 0.9, 6.3]])),  # rotated / general
        Lattice.cubic(6.0),
    ]
    for k in range(24):
        lat = lattices[k % len(lattices)]
        n_frames = int(rng.integers(3, 60))
        n_li = int(rng.integers(1, 5))
        site_frac = np.array([[0.05, 0.05, 0.05], [0.55, 0.5, 0.45], [0.95, 0.5, 0.1], [0.3, 0.98, 0.7]])
        sites = Structure(lat, ['Li'] * len(site_frac), site_frac, labels=['A', 'A', 'B', 'B'])
        # hop between sites with jitter; wrap into/out of the cell
        which = rng.integers(0, len(site_frac), (n_frames, n_li))
        hold = rng.random((n_frames, n_li)) < 0.7
        for t in range(1, n_frames):
            which[t] = np.where(hold[t], which[t - 1], which[t])
        pos = site_frac[which] + rng.normal(0, rng.choice([0.01, 0.04, 0.1]), (n_frames, n_li, 3))
        if k % 2:
            pos = pos % 1.0
        fixed = np.tile(np.array([[0.25, 0.25, 0.25]]), (n_frames, 1, 1))
        coords = np.concatenate([pos, fixed], axis=1)
        traj = gemdat.Trajectory(
            species=[Element('Li')] * n_li + [Element('S')],
            coords=coords,
            lattice=lat,
            time_step=1e-15,
            metadata={'temperature': 300},
        )
        radius = [0.9, {'A': 0.8, 'B': 1.1}, 0.5][k % 3]

        def run():
            t = tr.Transitions.from_trajectory(
                trajectory=traj,
                sites=sites,
                floating_specie='Li',
                site_radius=radius,
                site_inner_fraction=[1.0, 0.5, 0.2][k % 3],
            )
            return [t.events, t.states, t.inner_states, t.states_next(), t.states_prev(), t.matrix()]

        out.append((f'traj{k}', _call(run)))

    sys.stdout.buffer.write(pickle.dumps(out))


def run_side(src):
    env = dict(os.environ, PYTHONPATH=src, EXPECT_SRC=src, PYTHONWARNINGS='ignore')
    res = subprocess.run(
        ['/venv/bin/python', os.path.abspath(__file__), '--worker'],
        env=env,
        stdout=subprocess.PIPE,
        check=True,
    )
    return pickle.loads(res.stdout)


def main():
    a = run_side(ORIG)
    b = run_side(TWIN)
    assert len(a) == len(b) and len(a) >= 20
    bad = [na for (na, ra), (nb, rb) in zip(a, b) if na != nb or ra != rb]
    n_exc = sum(1 for _, r in a if isinstance(r, tuple) and r and r[0] == 'EXC')
    print(f'cases={len(a)} raising_in_both={n_exc} differing={len(bad)}')
    if bad:
        print('DIFFERENT:', bad[:20])
        sys.exit(1)
    print('EQUIVALENT')


if __name__ == '__main__':
    if '--worker' in sys.argv:
        worker()
    else:
        main()
