"""Differential test: original (/repo/src) vs refactored (/tmp/wtu_C13/src) drift code.

The same deterministic worker is executed in two subprocesses, one per source tree,
and the pickled observations are compared (exact, with a 1e-12 fallback tolerance).
Exit status is non-zero on any difference.
"""
import os
import pickle
import subprocess
import sys
import tempfile

import numpy as np

ORIG = '/repo/src'
NEW = '/tmp/wtu_C13/src'
N_SEEDS = 40

WORKER = r'''
import pickle, sys, warnings
import numpy as np
from pymatgen.core import Element, Lattice, Species
import gemdat
from gemdat import Trajectory

warnings.simplefilter('ignore')
assert gemdat.__file__.startswith(sys.argv[2]), gemdat.__file__
n_seeds = int(sys.argv[3])

POOL = ['Li', 'Na', 'N', 'S', 'P', 'O', 'Si']


def make_lattice(rng, kind):
    if kind == 0:
        return Lattice.cubic(rng.uniform(4, 12))
    if kind == 1:
        return Lattice.from_parameters(rng.uniform(4, 9), rng.uniform(4, 9), rng.uniform(4, 9),
                                       rng.uniform(60, 120), rng.uniform(60, 120), rng.uniform(70, 110))
    if kind == 2:
        return Lattice.hexagonal(rng.uniform(3, 7), rng.uniform(5, 11))
    # rotated (non lower-triangular) triclinic cell
    m = Lattice.from_parameters(5.1, 6.2, 7.3, 81, 95, 104).matrix
    q, _ = np.linalg.qr(rng.normal(size=(3, 3)))
    return Lattice(m @ q)


def make_traj(rng, seed):
    n_sp = int(rng.integers(1, 5))
    symbols = [str(x) for x in rng.choice(POOL, size=n_sp, replace=False)]
    n_atoms = int(rng.integers(n_sp, 9))
    sym = symbols + [str(x) for x in rng.choice(symbols, size=n_atoms - n_sp)]
    rng.shuffle(sym)
    species = [Element(s) if rng.random() < 0.7 else Species(s, 0) for s in sym]
    n_frames = int(rng.integers(1, 13))
    base = rng.random((1, n_atoms, 3))
    # put some atoms right on / next to the cell faces
    edge = rng.random((1, n_atoms, 3)) < 0.3
    base = np.where(edge, rng.choice([0.0, 1e-9, 1 - 1e-9, 0.999999], size=base.shape), base)
    steps = rng.normal(scale=0.08, size=(n_frames, n_atoms, 3))
    rigid = np.cumsum(rng.normal(scale=0.05, size=(n_frames, 1, 3)), axis=0)
    coords = base + np.cumsum(steps, axis=0) + rigid
    lattice = make_lattice(rng, seed % 4)
    mode = seed % 3
    kw = dict(species=species, lattice=lattice, time_step=float(rng.uniform(1e-15, 3e-15)),
              metadata={'temperature': float(rng.integers(100, 900)), 'tag': [seed]})
    if mode == 0:          # plain (unwrapped) positions
        traj = Trajectory(coords=coords, **kw)
    elif mode == 1:        # wrapped positions, later converted in place
        traj = Trajectory(coords=np.mod(coords, 1), **kw)
        traj.to_displacements()
    else:                  # built from displacements
        disp = np.diff(coords, axis=0, prepend=coords[:1])
        traj = Trajectory(coords=disp, coords_are_displacement=True, base_positions=coords[0], **kw)
    return traj, symbols


def snap(t):
    """Observable state of a trajectory without changing its representation."""
    return {
        'cls': type(t).__name__,
        'coords': np.array(t.coords, dtype=float),
        'is_disp': bool(t.coords_are_displacement),
        'base': None if t.base_positions is None else np.array(t.base_positions, dtype=float),
        'species': [repr(s) for s in t.species],
        'lattice': np.array(t.get_lattice().matrix),
        'time_step': t.time_step,
        'metadata': repr(t.metadata),
        'constant_lattice': t.constant_lattice,
    }


def full(t):
    out = snap(t)
    out['disp'] = np.array(t.displacements, dtype=float)
    out['pos'] = np.array(t.positions, dtype=float)
    return out


def attempt(fn):
    try:
        return ('ok', fn())
    except Exception as exc:  # noqa
        return ('err', type(exc).__name__, str(exc))


def selections(rng, symbols):
    absent = [s for s in POOL if s not in symbols]
    some = [str(x) for x in rng.choice(symbols, size=int(rng.integers(1, len(symbols) + 1)), replace=False)]
    yield {}
    yield {'fixed_species': None, 'floating_species': None}
    yield {'fixed_species': symbols[0]}
    yield {'fixed_species': some}
    yield {'fixed_species': set(some)}
    yield {'fixed_species': tuple(some) + ('Xx',)}
    yield {'fixed_species': []}
    yield {'fixed_species': ''}
    yield {'fixed_species': [], 'floating_species': some}
    yield {'fixed_species': some, 'floating_species': symbols[-1]}
    yield {'floating_species': symbols[0]}
    yield {'floating_species': 'Na'}          # str membership: 'N' in 'Na'
    yield {'floating_species': 'LiSiP'}
    yield {'floating_species': some}
    yield {'floating_species': frozenset(some)}
    yield {'floating_species': {s: 1 for s in some}}
    yield {'floating_species': list(symbols)}  # nothing left: empty selection
    yield {'floating_species': ()}
    if absent:
        yield {'fixed_species': absent[0]}      # empty selection
        yield {'floating_species': absent[:2]}  # everything fixed


def label(sel):
    def canon(v):
        if isinstance(v, (set, frozenset)):
            return type(v).__name__ + repr(sorted(v))
        return repr(v)
    return '{' + ', '.join(f'{k}={canon(v)}' for k, v in sel.items()) + '}'


def run_seed(seed):
    rng = np.random.default_rng(1000 + seed)
    records = []
    _, symbols = make_traj(np.random.default_rng(1000 + seed), seed)
    sels = list(selections(rng, symbols))
    for i, sel in enumerate(sels):
        rec = {'seed': seed, 'sel': label(sel)}
        # fresh trajectory per call so that side effects on `self` are compared too
        t, _ = make_traj(np.random.default_rng(1000 + seed), seed)
        rec['drift'] = attempt(lambda: np.array(t.drift(**sel)))
        rec['self_after_drift'] = snap(t)

        t, _ = make_traj(np.random.default_rng(1000 + seed), seed)

        def corr():
            c = t.apply_drift_correction(**sel)
            first = snap(c)
            again = c.apply_drift_correction(**sel)
            return {'first': first, 'first_full': full(c), 'again': full(again),
                    'resid': np.array(c.drift(**sel))}
        rec['corr'] = attempt(corr)
        rec['self_after_corr'] = snap(t)

        # filter() is the selection primitive used by drift()
        t, _ = make_traj(np.random.default_rng(1000 + seed), seed)
        key = sel.get('fixed_species') or sel.get('floating_species')
        if key is not None:
            def filt():
                f = t.filter(key)
                return {'first': snap(f), 'full': full(f)}
            rec['filter'] = attempt(filt)
            rec['self_after_filter'] = snap(t)
        records.append(rec)
    return records


out = []
for seed in range(n_seeds):
    out.extend(run_seed(seed))
with open(sys.argv[1], 'wb') as fh:
    pickle.dump(out, fh)
'''


def run(tree, path):
    env = dict(os.environ, PYTHONPATH=tree, PYTHONHASHSEED='0')
    subprocess.run([sys.executable, '-c', WORKER, path, tree, str(N_SEEDS)], env=env, check=True)
    with open(path, 'rb') as fh:
        return pickle.load(fh)


stats = {'arrays': 0, 'inexact': 0}


def same(a, b, where, problems):
    if isinstance(a, np.ndarray) or isinstance(b, np.ndarray):
        stats['arrays'] += 1
        if not (isinstance(a, np.ndarray) and isinstance(b, np.ndarray)) or a.shape != b.shape or a.dtype != b.dtype:
            problems.append(f'{where}: array shape/dtype differ')
        elif not np.array_equal(a, b, equal_nan=True):
            stats['inexact'] += 1
            if not np.allclose(a, b, rtol=0, atol=1e-12, equal_nan=True):
                problems.append(f'{where}: values differ, max|d|={np.nanmax(np.abs(a - b))}')
    elif isinstance(a, dict) and isinstance(b, dict):
        if a.keys() != b.keys():
            problems.append(f'{where}: keys differ')
            return
        for k in a:
            same(a[k], b[k], f'{where}.{k}', problems)
    elif isinstance(a, (list, tuple)) and isinstance(b, (list, tuple)):
        if len(a) != len(b) or type(a) is not type(b):
            problems.append(f'{where}: length/type differ')
            return
        for i, (x, y) in enumerate(zip(a, b)):
            same(x, y, f'{where}[{i}]', problems)
    elif a != b:
        problems.append(f'{where}: {a!r} != {b!r}')


def main():
    with tempfile.TemporaryDirectory() as td:
        ref = run(ORIG, os.path.join(td, 'orig.pkl'))
        new = run(NEW, os.path.join(td, 'new.pkl'))
    problems = []
    if len(ref) != len(new):
        problems.append(f'number of records differ: {len(ref)} vs {len(new)}')
    for r, n in zip(ref, new):
        same(r, n, f"seed{r['seed']}:{r['sel']}", problems)
    n_err = sum(1 for r in ref for k in ('drift', 'corr', 'filter') if k in r and r[k][0] == 'err')
    n_nan = sum(1 for r in ref if r['drift'][0] == 'ok' and np.isnan(r['drift'][1]).any())
    print(f'seeds={N_SEEDS} records={len(ref)} arrays_compared={stats["arrays"]} '
          f'not_bit_identical={stats["inexact"]} raising_calls={n_err} nan_drifts={n_nan}')
    for p in problems[:30]:
        print('DIFF', p)
    if problems:
        print(f'{len(problems)} differences')
        return 1
    print('equivalent')
    return 0


if __name__ == '__main__':
    sys.exit(main())
