"""Differential test for refactoring C18/2 (fft_autocorrelation pipeline in gemdat.utils).

The ORIGINAL gemdat package is taken from the source tree named by the
environment variable GEMDAT_ORIG_SRC (a directory that contains `gemdat/`); when
the variable is not set, the untouched HEAD of the worktree is exported with
`git archive` into a temporary directory and used as the original.  The
REFACTORED package is the working tree /tmp/wtu_C18/src.  The same worker
(this file with --worker) is run in two subprocesses, one per PYTHONPATH, on the
same seeded random inputs; every result (arrays bit-for-bit, exceptions by type
and message) must be identical.  Exit status 0 = no difference.
"""
from __future__ import annotations

import os
import pickle
import subprocess
import sys
import tempfile

WORKTREE = '/tmp/wtu_C18'
PYTHON = '/venv/bin/python'
N_CASES = 36
FOCUS = 'fft_autocorrelation'


# --------------------------------------------------------------------------
# worker: runs with whatever `gemdat` is first on PYTHONPATH
# --------------------------------------------------------------------------
def _random_rotation(rng):
    import numpy as np

    q, r = np.linalg.qr(rng.normal(size=(3, 3)))
    q = q * np.sign(np.diag(r))
    if np.linalg.det(q) < 0:
        q[:, 0] = -q[:, 0]
    return q


def _small_rotation(rng, angle):
    import numpy as np
    from scipy.spatial.transform import Rotation

    axis = rng.normal(size=3)
    axis /= np.linalg.norm(axis)
    return Rotation.from_rotvec(axis * angle).as_matrix()


def _make_lattice(rng, kind):
    import numpy as np
    from pymatgen.core import Lattice

    a, b, c = rng.uniform(8.0, 13.0, size=3)
    if kind == 'cubic':
        lat = Lattice.cubic(a)
    elif kind == 'tetragonal':
        lat = Lattice.tetragonal(a, c)
    elif kind == 'orthorhombic':
        lat = Lattice.orthorhombic(a, b, c)
    elif kind == 'monoclinic':
        lat = Lattice.monoclinic(a, b, c, rng.uniform(95, 112))
    elif kind == 'triclinic':
        lat = Lattice.from_parameters(a, b, c, *rng.uniform(72, 108, size=3))
    elif kind == 'rotated':
        base = Lattice.from_parameters(a, b, c, *rng.uniform(75, 105, size=3))
        lat = Lattice(base.matrix @ _random_rotation(rng).T)
    else:
        raise AssertionError(kind)
    return lat


KINDS = ['cubic', 'tetragonal', 'orthorhombic', 'monoclinic', 'triclinic', 'rotated']
TETRA = [[1, 1, 1], [1, -1, -1], [-1, 1, -1], [-1, -1, 1]]


def _make_trajectory(rng, case):
    """Tetrahedral S-O4 clusters (plus loose Li) in a random cell."""
    import numpy as np
    from pymatgen.core import Element

    from gemdat import Trajectory

    lattice = _make_lattice(rng, KINDS[case % len(KINDS)])
    n_clusters = int(rng.integers(1, 5))
    n_frames = [1, 2, 3, 5, 8, 12][int(rng.integers(0, 6))]
    n_li = int(rng.integers(0, 4))
    bond = rng.uniform(0.9, 1.6)

    # cluster centres, well separated, some hugging a cell face
    centres: list = []
    tries = 0
    while len(centres) < n_clusters:
        tries += 1
        cand = rng.uniform(0, 1, size=3)
        if rng.uniform() < 0.6:
            cand[int(rng.integers(0, 3))] = rng.choice([0.004, 0.996, 0.0, 0.5])
        if centres:
            d = lattice.get_all_distances(np.array(centres), cand[None, :])
            if d.min() < 4.6 and tries < 2000:
                continue
        centres.append(cand)
    centres_arr = np.array(centres)

    tetra = np.array(TETRA, dtype=float) / np.sqrt(3.0) * bond
    orient = [_random_rotation(rng) for _ in range(n_clusters)]

    frames = []
    cen = centres_arr.copy()
    for _t in range(n_frames):
        frac = []
        for c in range(n_clusters):
            arms = tetra @ orient[c].T
            arms = arms * (1 + rng.normal(scale=0.01, size=(4, 1)))
            frac.append(cen[c])
            for arm in arms:
                frac.append(cen[c] + lattice.get_fractional_coords(arm))
        for _ in range(n_li):
            frac.append(rng.uniform(0, 1, size=3))
        frames.append(np.array(frac).reshape(-1, 3))
        # evolve
        cen = cen + rng.normal(scale=0.003, size=cen.shape)
        orient = [_small_rotation(rng, rng.uniform(0, 0.5)) @ o for o in orient]

    coords = np.array(frames)
    coords = np.mod(coords, 1)
    coords[coords == 1] = 0

    # interleave species order in half of the cases so that indices are shuffled
    species = []
    for c in range(n_clusters):
        species += [Element('S')] + [Element('O')] * 4
    species += [Element('Li')] * n_li
    if case % 2 and len(species) > 1:
        perm = rng.permutation(len(species))
        species = [species[i] for i in perm]
        coords = coords[:, perm, :]

    traj = Trajectory(
        species=species,
        coords=coords,
        lattice=lattice,
        time_step=1.0,
        metadata={'temperature': 300},
    )
    return traj


def _capture(out, label, fn):
    import warnings

    import numpy as np

    try:
        with warnings.catch_warnings():
            warnings.simplefilter('ignore')
            val = fn()
        if not isinstance(val, (tuple, list)):
            val = np.asarray(val)
        out.append((label, val))
    except Exception as exc:  # noqa: BLE001
        out.append((label, ('EXC', type(exc).__name__, str(exc))))


POINT_GROUPS = ['1', '-1', '2', 'm', '2/m', '222', 'mm2', 'mmm', '4', '-4', '4/m', '422',
                '4mm', '-42m', '4/mmm', '23', 'm-3', '432', '-43m', 'm-3m']


def worker(outfile):
    import numpy as np

    from gemdat.orientations import Orientations, calculate_spherical_areas
    from gemdat.utils import cartesian_to_spherical, fft_autocorrelation

    out: list = []
    for case in range(N_CASES):
        rng = np.random.default_rng(1800 + case)
        traj = _make_trajectory(rng, case)
        tag = f'case{case}'
        try:
            ori = Orientations(traj, 'S', 'O')
        except Exception as exc:  # noqa: BLE001
            out.append((tag + '/init', ('EXC', type(exc).__name__, str(exc))))
            continue
        out.append((tag + '/vectors', np.asarray(ori.vectors)))

        # the private pipeline, piece by piece
        dist = ori._distances
        cent = ori._trajectory_cent.positions
        out.append((tag + '/distances', dist))
        _capture(out, tag + '/matching', lambda: ori._matching_matrix(dist, cent))
        _capture(out, tag + '/combinations', lambda: ori._central_satellite_matrix(dist, cent))
        _capture(out, tag + '/frac_dir', lambda: ori._fractional_directions(dist))

        # public transforms
        _capture(out, tag + '/normalize', lambda: ori.normalize().vectors)
        group = POINT_GROUPS[case % len(POINT_GROUPS)]
        _capture(out, tag + '/sym_group', lambda: ori.symmetrize(sym_group=group).vectors)
        ops = np.stack([_random_rotation(rng) for _ in range(int(rng.integers(1, 5)))], axis=-1)
        _capture(out, tag + '/sym_ops', lambda: ori.symmetrize(sym_ops=ops).vectors)
        _capture(out, tag + '/sym_ops_over', lambda: ori.symmetrize(sym_group='mmm', sym_ops=ops).vectors)
        _capture(out, tag + '/sym_ops_2d', lambda: ori.symmetrize(sym_ops=ops[:, :, 0]).vectors)
        _capture(out, tag + '/sym_none', lambda: ori.symmetrize().vectors)
        _capture(out, tag + '/sym_empty', lambda: ori.symmetrize(sym_group='').vectors)
        mat = rng.normal(size=(3, 3))
        _capture(out, tag + '/transform', lambda: ori.transform(mat).vectors)
        _capture(out, tag + '/transform_bad', lambda: ori.transform(mat[:2]).vectors)
        _capture(out, tag + '/spherical', lambda: ori.vectors_spherical)
        _capture(out, tag + '/spherical_rad', lambda: cartesian_to_spherical(ori.vectors, degrees=False))
        _capture(out, tag + '/autocorr', lambda: ori.autocorrelation())
        _capture(out, tag + '/chain',
                 lambda: ori.normalize().symmetrize(sym_group=group).transform(mat).autocorrelation())
        _capture(out, tag + '/bypass', lambda: Orientations(traj, 'S', 'O', in_vectors=mat[None]).vectors)

        # swapped roles / missing species: mostly error paths
        _capture(out, tag + '/swapped', lambda: Orientations(traj, 'O', 'S').vectors)
        _capture(out, tag + '/no_centre', lambda: Orientations(traj, 'Na', 'O').vectors)
        _capture(out, tag + '/no_satellite', lambda: Orientations(traj, 'S', 'Na').vectors)
        _capture(out, tag + '/li_centre', lambda: Orientations(traj, 'Li', 'O').vectors)

        # hand-made distance tables for the matching step
        n_c = int(rng.integers(1, 4))
        n_s = int(rng.integers(4, 9))
        fake_cent = rng.uniform(size=(2, n_c, 3))
        for variant in range(4):
            d = rng.uniform(1.0, 3.0, size=(n_c, n_s, 1, 1))
            if variant == 1:
                d[rng.integers(0, n_c), rng.integers(0, n_s)] = 0.0  # coinciding atoms
            elif variant == 2:
                d[rng.integers(0, n_c), rng.integers(0, n_s)] = np.nan
            elif variant == 3:
                d = d[:, :, 0, 0]  # plain 2-d table
                d[0, :4] = d.min()  # row 0 surely has >= 4 matches
            _capture(out, f'{tag}/fake{variant}/matching', lambda: ori._matching_matrix(d, fake_cent))
            _capture(out, f'{tag}/fake{variant}/comb', lambda: ori._central_satellite_matrix(d, fake_cent))
        # every row has exactly 4 / exactly 1 / more than 4 matches
        d = np.full((n_c, n_s, 1, 1), 5.0)
        d[:, -4:] = rng.uniform(1.0, 1.2, size=(n_c, 4, 1, 1))
        _capture(out, tag + '/fake_exact4', lambda: ori._central_satellite_matrix(d, fake_cent))
        d1 = np.full((n_c, n_s, 1, 1), 5.0)
        d1[:, 2] = 1.0
        _capture(out, tag + '/fake_single', lambda: ori._central_satellite_matrix(d1, fake_cent))
        dall = rng.uniform(1.0, 1.4, size=(n_c, n_s, 1, 1))
        _capture(out, tag + '/fake_all', lambda: ori._central_satellite_matrix(dall, fake_cent))
        _capture(out, tag + '/fake_empty_d',
                 lambda: ori._central_satellite_matrix(np.zeros((0, n_s, 1, 1)), fake_cent))
        _capture(out, tag + '/fake_no_frames',
                 lambda: ori._central_satellite_matrix(dall, np.zeros((0, n_c, 3))))
        _capture(out, tag + '/fake_no_centres',
                 lambda: ori._central_satellite_matrix(dall, np.zeros((2, 0, 3))))
        _capture(out, tag + '/fake_list', lambda: ori._matching_matrix(dall[:, :, 0, 0].tolist(), fake_cent))

        # plain fft autocorrelation on random signals of odd shapes
        shape = (int(rng.integers(1, 14)), int(rng.integers(0, 5)), int(rng.integers(0, 5)))
        sig = rng.normal(size=shape)
        _capture(out, tag + '/fft_random', lambda: fft_autocorrelation(sig))
        _capture(out, tag + '/fft_noframes', lambda: fft_autocorrelation(sig[:0]))
        _capture(out, tag + '/fft_2d', lambda: fft_autocorrelation(sig[0]))
        _capture(out, tag + '/fft_int', lambda: fft_autocorrelation((sig * 10).astype(int)))
        _capture(out, tag + '/fft_nc', lambda: fft_autocorrelation(np.asfortranarray(sig)))


    # ---- focus of this refactoring: fft_autocorrelation on many kinds of input
    for k in range(60):
        rng = np.random.default_rng(28000 + k)
        n_t = int(rng.choice([1, 2, 3, 4, 5, 7, 8, 16, 31, 64, 100, 201]))
        n_p = int(rng.integers(0, 7))
        n_c = int(rng.choice([0, 1, 2, 3, 3, 3, 4]))
        base = rng.normal(scale=rng.choice([1e-6, 1.0, 1e6]), size=(n_t, n_p, n_c))
        tag = f'fft{k}_{n_t}x{n_p}x{n_c}'
        _capture(out, tag + '/f64', lambda: fft_autocorrelation(base))
        _capture(out, tag + '/f32', lambda: fft_autocorrelation(base.astype(np.float32)))
        _capture(out, tag + '/f16', lambda: fft_autocorrelation(base.astype(np.float16)))
        _capture(out, tag + '/longdouble', lambda: fft_autocorrelation(base.astype(np.longdouble)))
        _capture(out, tag + '/int', lambda: fft_autocorrelation(np.rint(base * 7).astype(np.int64)))
        _capture(out, tag + '/bool', lambda: fft_autocorrelation(base > 0))
        _capture(out, tag + '/complex', lambda: fft_autocorrelation(base.astype(complex)))
        _capture(out, tag + '/fortran', lambda: fft_autocorrelation(np.asfortranarray(base)))
        _capture(out, tag + '/transposed_view',
                 lambda: fft_autocorrelation(np.ascontiguousarray(base.transpose(2, 1, 0)).transpose(2, 1, 0)))
        _capture(out, tag + '/strided', lambda: fft_autocorrelation(np.repeat(base, 2, axis=0)[::2, :, ::-1]))
        _capture(out, tag + '/no_frames', lambda: fft_autocorrelation(base[:0]))
        _capture(out, tag + '/list', lambda: fft_autocorrelation(base.tolist()))
        if base.size:
            special = base.copy()
            special.flat[int(rng.integers(0, special.size))] = rng.choice([np.nan, np.inf, -np.inf])
            _capture(out, tag + '/nonfinite', lambda: fft_autocorrelation(special))
            still = base.copy()
            still[:, 0, :] = 0.0  # particle with identically zero vectors -> 0/0
            _capture(out, tag + '/zero_particle', lambda: fft_autocorrelation(still))
            unit = base / np.linalg.norm(base, axis=-1, keepdims=True) if n_c else base
            _capture(out, tag + '/unit', lambda: fft_autocorrelation(unit))
        # the input must not be modified
        before = base.copy()
        _capture(out, tag + '/untouched', lambda: (fft_autocorrelation(base), np.array_equal(before, base))[1])

    _capture(out, 'areas', lambda: calculate_spherical_areas((12, 7), radius=1.5))
    with open(outfile, 'wb') as fh:
        pickle.dump(out, fh)


# --------------------------------------------------------------------------
# driver
# --------------------------------------------------------------------------
def _original_src(tmp):
    env_src = os.environ.get('GEMDAT_ORIG_SRC')
    if env_src:
        return env_src
    dest = os.path.join(tmp, 'orig')
    os.makedirs(dest)
    archive = subprocess.run(['git', '-C', WORKTREE, 'archive', 'HEAD', 'src/gemdat'],
                             check=True, capture_output=True).stdout
    subprocess.run(['tar', '-x', '-C', dest], input=archive, check=True)
    return os.path.join(dest, 'src')


def _run(src, outfile):
    env = dict(os.environ)
    env['PYTHONPATH'] = src
    env['PYTHONDONTWRITEBYTECODE'] = '1'
    subprocess.run([PYTHON, os.path.abspath(__file__), '--worker', outfile], check=True, env=env,
                   cwd=tempfile.gettempdir())
    with open(outfile, 'rb') as fh:
        return pickle.load(fh)


def _same(a, b):
    import numpy as np

    if isinstance(a, (tuple, list)) or isinstance(b, (tuple, list)):
        return type(a) is type(b) and a == b, 'exception/tuple mismatch'
    if a.dtype != b.dtype or a.shape != b.shape:
        return False, f'dtype/shape {a.dtype}{a.shape} vs {b.dtype}{b.shape}'
    if a.dtype.kind in 'fc':
        if np.array_equal(a, b, equal_nan=True):
            return True, ''
        return False, f'max abs diff {np.nanmax(np.abs(a - b))}'
    return np.array_equal(a, b), 'values differ'


def main():
    with tempfile.TemporaryDirectory() as tmp:
        orig = _run(_original_src(tmp), os.path.join(tmp, 'orig.pkl'))
        new = _run(os.path.join(WORKTREE, 'src'), os.path.join(tmp, 'new.pkl'))
    bad = 0
    if [lab for lab, _ in orig] != [lab for lab, _ in new]:
        print('DIFFERENT result labels')
        bad += 1
    n_exc = 0
    for (lab, a), (lab_b, b) in zip(orig, new):
        if lab != lab_b:
            break
        ok, why = _same(a, b)
        n_exc += isinstance(a, tuple)
        if not ok:
            bad += 1
            print(f'DIFF {lab}: {why}\n   orig={a!r}\n   new ={b!r}'[:1500])
    n_init = sum(1 for lab, v in orig if lab.endswith('/vectors') and not isinstance(v, tuple))
    print(f'focus={FOCUS} cases={N_CASES} trajectories_ok={n_init} results={len(orig)} '
          f'exception_results={n_exc} differences={bad}')
    return 1 if bad else 0


if __name__ == '__main__':
    if len(sys.argv) == 3 and sys.argv[1] == '--worker':
        worker(sys.argv[2])
    else:
        sys.exit(main())
