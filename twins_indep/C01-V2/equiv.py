"""Differential test for refactoring 2 (vectorised distances_from_base_position, simplified _lengths).

Runs the same randomised workload once with PYTHONPATH=/repo/src (original) and once with
PYTHONPATH=/tmp/wtu_C01/src (refactored) in subprocesses, and compares every result bit for bit.
"""
import os
import pickle
import subprocess
import sys
import tempfile

import numpy as np

ORIG = '/repo/src'
NEW = '/tmp/wtu_C01/src'
N_CASES = 40


def random_lattice(rng, kind):
    from pymatgen.core import Lattice
    if kind == 0:
        return Lattice.cubic(rng.uniform(3, 12))
    if kind == 1:
        return Lattice.from_parameters(*rng.uniform(3, 12, 3), *rng.uniform(60, 120, 3))
    if kind == 2:  # rotated triclinic
        m = Lattice.from_parameters(*rng.uniform(3, 12, 3), *rng.uniform(70, 110, 3)).matrix
        q, _ = np.linalg.qr(rng.normal(size=(3, 3)))
        return Lattice(m @ q)
    return Lattice.hexagonal(rng.uniform(3, 6), rng.uniform(4, 12))


def make_coords(rng, case):
    n_t = int(rng.integers(1, 30))
    n_s = int(rng.integers(1, 7))
    start = rng.uniform(-1, 2, size=(1, n_s, 3))
    steps = rng.normal(scale=0.08, size=(n_t, n_s, 3))
    coords = start + np.cumsum(steps, axis=0)
    mode = case % 5
    if mode == 1:  # exact faces and tiny offsets around them
        specials = np.array([0.0, 1.0, -1.0, 2.0, -1e-17, 1e-17, 1 - 1e-16, -1e-300, 5e-324, -5e-324,
                             -0.0, 1 + 2e-16, -2.0 - 1e-16, 0.5, 3.0])
        mask = rng.random(coords.shape) < 0.5
        coords[mask] = rng.choice(specials, size=int(mask.sum()))
    elif mode == 2:  # whole lattice shifts
        coords = coords + rng.integers(-4, 5, size=coords.shape)
    elif mode == 3:  # large magnitudes
        coords = coords * 1e3
    elif mode == 4:  # fortran ordered / float32-origin values
        coords = np.asfortranarray(coords.astype(np.float32).astype(np.float64))
    return coords


def worker(out):
    from pymatgen.core import Element
    import gemdat
    from gemdat import Trajectory
    from gemdat.trajectory import _lengths
    from gemdat.metrics import TrajectoryMetrics
    assert gemdat.__file__.startswith(os.environ['PYTHONPATH']), gemdat.__file__
    results = []
    pool = ['Li', 'Na', 'S', 'P', 'O', 'Cl']
    for case in range(N_CASES):
        rng = np.random.default_rng(2000 + case)
        lattice = random_lattice(rng, case % 4)
        coords = make_coords(rng, case)
        n_s = coords.shape[1]
        species = [Element(pool[int(i)]) for i in rng.integers(0, len(pool), n_s)]
        res = {}

        def build(c=coords, **kw):
            return Trajectory(species=species, coords=c.copy(), lattice=lattice, time_step=1e-15,
                              metadata={'temperature': 300}, **kw)

        t = build()
        res['dist'] = t.distances_from_base_position()
        res['dist_flags'] = (res['dist'].flags['C_CONTIGUOUS'], res['dist'].flags['F_CONTIGUOUS'])
        res['flag_after'] = t.coords_are_displacement
        res['coords_after'] = t.coords
        res['dist_again'] = t.distances_from_base_position()
        # whole-lattice shifts of arbitrary coordinates
        shifted = coords + rng.integers(-3, 4, size=coords.shape)
        res['dist_shifted'] = build(shifted).distances_from_base_position()
        # starting from the displacement representation / positions representation
        t = build(); _ = t.positions
        res['dist_from_pos'] = t.distances_from_base_position()
        # empty selection, single species, slices, single frame
        res['dist_empty'] = build().filter('Xe').distances_from_base_position()
        res['dist_first'] = build().filter(species[0].symbol).distances_from_base_position()
        res['dist_slice'] = build()[::3].distances_from_base_position()
        res['dist_one_frame'] = build()[0:1].distances_from_base_position()
        res['dist_com'] = build().center_of_mass().distances_from_base_position()
        res['dist_corrected'] = build().apply_drift_correction().distances_from_base_position()
        # consumers
        m = TrajectoryMetrics(build())
        res['speed'] = m.speed()
        res['tracer'] = float(m.tracer_diffusivity())
        res['tracer_com'] = float(m.tracer_diffusivity_center_of_mass())
        res['rows'] = [np.asarray(r) for r in build().distances_from_base_position()]
        res['last'] = build().distances_from_base_position()[:, -1]
        # helper called directly: C / F ordered, non-contiguous, empty, huge and tiny vectors
        v = rng.normal(size=(int(rng.integers(0, 50)), 3)) * 10.0 ** rng.integers(-8, 8)
        res['len_c'] = _lengths(v, lattice=lattice)
        res['len_f'] = _lengths(np.asfortranarray(v), lattice=lattice)
        res['len_strided'] = _lengths(np.repeat(v, 2, axis=0)[::2], lattice)
        res['len_empty'] = _lengths(np.empty((0, 3)), lattice=lattice)
        res['len_int'] = _lengths(rng.integers(-3, 4, size=(7, 3)), lattice=lattice)
        for name, bad in (('1d', np.ones(3)), ('3d', np.ones((2, 4, 3))), ('2col', np.ones((4, 2)))):
            try:
                res['len_bad_' + name] = _lengths(bad, lattice=lattice)
            except Exception as exc:
                res['len_bad_' + name] = type(exc).__name__
        results.append(res)
    with open(out, 'wb') as fh:
        pickle.dump(results, fh)


def same(a, b):
    if isinstance(a, list):
        return isinstance(b, list) and len(a) == len(b) and all(same(x, y) for x, y in zip(a, b))
    if isinstance(a, np.ndarray) or isinstance(b, np.ndarray):
        a = np.asarray(a)
        b = np.asarray(b)
        return a.shape == b.shape and a.dtype == b.dtype and np.array_equal(a, b, equal_nan=True) \
            and np.array_equal(np.signbit(a), np.signbit(b))
    return a == b


def main():
    outs = []
    with tempfile.TemporaryDirectory() as td:
        for name, path in (('orig', ORIG), ('new', NEW)):
            out = os.path.join(td, name + '.pkl')
            env = dict(os.environ, PYTHONPATH=path)
            subprocess.run([sys.executable, '-W', 'ignore', __file__, '--worker', out], env=env, check=True)
            with open(out, 'rb') as fh:
                outs.append(pickle.load(fh))
    orig, new = outs
    bad = 0
    assert len(orig) == len(new) == N_CASES
    for i, (ro, rn) in enumerate(zip(orig, new)):
        assert ro.keys() == rn.keys()
        for k in ro:
            if not same(ro[k], rn[k]):
                bad += 1
                print(f'DIFF case {i} key {k}')
        if i % 5 in (0, 2, 4):  # generic inputs (no exact half-cell ties): sanity check of the property itself
            assert np.allclose(rn['dist'], rn['dist_shifted'], atol=1e-8), f'case {i}: not shift invariant'
    print(f'cases={N_CASES} differences={bad}')
    sys.exit(1 if bad else 0)


if __name__ == '__main__':
    if len(sys.argv) > 2 and sys.argv[1] == '--worker':
        worker(sys.argv[2])
    else:
        main()
