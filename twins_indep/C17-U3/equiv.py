"""Differential test for a behaviour-preserving refactoring of gemdat/shape.py (property C17).

Loads the ORIGINAL `gemdat/shape.py` under the module name `gemdat._orig_shape` and the
refactored `gemdat.shape` from the worktree, then runs both on randomised inputs and
demands bit-identical results (values, dtype, shape), identical warnings and identical
exception types.

Where the original comes from (first hit wins):
  1. $GEMDAT_ORIG_SRC/gemdat/shape.py        (explicit override)
  2. `git -C <worktree> show HEAD:src/gemdat/shape.py`  (HEAD of the worktree == untouched repo)
  3. /repo/src/gemdat/shape.py               (read-only fallback)
"""

from __future__ import annotations

import importlib.util
import os
import subprocess
import sys
import tempfile
import warnings

WORKTREE = os.environ.get('GEMDAT_WORKTREE', '/tmp/wtu_C17')
sys.path.insert(0, os.path.join(WORKTREE, 'src'))

import numpy as np  # noqa: E402
from pymatgen.core import Element, Lattice, PeriodicSite, Structure  # noqa: E402
from pymatgen.symmetry.groups import SpaceGroup  # noqa: E402

import gemdat  # noqa: E402
import gemdat.shape as new_shape  # noqa: E402

assert os.path.realpath(new_shape.__file__).startswith(os.path.realpath(WORKTREE)), new_shape.__file__


def _original_source() -> str:
    override = os.environ.get('GEMDAT_ORIG_SRC')
    if override:
        return open(os.path.join(override, 'gemdat', 'shape.py')).read()
    try:
        return subprocess.run(
            ['git', '-C', WORKTREE, 'show', 'HEAD:src/gemdat/shape.py'],
            check=True,
            capture_output=True,
            text=True,
        ).stdout
    except Exception:
        return open('/repo/src/gemdat/shape.py').read()


def _load_original():
    tmpdir = tempfile.mkdtemp(prefix='orig_shape_')
    path = os.path.join(tmpdir, '_orig_shape.py')
    with open(path, 'w') as fh:
        fh.write(_original_source())
    # name inside the gemdat package so that the relative imports resolve
    spec = importlib.util.spec_from_file_location('gemdat._orig_shape', path)
    mod = importlib.util.module_from_spec(spec)
    sys.modules['gemdat._orig_shape'] = mod
    spec.loader.exec_module(mod)
    return mod


old_shape = _load_original()
assert old_shape.ShapeAnalyzer is not new_shape.ShapeAnalyzer

# --------------------------------------------------------------------------- inputs


def random_lattice(rng, system):
    a, b, c = rng.uniform(4.0, 9.0, 3)
    if system == 'cubic':
        lat = Lattice.cubic(a)
    elif system == 'tetragonal':
        lat = Lattice.tetragonal(a, c)
    elif system == 'orthorhombic':
        lat = Lattice.orthorhombic(a, b, c)
    elif system == 'hexagonal':
        lat = Lattice.hexagonal(a, c)
    elif system == 'monoclinic':
        lat = Lattice.monoclinic(a, b, c, rng.uniform(95, 125))
    elif system == 'rhombohedral':
        lat = Lattice.rhombohedral(a, rng.uniform(60, 100))
    else:  # triclinic
        lat = Lattice.from_parameters(a, b, c, *rng.uniform(70, 110, 3))
    return lat


def rotated(rng, lat):
    """Same cell, arbitrarily rotated in space (general, non lower-triangular matrix)."""
    q, _ = np.linalg.qr(rng.normal(size=(3, 3)))
    if np.linalg.det(q) < 0:
        q[:, 0] *= -1
    return Lattice(lat.matrix @ q)


SYSTEMS = {
    'triclinic': [1, 2],
    'monoclinic': [3, 5, 10, 12, 14, 15],
    'orthorhombic': [16, 19, 47, 62, 63, 70],
    'tetragonal': [75, 88, 123, 139, 141],
    'hexagonal': [143, 147, 164, 168, 186, 191, 194],
    'rhombohedral': [146, 166],
    'cubic': [195, 200, 216, 221, 225, 227, 229, 230],
}


def random_site_frac(rng):
    kind = rng.integers(0, 5)
    if kind == 0:  # on / next to a face: symmetry images fall outside [0, 1)
        f = rng.uniform(0, 1, 3)
        f[rng.integers(0, 3)] = rng.choice([0.0, 1e-9, 1 - 1e-9, 0.999999])
        return f
    if kind == 1:  # special position
        return rng.choice([0.0, 0.25, 0.5, 0.75, 1 / 3, 2 / 3], 3)
    if kind == 2:  # outside the cell
        return rng.uniform(-1.5, 2.5, 3)
    return rng.uniform(0, 1, 3)


def random_positions(rng, site_fracs, n):
    kind = rng.integers(0, 6)
    if kind == 0:
        return np.empty((0, 3))
    if kind == 1:  # far away from everything / nothing selected is likely
        return rng.uniform(0, 1, (3, 3))
    pos = rng.uniform(0, 1, (n, 3))
    if kind == 2:  # unwrapped coordinates
        pos = rng.uniform(-2, 3, (n, 3))
    if kind == 3:  # cloud around the sites, crossing cell faces
        centre = np.asarray(site_fracs)[rng.integers(0, len(site_fracs), n)]
        pos = centre + rng.normal(scale=0.05, size=(n, 3))
    if kind == 4:  # exact faces / corners included
        pos[: n // 4] = rng.choice([0.0, 0.5, 1.0], (n // 4, 3))
    if rng.integers(0, 4) == 0:
        pos = pos.astype(np.float32)
    return pos


def make_case(rng):
    system = list(SYSTEMS)[rng.integers(0, len(SYSTEMS))]
    number = int(rng.choice(SYSTEMS[system]))
    lat = random_lattice(rng, system)
    if system == 'rhombohedral':
        sg = SpaceGroup.from_int_number(number, hexagonal=False)
    else:
        sg = SpaceGroup.from_int_number(number)
    if rng.integers(0, 3) == 0 and system == 'triclinic':
        lat = rotated(rng, lat)
    n_sites = int(rng.integers(0, 4))
    fracs = [random_site_frac(rng) for _ in range(n_sites)]
    sites = [
        PeriodicSite(Element('Li'), f, lat, label=f'S{i}', to_unit_cell=False)
        for i, f in enumerate(fracs)
    ]
    if rng.integers(0, 5) == 0:
        sites = tuple(sites)
    return system, number, lat, sg, sites, fracs


# --------------------------------------------------------------------------- comparison


def capture(func):
    """Run func; return ('ok', value, warnings) or ('err', exception type name, warnings)."""
    with warnings.catch_warnings(record=True) as rec:
        warnings.simplefilter('always')
        try:
            out = ('ok', func())
        except Exception as exc:  # noqa: BLE001
            out = ('err', type(exc).__name__)
    msgs = [(w.category.__name__, str(w.message)) for w in rec if w.category is UserWarning]
    return out + (msgs,)


def same_array(a, b):
    a = np.asarray(a)
    b = np.asarray(b)
    return a.shape == b.shape and a.dtype == b.dtype and np.array_equal(a, b, equal_nan=True)


FAILURES = []
STATS = {'ok': 0, 'err': 0, 'warned': 0}


def check(tag, old, new):
    STATS[old[0]] += 1
    STATS['warned'] += bool(old[2])
    if old[0] != new[0] or old[2] != new[2]:
        FAILURES.append((tag, 'status/warnings', old[0], new[0], old[2], new[2]))
        return
    if old[0] == 'err':
        if old[1] != new[1]:
            FAILURES.append((tag, 'exception', old[1], new[1]))
        return
    o, n = old[1], new[1]
    if isinstance(o, np.ndarray):
        if not same_array(o, n):
            FAILURES.append((tag, 'array differs'))
        return
    # list[ShapeData]
    if type(o) is not type(n) or len(o) != len(n):
        FAILURES.append((tag, 'container', type(o), type(n), len(o), len(n)))
        return
    for so, sn in zip(o, n):
        if not (
            so.site is sn.site
            and (so.radius == sn.radius or (so.radius != so.radius and sn.radius != sn.radius))
            and type(so.radius) is type(sn.radius)
            and same_array(so.coords, sn.coords)
            and same_array(so.distances(), sn.distances())
            and same_array(so.origin, sn.origin)
            and so.name == sn.name
        ):
            FAILURES.append((tag, 'shape data differs', so.name))


def max_radius(lat):
    m = lat.matrix
    vol = abs(np.linalg.det(m))
    widths = [
        vol / np.linalg.norm(np.cross(m[(i + 1) % 3], m[(i + 2) % 3])) for i in range(3)
    ]
    return 0.5 * min(widths)


def main(n_cases=60, seed=1717):
    rng = np.random.default_rng(seed)
    n_points = 0
    for case in range(n_cases):
        system, number, lat, sg, sites, fracs = make_case(rng)
        old_an = old_shape.ShapeAnalyzer(sites=sites, lattice=lat, spacegroup=sg)
        new_an = new_shape.ShapeAnalyzer(sites=sites, lattice=lat, spacegroup=sg)
        tag = f'case{case}:{system}:sg{number}'

        rmax = max_radius(lat)
        radius = float(rng.choice([rng.uniform(0.05, 0.999) * rmax, 1.0, 1e-6, rmax * 0.999]))
        positions = random_positions(rng, fracs or [np.zeros(3)], int(rng.integers(1, 400)))

        # 1. the core routine, per site
        for i, site in enumerate(sites):
            p_old, p_new = positions.copy(), positions.copy()
            r_old = capture(
                lambda: old_an.find_equivalent_positions(site=site, positions=p_old, radius=radius)
            )
            r_new = capture(
                lambda: new_an.find_equivalent_positions(site=site, positions=p_new, radius=radius)
            )
            check(f'{tag}:find[{i}]', r_old, r_new)
            if r_old[0] == 'ok':
                n_points += len(r_old[1])
            # the caller's array must be left alone by both
            if not (same_array(p_old, positions) and same_array(p_new, positions)):
                FAILURES.append((tag, 'input mutated'))
        # default radius
        if sites:
            check(
                f'{tag}:find-default',
                capture(lambda: old_an.find_equivalent_positions(site=sites[0], positions=positions)),
                capture(lambda: new_an.find_equivalent_positions(site=sites[0], positions=positions)),
            )

        # 2. all sites
        check(
            f'{tag}:analyze_positions',
            capture(lambda: old_an.analyze_positions(positions, radius=radius)),
            capture(lambda: new_an.analyze_positions(positions, radius=radius)),
        )
        check(
            f'{tag}:analyze_positions-default',
            capture(lambda: old_an.analyze_positions(positions)),
            capture(lambda: new_an.analyze_positions(positions)),
        )

        # 3. trajectories, with and without supercell folding
        n_atoms = int(rng.integers(1, 6))
        n_steps = int(rng.integers(1, 12))
        supercell = None
        traj_lat = lat
        choice = rng.integers(0, 4)
        if choice == 1:
            supercell = tuple(int(x) for x in rng.integers(1, 4, 3))
        elif choice == 2:
            supercell = tuple(float(x) for x in rng.integers(1, 3, 3))
        elif choice == 3:  # list instead of tuple, and a lattice that does not match -> warning
            supercell = [int(x) for x in rng.integers(1, 4, 3)]
        if supercell is not None:
            traj_lat = Lattice(np.asarray(supercell, dtype=float)[:, None] * lat.matrix)
        if rng.integers(0, 5) == 0:  # mismatching lattice -> UserWarning from both
            traj_lat = Lattice(traj_lat.matrix * 1.37)
        base = rng.uniform(0, 1, (n_atoms, 3))
        if fracs and supercell is not None:
            # put atoms next to images of the sites in the supercell
            sc = np.asarray(supercell, dtype=float)
            base = (np.asarray(fracs)[rng.integers(0, len(fracs), n_atoms)] + rng.integers(0, 3, (n_atoms, 3))) / sc
        coords = base[None] + np.cumsum(rng.normal(scale=0.02, size=(n_steps, n_atoms, 3)), axis=0)
        if rng.integers(0, 2):
            coords = np.mod(coords, 1)
        traj = gemdat.Trajectory(
            species=[Element('Li')] * n_atoms,
            coords=coords,
            lattice=traj_lat,
            time_step=1e-15,
            metadata={'temperature': 300},
        )
        check(
            f'{tag}:analyze_trajectory:{supercell}',
            capture(lambda: old_an.analyze_trajectory(traj, supercell=supercell, radius=radius)),
            capture(lambda: new_an.analyze_trajectory(traj, supercell=supercell, radius=radius)),
        )
        check(
            f'{tag}:analyze_trajectory-default',
            capture(lambda: old_an.analyze_trajectory(traj)),
            capture(lambda: new_an.analyze_trajectory(traj)),
        )

    # 4. analyzers built through spglib (SpacegroupOperations instead of SpaceGroup)
    for k in range(8):
        lat = [Lattice.cubic(5.1), Lattice.hexagonal(4.2, 6.9), Lattice.orthorhombic(4, 5, 6),
               Lattice.from_parameters(4, 5, 6, 80, 95, 105)][k % 4]
        sgname = ['Fm-3m', 'P6_3/mmc', 'Pnma', 'P-1'][k % 4]
        struct = Structure.from_spacegroup(sgname, lat, ['Li', 'S'], [rng.uniform(0, 1, 3), rng.uniform(0, 1, 3)])
        old_an = old_shape.ShapeAnalyzer.from_structure(struct)
        new_an = new_shape.ShapeAnalyzer.from_structure(struct)
        # same op objects for both so that only the code under test differs
        new_an = new_shape.ShapeAnalyzer(sites=old_an.sites, lattice=old_an.lattice, spacegroup=old_an.spacegroup)
        positions = rng.uniform(-1, 2, (300, 3))
        radius = float(rng.uniform(0.3, 0.95) * max_radius(lat))
        check(
            f'spglib{k}:analyze_positions',
            capture(lambda: old_an.analyze_positions(positions, radius=radius)),
            capture(lambda: new_an.analyze_positions(positions, radius=radius)),
        )
        if repr(old_an) != repr(new_an):
            FAILURES.append((f'spglib{k}', 'repr'))

    # 5. degenerate inputs: both implementations must fail (or succeed) the same way
    lat = Lattice.from_parameters(4, 5, 6, 80, 95, 105)
    site = PeriodicSite(Element('Li'), [0.999, 0.0, 0.5], lat, label='X')
    ident_only = list(SpaceGroup.from_int_number(2))
    degenerate = {
        'no-ops': ([], rng.uniform(0, 1, (10, 3))),
        'int-positions': (ident_only, np.zeros((4, 3), dtype=int)),
        'int-positions-far': (ident_only, np.full((4, 3), 7, dtype=int)),
        'list-positions': (ident_only, rng.uniform(0, 1, (5, 3)).tolist()),
        'wrong-width': (ident_only, rng.uniform(0, 1, (5, 2))),
        'nan-positions': (ident_only, np.full((5, 3), np.nan)),
        'nan-radius': (ident_only, rng.uniform(0, 1, (5, 3))),
    }
    for name, (ops, pos) in degenerate.items():
        rad = float('nan') if name == 'nan-radius' else 2.0
        old_an = old_shape.ShapeAnalyzer(sites=[site], lattice=lat, spacegroup=ops)
        new_an = new_shape.ShapeAnalyzer(sites=[site], lattice=lat, spacegroup=ops)
        check(
            f'degenerate:{name}:find',
            capture(lambda: old_an.find_equivalent_positions(site=site, positions=pos, radius=rad)),
            capture(lambda: new_an.find_equivalent_positions(site=site, positions=pos, radius=rad)),
        )
        check(
            f'degenerate:{name}:analyze',
            capture(lambda: old_an.analyze_positions(pos, radius=rad)),
            capture(lambda: new_an.analyze_positions(pos, radius=rad)),
        )

    # 6. supercell folding: many supercell spellings, incl. ones that must fail identically
    for k in range(30):
        lat = random_lattice(rng, ['triclinic', 'hexagonal', 'monoclinic', 'cubic'][k % 4])
        if k % 3 == 0:
            lat = rotated(rng, lat)
        sg = SpaceGroup.from_int_number([2, 168, 3, 221][k % 4])
        fr = random_site_frac(rng)
        sites = [PeriodicSite(Element('Li'), fr, lat, label='A')]
        old_an = old_shape.ShapeAnalyzer(sites=sites, lattice=lat, spacegroup=sg)
        new_an = new_shape.ShapeAnalyzer(sites=sites, lattice=lat, spacegroup=sg)
        supercell = [
            (2, 2, 2), (1, 1, 1), (3, 1, 2), [2, 1, 1], np.array([1, 2, 3]), (2.0, 2.0, 1.0),
            (1.5, 1.0, 1.0), (2, 2), (2, 2, 2, 2), 2, (0, 1, 1), (-1, 1, 1), ('a', 'b', 'c'), None, (),
        ][k % 15]
        try:
            sc = np.broadcast_to(np.asarray(supercell, dtype=float), (3,))
            sc = np.where(sc > 0, sc, 1.0)
        except Exception:  # noqa: BLE001
            sc = np.ones(3)
        traj_lat = Lattice(sc[:, None] * lat.matrix)
        n_atoms, n_steps = int(rng.integers(1, 5)), int(rng.integers(1, 20))
        base = (fr + rng.integers(0, 3, (n_atoms, 3))) / sc
        coords = base[None] + np.cumsum(rng.normal(scale=0.01, size=(n_steps, n_atoms, 3)), axis=0)
        traj = gemdat.Trajectory(
            species=[Element('Li')] * n_atoms, coords=coords, lattice=traj_lat,
            time_step=1e-15, metadata={'temperature': 300},
        )
        radius = float(rng.uniform(0.2, 0.9) * max_radius(lat))
        before = traj.positions.copy()
        with np.errstate(all='ignore'):
            check(
                f'supercell{k}:{supercell!r}',
                capture(lambda: old_an.analyze_trajectory(traj, supercell=supercell, radius=radius)),
                capture(lambda: new_an.analyze_trajectory(traj, supercell=supercell, radius=radius)),
            )
        if not np.array_equal(traj.positions, before):
            FAILURES.append((f'supercell{k}', 'trajectory mutated'))

    print(f'cases={n_cases}+8 collected_points={n_points} stats={STATS} failures={len(FAILURES)}')
    for f in FAILURES[:20]:
        print('  FAIL', f)
    return 1 if FAILURES else 0


if __name__ == '__main__':
    sys.exit(main())
