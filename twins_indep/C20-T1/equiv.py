"""Differential test for refactoring 1 (src/gemdat/caching.py: weak_lru_cache restructured).

Part A (in-process): load the ORIGINAL caching.py from /repo/src and the refactored one from the
worktree under two different module names, decorate identical classes with both, and drive both
with the same random interleaving of create / call (varying positional+keyword args) / drop /
gc.collect operations (more live objects than the cache size, tiny cache sizes, typed=True,
maxsize=None, maxsize=0).  The complete trace (returned values, number of real evaluations,
liveness of every object after dropping, raised exceptions, wrapper metadata) must be identical,
and every returned value must equal the uncached recomputation.

Part B (subprocess): run a gemdat-level scenario (TrajectoryMetrics on random triclinic
trajectories with atoms crossing cell faces, object churn + gc) once with PYTHONPATH=/repo/src and
once with PYTHONPATH=<worktree>/src and compare the pickled results bit for bit.
"""
import gc
import importlib.util
import os
import pickle
import random
import subprocess
import sys
import weakref

ORIG_SRC = '/repo/src'
NEW_SRC = '/tmp/wtt_C20/src'


def load(path, name):
    spec = importlib.util.spec_from_file_location(name, path)
    mod = importlib.util.module_from_spec(spec)
    spec.loader.exec_module(mod)
    return mod


# --------------------------------------------------------------------------- part A
def make_class(weak_lru_cache, maxsize, typed):
    class Obj:
        evaluations = 0

        def __init__(self, payload):
            self.payload = payload

        @weak_lru_cache(maxsize=maxsize, typed=typed)
        def compute(self, a=0, *, b=1):
            """Docstring of compute."""
            type(self).evaluations += 1
            if a == 'boom':
                raise ValueError(f'boom {self.payload}')
            return (self.payload, a, b, type(a).__name__)

        @weak_lru_cache(maxsize, typed)
        def other(self):
            type(self).evaluations += 1
            return ('other', self.payload)

    return Obj


def uncached(payload, a=0, *, b=1):
    return (payload, a, b, type(a).__name__)


ARGS = [(), (1,), (1.0,), (2,), ('x',), (True,), ('boom',)]
KWARGS = [{}, {'b': 1}, {'b': 2}, {'a': 1}, {'a': 1, 'b': 2}, {'b': 2, 'a': 1}]


def drive(Obj, seed, n_ops, typed):
    rng = random.Random(seed)
    live = {}
    dead_refs = []
    trace = []
    next_payload = 0
    for _ in range(n_ops):
        op = rng.random()
        if op < 0.25 or not live:
            live[next_payload] = Obj(next_payload)
            trace.append(('new', next_payload))
            next_payload += 1
        elif op < 0.75:
            key = rng.choice(sorted(live))
            args = rng.choice(ARGS)
            kwargs = rng.choice(KWARGS)
            if args and 'a' in kwargs:
                kwargs = {k: v for k, v in kwargs.items() if k != 'a'}
            try:
                res = live[key].compute(*args, **kwargs)
            except ValueError as exc:
                trace.append(('exc', key, str(exc), Obj.evaluations))
            else:
                expect = uncached(key, *args, **kwargs)
                # typed=False may legitimately return the result stored for an equal key
                # (1 == 1.0 == True), so the type name is only checked for typed caches
                if res[:3] != expect[:3] or (typed and res != expect):
                    raise SystemExit(f'cached value wrong: {res!r} != {expect!r}')
                trace.append(('call', key, args, tuple(kwargs.items()), res, Obj.evaluations))
        elif op < 0.85:
            key = rng.choice(sorted(live))
            res = live[key].other()
            assert res == ('other', key), res
            trace.append(('other', key, res, Obj.evaluations))
        elif op < 0.95:
            key = rng.choice(sorted(live))
            ref = weakref.ref(live[key])
            del live[key]
            # refcounting alone must free it: the cache may not keep the object alive
            trace.append(('drop', key, ref() is None))
            dead_refs.append(ref)
        else:
            gc.collect()
            trace.append(('gc', [r() is None for r in dead_refs]))
    live.clear()
    gc.collect()
    trace.append(('final', all(r() is None for r in dead_refs)))
    return trace


def part_a():
    orig = load(os.path.join(ORIG_SRC, 'gemdat', 'caching.py'), 'caching_orig')
    new = load(os.path.join(NEW_SRC, 'gemdat', 'caching.py'), 'caching_new')
    assert orig.__file__ != new.__file__
    n_cases = 0
    for seed in range(40):
        rng = random.Random(1000 + seed)
        maxsize = rng.choice([0, 1, 2, 3, 5, 128, None])
        typed = rng.choice([False, True])
        n_ops = rng.choice([50, 200, 600])
        Obj_o = make_class(orig.weak_lru_cache, maxsize, typed)
        Obj_n = make_class(new.weak_lru_cache, maxsize, typed)
        t_o = drive(Obj_o, seed, n_ops, typed)
        t_n = drive(Obj_n, seed, n_ops, typed)
        if t_o != t_n:
            for i, (x, y) in enumerate(zip(t_o, t_n)):
                if x != y:
                    print(f'seed {seed} maxsize={maxsize} typed={typed}: step {i}: {x!r} != {y!r}')
                    break
            return 1
        # types of returned values must match too (1 vs 1.0 vs True under typed/untyped caches)
        if [repr(s) for s in t_o] != [repr(s) for s in t_n]:
            print(f'seed {seed}: repr of traces differ')
            return 1
        # wrapper metadata
        for attr in ('__name__', '__qualname__', '__doc__', '__module__'):
            if getattr(Obj_o.compute, attr) != getattr(Obj_n.compute, attr):
                print('metadata differs', attr)
                return 1
        for O in (Obj_o, Obj_n):
            assert O.compute.__wrapped__.__name__ == 'compute'
            assert not hasattr(O.compute, 'cache_info')
        assert sorted(vars(Obj_o.compute)) == sorted(vars(Obj_n.compute))
        n_cases += 1

    # error behaviour of the decorator factory itself: same exception type at the same stage
    for bad in ('a', 1.5, [1]):
        outcomes = []
        for mod in (orig, new):
            stage = 'factory'
            try:
                deco = mod.weak_lru_cache(maxsize=bad)
                stage = 'decorate'
                deco(lambda self: 1)
                stage = 'ok'
            except Exception as exc:  # noqa: BLE001
                outcomes.append((stage, type(exc).__name__, str(exc)))
            else:
                outcomes.append((stage,))
        if outcomes[0] != outcomes[1]:
            print('error behaviour differs', bad, outcomes)
            return 1

    # address re-use: a fresh object allocated where a dead one lived must never see its results
    for mod in (orig, new):

        class Box:
            def __init__(self, v):
                self.v = v

            @mod.weak_lru_cache()
            def get(self):
                return self.v

        seen_reuse = 0
        ids = set()
        for i in range(2000):
            b = Box(i)
            if id(b) in ids:
                seen_reuse += 1
            ids.add(id(b))
            if b.get() != i:
                print('stale value after address reuse', mod.__name__, i)
                return 1
            del b
        assert seen_reuse > 0, 'address reuse never happened'
    print(f'part A: {n_cases} randomised interleavings identical')
    return 0


# --------------------------------------------------------------------------- part B
def child():
    import numpy as np
    from pymatgen.core import Element, Lattice

    import gemdat
    from gemdat.metrics import TrajectoryMetrics

    assert gemdat.__file__.startswith(os.environ['EXPECT_SRC']), gemdat.__file__
    out = []
    for seed in range(24):
        rng = np.random.default_rng(seed)
        if seed % 3 == 0:
            lattice = Lattice.from_parameters(
                *rng.uniform(4, 9, 3), *rng.uniform(65, 115, 3)
            )
        elif seed % 3 == 1:
            # rotated (non lower-triangular) triclinic cell
            m = Lattice.from_parameters(5, 6, 7, 80, 95, 105).matrix
            q, _ = np.linalg.qr(rng.normal(size=(3, 3)))
            lattice = Lattice(m @ q)
        else:
            lattice = Lattice.cubic(rng.uniform(3, 6))
        n_t = int(rng.integers(6, 40))
        n_at = int(rng.integers(1, 5))
        steps = rng.normal(scale=0.08, size=(n_t, n_at, 3))
        coords = (rng.uniform(0, 1, (1, n_at, 3)) + np.cumsum(steps, axis=0)) % 1.0
        species = [Element('Li')] * n_at
        objs = []
        for rep in range(3):
            traj = gemdat.Trajectory(
                species=species,
                coords=coords if rep != 1 else coords[::-1].copy(),
                lattice=lattice,
                time_step=float(rng.uniform(0.5e-15, 3e-15)),
                metadata={'temperature': float(rng.uniform(200, 900))},
            )
            objs.append(TrajectoryMetrics(traj))
        rec = []
        for rnd in range(2):
            for m in objs:
                rec.append(np.asarray(m.speed()))
                rec.append(float(m.particle_density()))
                rec.append(float(m.mol_per_liter()))
                for d in (1, 2, 3):
                    rec.append(float(m.tracer_diffusivity(dimensions=d)))
                    rec.append(float(m.tracer_conductivity(z_ion=1 + d, dimensions=d)))
                rec.append(float(m.tracer_diffusivity()))
                rec.append(tuple(float(x) for x in m.attempt_frequency()))
                rec.append(float(m.vibration_amplitude()))
                rec.append(np.asarray(m.amplitudes()))
            # cached result identical to a fresh object's result
            fresh = TrajectoryMetrics(objs[0].trajectory)
            assert np.array_equal(fresh.speed(), objs[0].speed())
            assert fresh.speed() is not objs[0].speed()
            assert objs[0].speed() is objs[0].speed()
        refs = [weakref.ref(m) for m in objs]
        del objs, m, fresh
        rec.append([r() is None for r in refs])
        gc.collect()
        out.append(rec)
    sys.stdout.buffer.write(pickle.dumps(out))


def same(a, b):
    import numpy as np

    if isinstance(a, (list, tuple)):
        return type(a) is type(b) and len(a) == len(b) and all(same(x, y) for x, y in zip(a, b))
    if isinstance(a, np.ndarray):
        return a.shape == b.shape and a.dtype == b.dtype and np.array_equal(a, b, equal_nan=True)
    if isinstance(a, float):
        return a == b or (a != a and b != b)
    return a == b


def part_b():
    results = []
    for src in (ORIG_SRC, NEW_SRC):
        env = dict(os.environ, PYTHONPATH=src, EXPECT_SRC=src, PYTHONHASHSEED='0')
        proc = subprocess.run(
            [sys.executable, os.path.abspath(__file__), '--child'],
            env=env, stdout=subprocess.PIPE, stderr=subprocess.PIPE, cwd='/tmp',
        )
        if proc.returncode != 0:
            print(proc.stderr.decode()[-3000:])
            return 1
        results.append(pickle.loads(proc.stdout))
    if not same(results[0], results[1]):
        print('part B: gemdat-level results differ')
        return 1
    print(f'part B: {len(results[0])} random trajectories x 3 objects identical')
    return 0


if __name__ == '__main__':
    if '--child' in sys.argv:
        child()
        sys.exit(0)
    rc = part_a() or part_b()
    print('EQUIVALENT' if rc == 0 else 'DIFFERENT')
    sys.exit(rc)
