"""Differential test for refactoring C14/3.

Refactored (trajectory.py): _lengths (einsum 'ij,ji->i' on the transpose -> 'ij,ij->i'), Trajectory.
            distances_from_base_position (loop -> comprehension, .T -> np.transpose) and Trajectory.center_of_mass
            (helper _atomic_masses extracted, operands of + swapped, reshape(-1, 1, 3) -> [:, np.newaxis, :]).
            These feed tracer_diffusivity, tracer_diffusivity_center_of_mass, haven_ratio, speed, amplitudes.

The script runs itself twice as a worker, once with PYTHONPATH=/repo/src (original) and once
with PYTHONPATH=/tmp/wtt_C14/src (refactored), on the same randomised inputs and compares
every result.  Exit status 0 <=> all results agree (bit-identical, or within 1e-12 relative).
"""
import os
import pickle
import subprocess
import sys

import numpy as np

ORIG = '/repo/src'
NEW = os.environ.get('TWIN_SRC', '/tmp/wtt_C14/src')
N_CASES = 40


def random_lattice(rng, kind):
    from pymatgen.core import Lattice
    if kind == 0:
        return Lattice.cubic(rng.uniform(1.0, 12.0))
    if kind == 1:
        return Lattice.orthorhombic(*rng.uniform(2.0, 12.0, 3))
    if kind == 2:
        return Lattice.from_parameters(*rng.uniform(3.0, 11.0, 3), *rng.uniform(60.0, 120.0, 3))
    # rotated triclinic: random rotation of a general cell
    base = Lattice.from_parameters(*rng.uniform(3.0, 11.0, 3), *rng.uniform(70.0, 110.0, 3)).matrix
    q, _ = np.linalg.qr(rng.normal(size=(3, 3)))
    return Lattice(base @ q)


def random_trajectory(seed):
    from pymatgen.core import Element, Species
    from gemdat import Trajectory
    rng = np.random.default_rng(seed)
    lattice = random_lattice(rng, seed % 4)
    n_atoms = int(rng.integers(1, 7))
    n_frames = int(rng.integers(6, 70))
    pool = [Element('Li'), Element('Na'), Element('S'), Element('P'), Species('Li', 1), Element('O')]
    species = [pool[int(i)] for i in rng.integers(0, len(pool), n_atoms)]
    step = rng.choice([0.005, 0.05, 0.3])  # large steps make atoms cross cell faces
    steps = rng.normal(scale=step, size=(n_frames, n_atoms, 3))
    mode = seed % 7
    if mode == 1:  # one atom does not move at all -> speeds of exactly zero
        steps[:, 0, :] = 0.0
    elif mode == 2:  # all atoms move identically
        steps[:] = steps[:, :1, :]
    elif mode == 3:  # atom stands still for a while in the middle (sign == 0 stretches)
        steps[n_frames // 3: n_frames // 2] = 0.0
    elif mode == 4:  # monotonous drift, (almost) no sign flips
        steps = np.abs(steps) * 0.1
    elif mode == 5:  # atom oscillating between two positions
        steps[:, 0, :] = 0.0
        steps[1::2, 0, 0] = 0.1
        steps[2::2, 0, 0] = -0.1
    start = rng.uniform(0.0, 1.0, size=(1, n_atoms, 3))
    if seed % 5 == 0:
        start[0, 0] = [0.0, 0.999999, 0.5]  # sits on a cell face
    coords = np.mod(start + np.cumsum(steps, axis=0), 1.0)
    return Trajectory(
        species=species,
        coords=coords,
        lattice=lattice,
        time_step=float(rng.choice([1e-15, 2e-15, 5.5e-16, 1.0])),
        metadata={'temperature': float(rng.uniform(1.0, 1500.0))},
    )


def guarded(fn):
    try:
        return fn()
    except Exception as exc:  # exceptions must agree as well
        return ('EXC', type(exc).__name__, str(exc) if isinstance(exc, AssertionError) else '')


def describe(arr):
    arr = np.asarray(arr)
    return (arr, np.array(str(arr.dtype)), np.array(arr.shape), np.array([arr.flags.c_contiguous, arr.flags.f_contiguous]))


def traj_state(t):
    return (np.asarray(t.coords), np.asarray(t.base_positions), np.asarray(t.get_lattice().matrix),
            np.array([str(s) for s in t.species]), np.array(bool(t.coords_are_displacement)),
            np.array(float(t.time_step)), np.array(sorted(t.metadata.items()), dtype=str),
            np.array(type(t).__name__), np.array(len(t)))


def worker():
    from gemdat import Trajectory
    from gemdat.metrics import TrajectoryMetrics
    from gemdat.trajectory import _lengths
    out = {}
    for seed in range(N_CASES):
        rng = np.random.default_rng(9000 + seed)
        # --- _lengths directly
        lattice = random_lattice(rng, seed % 4)
        n = int(rng.integers(0, 9))
        vecs = rng.normal(size=(n, 3)) * rng.choice([1e-8, 1.0, 1e6])
        out[seed, '_lengths'] = guarded(lambda: describe(_lengths(vecs, lattice)))
        out[seed, '_lengths fortran'] = guarded(lambda: describe(_lengths(np.asfortranarray(vecs), lattice)))
        out[seed, '_lengths strided'] = guarded(
            lambda: describe(_lengths(rng.normal(size=(n, 6))[:, ::2], lattice)))
        out[seed, '_lengths int'] = guarded(lambda: describe(_lengths((vecs * 3).astype(int), lattice)))
        out[seed, '_lengths zero'] = guarded(lambda: describe(_lengths(np.zeros((n, 3)), lattice)))
        out[seed, '_lengths 1d'] = guarded(lambda: describe(_lengths(np.ones(3), lattice)))
        out[seed, '_lengths 3d'] = guarded(lambda: describe(_lengths(np.ones((2, 2, 3)), lattice)))
        # --- on trajectories
        traj = random_trajectory(seed)
        for label, t in (('pos', traj), ('disp', None)):
            if t is None:
                t = random_trajectory(seed)
                t.to_displacements()
            out[seed, label, 'distances'] = guarded(lambda: describe(t.distances_from_base_position()))
            out[seed, label, 'com'] = guarded(lambda: traj_state(t.center_of_mass()))
            out[seed, label, 'com distances'] = guarded(
                lambda: describe(t.center_of_mass().distances_from_base_position()))
            out[seed, label, 'state after'] = guarded(lambda: traj_state(t))
            m = TrajectoryMetrics(t)
            out[seed, label, 'speed'] = guarded(lambda: describe(m.speed()))
            out[seed, label, 'amplitudes'] = guarded(lambda: describe(m.amplitudes()))
            for dim in (1, 2, 3):
                out[seed, label, 'D', dim] = guarded(lambda: float(m.tracer_diffusivity(dimensions=dim)))
                out[seed, label, 'Dcom', dim] = guarded(
                    lambda: float(m.tracer_diffusivity_center_of_mass(dimensions=dim)))
                out[seed, label, 'haven', dim] = guarded(lambda: float(m.haven_ratio(dimensions=dim)))
            out[seed, label, 'sigma'] = guarded(lambda: float(m.tracer_conductivity(z_ion=2)))
            out[seed, label, 'vib'] = guarded(lambda: float(m.vibration_amplitude()))
        # slices, a single frame, selections (also one that matches nothing)
        for label, fn in (('slice', lambda: traj[2:]), ('one frame', lambda: traj[3:4]),
                          ('Li', lambda: traj.filter('Li')), ('none', lambda: traj.filter('Xe'))):
            sub = guarded(fn)
            if isinstance(sub, tuple):
                out[seed, label] = sub
                continue
            out[seed, label, 'distances'] = guarded(lambda: describe(sub.distances_from_base_position()))
            out[seed, label, 'com'] = guarded(lambda: traj_state(sub.center_of_mass()))
        # species that are not Element/Species -> identical AssertionError (message included)
        bad = Trajectory(species=['Li', 'Na'][: 1 + seed % 2], coords=rng.uniform(size=(4, 1 + seed % 2, 3)),
                         lattice=lattice, time_step=1e-15)
        out[seed, 'bad species com'] = guarded(lambda: traj_state(bad.center_of_mass()))
        out[seed, 'bad species distances'] = guarded(lambda: describe(bad.distances_from_base_position()))
        # displacement trajectory without base positions
        nobase = Trajectory(species=traj.species, coords=np.asarray(traj.displacements), lattice=lattice,
                            coords_are_displacement=True, time_step=1e-15)
        out[seed, 'no base com'] = guarded(lambda: traj_state(nobase.center_of_mass()))
        out[seed, 'no base distances'] = guarded(lambda: describe(nobase.distances_from_base_position()))
    sys.stdout.buffer.write(pickle.dumps(out))


def flatten(value):
    if isinstance(value, tuple) and value and isinstance(value[0], str):
        return value
    if isinstance(value, tuple):
        return [np.asarray(v) for v in value]
    return [np.asarray(value)]


def same(a, b):
    """Return (equal, bit_identical)."""
    fa, fb = flatten(a), flatten(b)
    if isinstance(fa, tuple) or isinstance(fb, tuple):
        return fa == fb, fa == fb
    if len(fa) != len(fb):
        return False, False
    bit = True
    for x, y in zip(fa, fb):
        if x.shape != y.shape or x.dtype != y.dtype:
            return False, False
        if x.dtype.kind in 'USO':
            if not np.array_equal(x, y):
                return False, False
            continue
        if not np.array_equal(x, y, equal_nan=True):
            bit = False
            if not np.allclose(x, y, rtol=1e-12, atol=0.0, equal_nan=True):
                return False, False
    return True, bit


def run(src):
    env = dict(os.environ, PYTHONPATH=src)
    proc = subprocess.run([sys.executable, __file__, '--worker'], env=env, capture_output=True)
    if proc.returncode != 0:
        sys.stderr.write(proc.stderr.decode())
        raise SystemExit(f'worker failed for {src}')
    return pickle.loads(proc.stdout)


def main():
    ref, new = run(ORIG), run(NEW)
    bad, inexact = [], 0
    if ref.keys() != new.keys():
        bad.append('key sets differ')
    for key in ref:
        ok, bit = same(ref[key], new.get(key))
        if not ok:
            bad.append(key)
        elif not bit:
            inexact += 1
    n_exc = sum(1 for v in ref.values() if isinstance(v, tuple) and v and isinstance(v[0], str))
    print(f'cases={N_CASES} compared={len(ref)} (of which exceptions={n_exc}) '
          f'not-bit-identical-but-within-1e-12={inexact} mismatches={len(bad)}')
    for key in bad[:20]:
        print('  MISMATCH', key, ref.get(key) if not isinstance(key, str) else '', new.get(key) if not isinstance(key, str) else '')
    sys.exit(1 if bad else 0)


if __name__ == '__main__':
    if '--worker' in sys.argv:
        worker()
    else:
        main()
