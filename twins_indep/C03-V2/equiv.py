"""Differential test: original vs refactored utils.ffill / utils.bfill and Transitions.states_prev / states_next."""
import sys
import types
import importlib
import warnings

import numpy as np

WT = '/tmp/wtu_C03/src'
sys.path.insert(0, WT)

orig_pkg = types.ModuleType('gemdat_orig')
orig_pkg.__path__ = ['/repo/src/gemdat']
sys.modules['gemdat_orig'] = orig_pkg
outils = importlib.import_module('gemdat_orig.utils')
otr = importlib.import_module('gemdat_orig.transitions')
otraj = importlib.import_module('gemdat_orig.trajectory')

import gemdat  # noqa: E402
import gemdat.utils as nutils  # noqa: E402
import gemdat.transitions as ntr  # noqa: E402

assert nutils.__file__.startswith(WT) and ntr.__file__.startswith(WT)
assert outils.__file__.startswith('/repo/src') and otr.__file__.startswith('/repo/src')

from pymatgen.core import Element, Lattice, Structure  # noqa: E402

warnings.simplefilter('ignore')
failures = 0
n_cases = 0


def call(f, *a, **kw):
    try:
        return 'ok', f(*a, **kw)
    except Exception as e:  # noqa: BLE001
        return 'err', (type(e), str(e))


def compare(tag, a, b):
    global failures, n_cases
    n_cases += 1
    if a[0] != b[0]:
        print('FAIL', tag, 'status', a, b)
        failures += 1
    elif a[0] == 'err':
        if a[1] != b[1]:
            print('FAIL', tag, 'exception differs', a[1], b[1])
            failures += 1
    else:
        x, y = a[1], b[1]
        ok = (type(x) is type(y) and x.shape == y.shape and x.dtype == y.dtype
              and np.array_equal(x, y, equal_nan=(x.dtype.kind == 'f')))
        if not ok:
            print('FAIL', tag, '\n', x, '\n', y)
            failures += 1


rng = np.random.default_rng(303)

# --- ffill / bfill directly ---------------------------------------------------------------
for case in range(60):
    n_r = int(rng.choice([0, 1, 2, 5, 30]))
    n_c = int(rng.choice([0, 1, 2, 7, 50]))
    p_fill = float(rng.choice([0.0, 0.3, 0.8, 1.0]))
    dtype = rng.choice([np.int64, np.int32, np.float64])
    fill_val = int(rng.choice([-1, -1, 0, 3]))
    arr = rng.integers(-1, 6, size=(n_r, n_c)).astype(dtype)
    arr[rng.random(arr.shape) < p_fill] = fill_val
    if case % 5 == 0:
        arr = np.asfortranarray(arr)
    if case % 7 == 0 and dtype is np.float64 and arr.size:
        arr.flat[0] = np.nan
    for name in ('ffill', 'bfill'):
        fo, fn = getattr(outils, name), getattr(nutils, name)
        compare(f'{name}{case}-default', call(fo, arr), call(fn, arr))
        for axis in (-1, 0, 1):
            compare(f'{name}{case}-axis{axis}', call(fo, arr, fill_val=fill_val, axis=axis),
                    call(fn, arr, fill_val=fill_val, axis=axis))
        compare(f'{name}{case}-pos', call(fo, arr, fill_val, 0), call(fn, arr, fill_val, 0))

# unsupported shapes must fail the same way
for bad in (np.arange(5), np.zeros((2, 3, 4), int), np.array(3)):
    for name in ('ffill', 'bfill'):
        for axis in (-1, 0):
            compare(f'{name}-bad{bad.ndim}-{axis}', call(getattr(outils, name), bad, axis=axis),
                    call(getattr(nutils, name), bad, axis=axis))

# inputs are not modified
arr = rng.integers(-1, 3, size=(6, 9))
keep = arr.copy()
nutils.ffill(arr); nutils.bfill(arr); nutils.ffill(arr, axis=0); nutils.bfill(arr, axis=0)
if not np.array_equal(arr, keep):
    print('FAIL input mutated')
    failures += 1


# --- Transitions.states_prev / states_next on synthetic state histories ---------------------------
def random_states(rng, n_t, n_a, n_sites, p_move, p_nosite):
    states = np.empty((n_t, n_a), dtype=int)
    cur = rng.integers(-1, n_sites, size=n_a)
    for t in range(n_t):
        move = rng.random(n_a) < p_move
        new = rng.integers(0, n_sites, size=n_a)
        new[rng.random(n_a) < p_nosite] = -1
        cur = np.where(move, new, cur)
        states[t] = cur
    return states


class FakeSites:
    is_ordered = True


for case in range(30):
    n_t = int(rng.choice([1, 2, 10, 100]))
    n_a = int(rng.choice([1, 3, 8]))
    states = random_states(rng, n_t, n_a, 5, float(rng.choice([0.0, 0.1, 0.6])), float(rng.choice([0.0, 0.5, 1.0])))
    if case % 4 == 0:
        states = np.asfortranarray(states)
    res = []
    for mod in (otr, ntr):
        t = mod.Transitions(trajectory=None, diff_trajectory=None, sites=FakeSites(), events=None,
                            states=states, inner_states=states)
        res.append((call(t.states_prev), call(t.states_next)))
    compare(f'states_prev{case}', res[0][0], res[1][0])
    compare(f'states_next{case}', res[0][1], res[1][1])

# --- end to end (cubic / triclinic / rotated cells, unwrapped coordinates) -------------------------
lattices = [
    Lattice.cubic(6.0),
    Lattice.from_parameters(5.0, 6.0, 7.0, 80, 95, 110),
    Lattice.from_parameters(6.0, 6.0, 9.0, 90, 90, 120),
    Lattice(np.array([[0.0, 5.0, 0.0], [0.0, 0.0, 6.0], [7.0, 0.0, 0.0]])),
    Lattice(np.array([[4.0, 1.0, 0.5], [-0.7, 5.0, 1.0], [0.3, -1.2, 6.0]])),
]
site_frac = np.array([[0.1, 0.1, 0.1], [0.6, 0.1, 0.1], [0.1, 0.6, 0.1], [0.6, 0.6, 0.6], [0.95, 0.5, 0.02]])
for li_, lattice in enumerate(lattices):
    for rep in range(2):
        n_t, n_li = 80, 3
        start = site_frac[rng.integers(0, len(site_frac), n_li)]
        li = start[None] + np.cumsum(rng.normal(scale=0.03, size=(n_t, n_li, 3)), axis=0)
        fixed = np.tile(np.array([[0.3, 0.3, 0.3], [0.8, 0.8, 0.3]]), (n_t, 1, 1))
        coords = np.concatenate([li, fixed], axis=1)
        species = [Element('Li')] * n_li + [Element('S')] * 2
        res = []
        for tmod, trmod in ((otraj, otr), (gemdat.trajectory, ntr)):
            traj = tmod.Trajectory(species=species, coords=coords, lattice=lattice, time_step=1e-15,
                                   metadata={'temperature': 300})
            sites = Structure(lattice, ['Li'] * len(site_frac), site_frac)
            tr = trmod.Transitions.from_trajectory(trajectory=traj, sites=sites, floating_specie='Li',
                                                   site_radius=1.0)
            res.append((call(tr.states_prev), call(tr.states_next)))
            assert (tr.states == -1).any() and (tr.states != -1).any()
        compare(f'e2e_prev_{li_}_{rep}', res[0][0], res[1][0])
        compare(f'e2e_next_{li_}_{rep}', res[0][1], res[1][1])

print(f'cases={n_cases} failures={failures}')
sys.exit(1 if failures else 0)
