"""Differential test for refactoring C08/3 (trajectory_to_volume counts voxels via a row-major linear index).

Runs the same randomised cases against the ORIGINAL gemdat (/repo/src, read-only) and the
refactored gemdat (/tmp/wtu_C08/src) in two subprocesses and compares every result.
Exit code 0 = identical, 1 = difference found.
"""
import os
import pickle
import subprocess
import sys
import tempfile

ORIG = '/repo/src'
NEW = '/tmp/wtu_C08/src'
N_CASES = 60


def make_cases():
    import numpy as np

    rng = np.random.default_rng(8083)
    cases = []
    for n in range(N_CASES):
        kind = n % 6
        if kind == 0:
            a = rng.uniform(2, 9)
            params = (a, a, a, 90, 90, 90)
        elif kind == 1:
            params = (*rng.uniform(2, 9, 3), 90, 90, 90)
        elif kind == 2:
            params = (*rng.uniform(2, 9, 3), 90, rng.uniform(95, 120), 90)
        elif kind == 3:
            a, c = rng.uniform(2, 9, 2)
            params = (a, a, c, 90, 90, 120)
        else:
            params = (*rng.uniform(2, 9, 3), *rng.uniform(70, 110, 3))
        rotate = bool(n % 2)
        n_frames = int(rng.integers(1, 12))
        n_atoms = int(rng.integers(1, 40))
        coords = rng.random((n_frames, n_atoms, 3))
        resolution = float(rng.choice([0.11, 0.2, 0.35, 0.5, 0.77, 1.0, 1.5, 2.5]))
        mode = n % 10
        if mode == 1:
            # exact lower face and the largest float below 1
            coords[0, 0] = (0.0, np.nextafter(1.0, 0.0), 0.0)
            coords[-1, -1] = np.nextafter(1.0, 0.0)
        elif mode == 2:
            # positions exactly on bin edges
            lengths = np.array(params[:3])
            n_edges = (1 + lengths // resolution).astype(int)
            for axis in range(3):
                edges = np.linspace(0, 1, n_edges[axis])[:-1]
                coords[..., axis] = rng.choice(edges, size=coords.shape[:2])
        elif mode == 3:
            # resolution equal to a cell length (single voxel along that axis)
            resolution = float(params[n % 3])
        elif mode == 4:
            # resolution larger than every cell length (empty grid -> error)
            resolution = 25.0
        elif mode == 5:
            # resolution larger than the shortest cell length only
            resolution = float(min(params[:3]) * 1.01)
        elif mode == 6 and n > 30:
            # coordinate outside the unit cell -> assertion
            coords[0, 0, 1] = 1.0 if n % 4 else -0.25
        elif mode == 7:
            # everything in one voxel
            coords[:] = coords[0, 0]
        elif mode == 8 and n > 30:
            resolution = -1.5 if n % 4 else 0.0
        cases.append(dict(params=params, rotate=rotate, coords=coords, resolution=resolution))
    return cases


def worker(expected_root, out):
    import warnings

    import numpy as np
    from pymatgen.core import Element, Lattice

    import gemdat
    import gemdat.volume as volume_module
    from gemdat.volume import trajectory_to_volume

    assert os.path.realpath(volume_module.__file__).startswith(os.path.realpath(expected_root)), (
        volume_module.__file__
    )
    warnings.simplefilter('ignore')
    results = []
    for case in make_cases():
        lattice = Lattice.from_parameters(*case['params'])
        if case['rotate']:
            rng = np.random.default_rng(len(results))
            q, _ = np.linalg.qr(rng.normal(size=(3, 3)))
            lattice = Lattice(lattice.matrix @ q)
        coords = case['coords']
        species = [Element('Li'), Element('S'), Element('P')]
        traj = gemdat.Trajectory(
            species=[species[i % 3] for i in range(coords.shape[1])],
            coords=coords,
            lattice=lattice,
            time_step=1e-15,
            metadata={'temperature': 300},
        )
        res = []

        class Stub:
            """Duck-typed trajectory whose positions are NOT wrapped (reaches the asserts)."""

            def __init__(self, positions):
                self.positions = positions

            def get_lattice(self):
                return lattice

        bad = coords.copy()
        bad.flat[len(results) % bad.size] = (1.0, -0.25, np.nan, 1.5)[len(results) % 4]
        for call in (
            lambda: trajectory_to_volume(Stub(coords), resolution=case['resolution']),
            lambda: trajectory_to_volume(Stub(bad), resolution=case['resolution']),
            lambda: trajectory_to_volume(Stub(coords[:0]), resolution=case['resolution']),
            lambda: trajectory_to_volume(traj, resolution=case['resolution']),
            lambda: traj.to_volume(resolution=case['resolution']),
            lambda: traj[::2].to_volume(),
        ):
            try:
                vol = call()
            except Exception as exc:  # noqa: BLE001
                res.append(('error', type(exc).__name__))
            else:
                res.append(
                    (
                        'ok',
                        type(vol).__name__,
                        vol.data.dtype.str,
                        vol.data.shape,
                        vol.data.tobytes(),
                        tuple(vol.dims),
                        vol.label,
                        str(vol.units),
                        np.asarray(vol.lattice.matrix).tobytes(),
                        np.asarray(vol.voxel_size).tobytes(),
                        int(vol.data.sum()),
                    )
                )
        results.append(res)
    with open(out, 'wb') as f:
        pickle.dump(results, f)


def main():
    outs = {}
    with tempfile.TemporaryDirectory() as td:
        for name, root in (('orig', ORIG), ('new', NEW)):
            out = os.path.join(td, name + '.pkl')
            env = dict(os.environ, PYTHONPATH=root)
            subprocess.run([sys.executable, __file__, '--worker', root, out], env=env, check=True)
            with open(out, 'rb') as f:
                outs[name] = pickle.load(f)
    assert len(outs['orig']) == len(outs['new']) == N_CASES
    bad = 0
    n_ok = n_err = 0
    for i, (a, b) in enumerate(zip(outs['orig'], outs['new'])):
        for ra, rb in zip(a, b):
            if ra[0] == 'ok':
                n_ok += 1
            else:
                n_err += 1
            if ra != rb:
                bad += 1
                print(f'case {i}: DIFFERENT', ra[:4], rb[:4])
    print(f'cases={N_CASES} calls_ok={n_ok} calls_error={n_err} differences={bad}')
    return 1 if bad else 0


if __name__ == '__main__':
    if len(sys.argv) > 1 and sys.argv[1] == '--worker':
        worker(sys.argv[2], sys.argv[3])
    else:
        sys.exit(main())
