"""Differential test for refactoring C06/1: mean_squared_displacement: per-Cartesian-axis FFT autocorrelation via a nested helper, hoisted time window, pre-allocated padded D

ORIGINAL implementation : /repo/src (read-only; override with $GEMDAT_ORIG_SRC)
REFACTORED implementation: /tmp/wtu_C06/src (override root with $GEMDAT_NEW_ROOT)

Both are run in separate subprocesses (only PYTHONPATH differs) on identical randomised inputs
(cubic / orthorhombic / hexagonal / triclinic / rotated-triclinic cells, wrapped and unwrapped
coordinates, atoms crossing cell faces, immobile atoms, single-frame, empty selections, zero-frame
trajectories, displacement-form input).  Results are compared bitwise first, then within 1e-12
(relative to max(1, |x|)).  Exceptions are compared by type and message.  Exit status is non-zero
when any result differs.
"""
import os
import pickle
import subprocess
import sys
import tempfile
import warnings

ORIG_SRC = os.environ.get('GEMDAT_ORIG_SRC', '/repo/src')
WORKTREE = os.environ.get('GEMDAT_NEW_ROOT', '/tmp/wtu_C06')
N_CASES = 48
TOL = 1e-12


# --------------------------------------------------------------------------- worker
def make_lattice(rng, kind):
    import numpy as np

    if kind == 0:  # cubic
        return np.eye(3) * rng.uniform(3, 12)
    if kind == 1:  # orthorhombic
        return np.diag(rng.uniform(3, 12, size=3))
    if kind == 2:  # hexagonal-like
        a, c = rng.uniform(3, 9, size=2)
        return np.array([[a, 0, 0], [-a / 2, a * np.sqrt(3) / 2, 0], [0, 0, c]])
    if kind == 3:  # general triclinic
        return np.diag(rng.uniform(4, 10, size=3)) + rng.uniform(-2, 2, size=(3, 3))
    # rotated triclinic: random rotation applied to a sheared cell
    m = np.diag(rng.uniform(4, 10, size=3)) + np.triu(rng.uniform(-3, 3, size=(3, 3)), 1)
    q, _ = np.linalg.qr(rng.normal(size=(3, 3)))
    return m @ q


def make_case(seed):
    import numpy as np

    rng = np.random.default_rng(1000 + seed)
    lattice = make_lattice(rng, seed % 5)
    n_times = [1, 2, 3, 5, 8, 17, 32, 61, 100][seed % 9]
    n_atoms = [1, 2, 3, 5, 9, 14][(seed // 3) % 6]
    start = rng.uniform(0, 1, size=(1, n_atoms, 3))
    style = (seed // 5) % 4
    if style == 0:  # small thermal motion
        steps = rng.normal(scale=0.02, size=(n_times, n_atoms, 3))
    elif style == 1:  # strong drift: atoms cross the cell faces many times
        steps = rng.normal(scale=0.05, size=(n_times, n_atoms, 3)) + rng.uniform(-0.3, 0.3, size=(1, n_atoms, 3))
    elif style == 2:  # large jumps close to half a cell
        steps = rng.uniform(-0.49, 0.49, size=(n_times, n_atoms, 3))
    else:  # first atom immobile, others drifting
        steps = rng.normal(scale=0.1, size=(n_times, n_atoms, 3))
        steps[:, 0, :] = 0
    steps[0] = 0
    coords = start + np.cumsum(steps, axis=0)
    if (seed // 2) % 2 == 0:
        coords = np.mod(coords, 1)
    return dict(lattice=lattice, coords=coords, n_atoms=n_atoms, as_displacements=seed % 11 == 0,
                steps=steps, start=start, time_step=float(rng.uniform(0.5, 3)) * 1e-15)


def attempt(res, key, func):
    """Store the value of func() or a description of the exception it raised."""
    try:
        res[key] = func()
    except Exception as exc:  # noqa: BLE001 - exceptions are part of the compared behaviour
        res[key] = f'EXC {type(exc).__name__}: {exc}'


def observe(traj, res, prefix=''):
    from gemdat.metrics import TrajectoryMetrics

    attempt(res, prefix + 'msd', traj.mean_squared_displacement)
    attempt(res, prefix + 'dist', traj.distances_from_base_position)
    attempt(res, prefix + 'cum', lambda: traj.cumulative_displacements)
    attempt(res, prefix + 'total_time', lambda: float(traj.total_time))
    metrics = TrajectoryMetrics(traj)
    for dim in (1, 2, 3):
        attempt(res, prefix + f'D{dim}', lambda: float(metrics.tracer_diffusivity(dimensions=dim)))
    attempt(res, prefix + 'D_default', lambda: float(metrics.tracer_diffusivity()))
    attempt(res, prefix + 'D_unit', lambda: str(metrics.tracer_diffusivity(dimensions=3).unit))
    attempt(res, prefix + 'D_type', lambda: type(metrics.tracer_diffusivity(dimensions=3)).__name__)
    attempt(res, prefix + 'speed', metrics.speed)
    attempt(res, prefix + 'D_com', lambda: float(metrics.tracer_diffusivity_center_of_mass(dimensions=3)))
    attempt(res, prefix + 'D_com2', lambda: float(metrics.tracer_diffusivity_center_of_mass(dimensions=2)))
    attempt(res, prefix + 'D_com_unit', lambda: str(metrics.tracer_diffusivity_center_of_mass().unit))
    attempt(res, prefix + 'haven', lambda: float(metrics.haven_ratio(dimensions=3)))
    attempt(res, prefix + 'msd_com', lambda: traj.center_of_mass().mean_squared_displacement())
    attempt(res, prefix + 'dist_com', lambda: traj.center_of_mass().distances_from_base_position())


def worker(out_path):
    import numpy as np
    from pymatgen.core import Element, Lattice

    import gemdat.trajectory as T
    from gemdat import Trajectory

    warnings.simplefilter('ignore')
    elements = ['Li', 'Na', 'S', 'P', 'O', 'Cl', 'K', 'B', 'Si']
    results = {}
    for seed in range(N_CASES):
        case = make_case(seed)
        species = [Element(elements[i % len(elements)]) for i in range(case['n_atoms'])]
        kwargs = dict(species=species, lattice=case['lattice'], time_step=case['time_step'],
                      metadata={'temperature': 300})
        if case['as_displacements']:
            traj = Trajectory(coords=case['steps'].copy(), coords_are_displacement=True,
                              base_positions=case['start'][0].copy(), **kwargs)
        else:
            traj = Trajectory(coords=case['coords'].copy(), **kwargs)

        res = {}
        observe(traj, res)
        # results must not depend on the representation the coords are currently in
        traj.to_positions()
        attempt(res, 'msd_after_positions', traj.mean_squared_displacement)
        attempt(res, 'dist_after_positions', traj.distances_from_base_position)
        if len(traj) > 2:
            observe(traj[1:], res, 'sub_')
            observe(traj[0:1], res, 'one_')  # single frame
        observe(traj.filter('Li'), res, 'li_')
        observe(traj.filter('Br'), res, 'none_')  # empty selection (0 atoms)
        results[seed] = res

    # degenerate: zero-frame trajectories (only constructible in displacement form)
    for n_atoms in (0, 1, 3):
        res = {}
        try:
            traj = Trajectory(species=[Element('Li')] * n_atoms, coords=np.zeros((0, n_atoms, 3)),
                              coords_are_displacement=True, base_positions=np.zeros((n_atoms, 3)),
                              lattice=make_lattice(np.random.default_rng(n_atoms), 3), time_step=1e-15,
                              metadata={'temperature': 300})
        except Exception as exc:  # noqa: BLE001
            res['construct'] = f'EXC {type(exc).__name__}: {exc}'
        else:
            observe(traj, res)
        results[f'zero_frames_{n_atoms}'] = res

    # module-level pieces, exercised directly on raw arrays (incl. an empty selection)
    rng = np.random.default_rng(12345)
    for k in range(10):
        lat = Lattice(make_lattice(rng, k % 5))
        vecs = rng.normal(size=(k, 3))  # k == 0 -> empty selection
        res = {}
        attempt(res, 'lengths', lambda: T._lengths(vecs, lattice=lat))
        attempt(res, 'lengths_T_view', lambda: T._lengths(np.asfortranarray(vecs), lattice=lat))
        results[f'lengths{k}'] = res

    with open(out_path, 'wb') as f:
        pickle.dump(results, f)


# --------------------------------------------------------------------------- driver
def run_worker(src, out_path):
    env = dict(os.environ)
    env['PYTHONPATH'] = src
    check = subprocess.run([sys.executable, '-c', 'import gemdat, os; print(os.path.dirname(gemdat.__file__))'],
                           env=env, check=True, stdout=subprocess.PIPE, text=True).stdout.strip()
    assert os.path.realpath(check).startswith(os.path.realpath(src)), (check, src)
    subprocess.run([sys.executable, os.path.abspath(__file__), '--worker', out_path], env=env, check=True)
    with open(out_path, 'rb') as f:
        return pickle.load(f)


def compare(a, b, where, stats):
    import numpy as np

    if isinstance(a, np.ndarray) or isinstance(b, np.ndarray):
        if not (isinstance(a, np.ndarray) and isinstance(b, np.ndarray)):
            print(f'DIFF {where}: {a!r} vs {b!r}')
            return False
        if a.shape != b.shape or a.dtype != b.dtype:
            print(f'DIFF {where}: shape/dtype {a.shape}/{a.dtype} vs {b.shape}/{b.dtype}')
            return False
        if a.tobytes() == b.tobytes():
            stats['bitwise'] += 1
            return True
        stats['approx'] += 1
        err = np.abs(a - b) / np.maximum(1.0, np.abs(a))
        if not np.all(np.isnan(a) == np.isnan(b)) or np.nanmax(err, initial=0.0) > TOL:
            print(f'DIFF {where}: max err {np.nanmax(err, initial=0.0)}')
            return False
        return True
    if isinstance(a, float) and isinstance(b, float):
        if a == b or (a != a and b != b):
            stats['bitwise'] += 1
            return True
        stats['approx'] += 1
        if not abs(a - b) <= TOL * max(1.0, abs(a)):
            print(f'DIFF {where}: {a!r} vs {b!r}')
            return False
        return True
    if type(a) is not type(b) or a != b:
        print(f'DIFF {where}: {a!r} vs {b!r}')
        return False
    stats['bitwise'] += 1
    return True


def main():
    with tempfile.TemporaryDirectory() as tmp:
        orig = run_worker(ORIG_SRC, os.path.join(tmp, 'orig.pkl'))
        new = run_worker(os.path.join(WORKTREE, 'src'), os.path.join(tmp, 'new.pkl'))

    ok = True
    stats = {'bitwise': 0, 'approx': 0}
    if orig.keys() != new.keys():
        print('DIFF: different case keys')
        ok = False
    n_exc = 0
    for case in orig:
        if case not in new or orig[case].keys() != new[case].keys():
            print(f'DIFF case {case}: different result keys')
            ok = False
            continue
        for key in orig[case]:
            n_exc += isinstance(orig[case][key], str) and orig[case][key].startswith('EXC')
            ok &= compare(orig[case][key], new[case][key], f'case {case} / {key}', stats)
    print(f'cases={len(orig)} compared: identical={stats["bitwise"]} within-tol-only={stats["approx"]} '
          f'(of which identical exceptions: {n_exc})')
    print('EQUIVALENT' if ok else 'NOT EQUIVALENT')
    return 0 if ok else 1


if __name__ == '__main__':
    if len(sys.argv) == 3 and sys.argv[1] == '--worker':
        worker(sys.argv[2])
    else:
        sys.exit(main())
