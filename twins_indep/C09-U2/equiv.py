"""Differential test for refactoring 2 (gemdat.path.free_energy_graph: boolean-mask node selection,
generator of bonds consumed by add_edges_from, min() cap).

Runs the same randomised workload once against the ORIGINAL code (PYTHONPATH=/repo/src, read-only)
and once against the refactored worktree (PYTHONPATH=/tmp/wtu_C09/src) in sub-processes and
compares the pickled results. Graphs are compared including node order, adjacency (insertion) order,
key types, attribute order, attribute types and exact float bits. Exits non-zero on any difference.
"""
import os
import pickle
import subprocess
import sys
import tempfile

ORIG = '/repo/src'
NEW = '/tmp/wtu_C09/src'


def worker(out):
    import warnings

    import networkx as nx
    import numpy as np
    from pymatgen.core import Lattice

    import gemdat
    from gemdat.path import free_energy_graph, optimal_n_paths, optimal_path, optimal_percolating_path
    from gemdat.volume import FreeEnergyVolume, Volume

    assert gemdat.__file__.startswith(os.environ['EXPECT_ROOT']), gemdat.__file__
    rng = np.random.default_rng(9009)
    records = []

    def scalar(x):
        try:
            return (type(x).__name__, float(x).hex())
        except Exception:
            return (type(x).__name__, repr(x))

    def key(k):
        return tuple((type(i).__name__, int(i)) for i in k)

    def dump_graph(G):
        return {
            'class': type(G).__name__,
            'nodes': [(key(n), [(a, scalar(v)) for a, v in d.items()]) for n, d in G.nodes(data=True)],
            'adj': [
                (key(n), [(key(m), [(a, scalar(v)) for a, v in dd.items()]) for m, dd in nbrs.items()])
                for n, nbrs in G.adjacency()
            ],
            'n_edges': G.number_of_edges(),
            'graph_attr': dict(G.graph),
        }

    def dump_path(p):
        if p is None:
            return None
        return ([key(s) for s in p.sites], [scalar(e) for e in p.energy],
                None if p.dims is None else tuple(int(i) for i in p.dims))

    def run(tag, fn):
        rec = {'tag': tag}
        with warnings.catch_warnings(record=True) as w:
            warnings.simplefilter('always')
            try:
                rec['result'] = fn()
            except Exception as e:
                rec['error'] = (type(e).__name__, str(e))
        rec['warnings'] = [(x.category.__name__, str(x.message)) for x in w]
        records.append(rec)

    lats = [
        Lattice.cubic(5.0),
        Lattice.from_parameters(4.0, 5.5, 7.1, 75, 98, 112),
        Lattice.hexagonal(3.3, 9.1),
        Lattice.from_parameters(3.0, 9.5, 5.1, 90, 90, 90),
    ]

    def free_energy(dims, p_zero, T=None):
        dens = rng.random(dims) * rng.choice([1.0, 100.0])
        dens[rng.random(dims) < p_zero] = 0.0
        if not dens.any():
            dens.flat[rng.integers(dens.size)] = 1.0
        vol = Volume(data=dens, lattice=lats[int(rng.integers(len(lats)))])
        with warnings.catch_warnings():
            warnings.simplefilter('ignore')
            return vol.get_free_energy(temperature=T or float(rng.uniform(100, 1500)))

    # 1. graphs of real free-energy volumes (unvisited voxels = 1.8e308 must be dropped by the threshold)
    for i in range(24):
        dims = tuple(int(d) for d in rng.integers(1, 6, size=3))
        F = free_energy(dims, p_zero=rng.choice([0.0, 0.3, 0.8]))
        thr = [1e20, 1e7, float(np.sort(F.data, axis=None)[F.data.size // 2]) + 1e-9, float(F.data.min()), 0.35, 10][i % 6]
        diag = bool(i % 2)
        as_volume = bool((i // 2) % 2)
        arg = F if as_volume else F.data
        run(f'graph{i}-{dims}-thr{thr}-diag{diag}-vol{as_volume}',
            lambda: dump_graph(free_energy_graph(arg, max_energy_threshold=thr, diagonal=diag)))
    F = free_energy((3, 4, 2), 0.4)
    run('defaults', lambda: dump_graph(free_energy_graph(F)))
    run('method', lambda: dump_graph(F.free_energy_graph(max_energy_threshold=1e7)))

    # 2. arbitrary arrays: negatives, nan, inf, exp overflow, ints, float32, equality with the threshold
    d = rng.normal(scale=2.0, size=(3, 3, 4)); d[0, 1, 2] = np.nan; d[2, 2, 2] = np.inf; d[1, 1, 1] = -0.0
    run('neg-nan-inf', lambda: dump_graph(free_energy_graph(d, max_energy_threshold=3.0)))
    d2 = rng.uniform(600, 900, size=(2, 3, 3))
    run('exp-overflow', lambda: dump_graph(free_energy_graph(d2)))
    run('exp-overflow-nodiag', lambda: dump_graph(free_energy_graph(d2, diagonal=False)))
    d3 = rng.integers(-2, 8, size=(3, 2, 4))
    run('int64', lambda: dump_graph(free_energy_graph(d3, max_energy_threshold=5)))
    run('int32', lambda: dump_graph(free_energy_graph(d3.astype(np.int32), max_energy_threshold=5.5)))
    d4 = rng.uniform(0, 30, size=(3, 3, 3)).astype(np.float32)
    run('float32', lambda: dump_graph(free_energy_graph(d4, max_energy_threshold=1e7)))
    run('float32-np-thr', lambda: dump_graph(free_energy_graph(d4, max_energy_threshold=np.float32(20.0))))
    d5 = np.zeros((2, 2, 2)); d5[0, 0, 0] = np.log(7.0); d5[1, 1, 1] = 7.0
    run('cap-equality', lambda: dump_graph(free_energy_graph(d5, max_energy_threshold=7.0)))
    run('cap-equality-exp', lambda: dump_graph(free_energy_graph(np.full((1, 2, 2), np.log(5.0)), max_energy_threshold=float(np.exp(np.log(5.0))))))
    run('nothing-accessible', lambda: dump_graph(free_energy_graph(np.full((2, 2, 2), 50.0), max_energy_threshold=1.0)))
    run('nan-threshold', lambda: dump_graph(free_energy_graph(rng.random((2, 2, 2)), max_energy_threshold=float('nan'))))
    run('one-voxel', lambda: dump_graph(free_energy_graph(np.array([[[0.25]]]))))
    run('2d-array', lambda: dump_graph(free_energy_graph(rng.random((3, 3)))))
    run('2d-array-empty', lambda: dump_graph(free_energy_graph(rng.random((3, 3)) + 5, max_energy_threshold=1.0)))
    run('4d-array', lambda: dump_graph(free_energy_graph(rng.random((2, 2, 2, 2)))))
    run('list-input', lambda: dump_graph(free_energy_graph([[[0.1, 0.2]]])))
    run('list-input-empty', lambda: dump_graph(free_energy_graph([[[5.0, 6.0]]], max_energy_threshold=1.0)))
    run('0d-empty', lambda: dump_graph(free_energy_graph(np.array(5.0), max_energy_threshold=1.0)))
    run('0d', lambda: dump_graph(free_energy_graph(np.array(0.5))))
    dM = np.ma.masked_greater(rng.random((3, 3, 3)) * 4, 2.0)
    run('masked-array', lambda: dump_graph(free_energy_graph(dM, max_energy_threshold=3.0)))
    dF = np.asfortranarray(rng.random((3, 4, 5)) * 4)
    run('fortran-order', lambda: dump_graph(free_energy_graph(dF, max_energy_threshold=3.0)))
    dS = (rng.random((6, 6, 6)) * 4)[::2, 1::2, ::3]
    run('strided-view', lambda: dump_graph(free_energy_graph(dS, max_energy_threshold=3.0)))

    # 3. downstream: shortest paths (tie-breaking depends on the adjacency order) and percolation
    rng = np.random.default_rng(4242)  # independent of the cases above
    for i in range(8):
        dims = tuple(int(d) for d in rng.integers(3, 6, size=3))
        F = free_energy(dims, p_zero=0.25)
        G = F.free_energy_graph(max_energy_threshold=1e7, diagonal=bool(i % 2))
        nodes = list(G.nodes)
        a, b = nodes[int(rng.integers(len(nodes)))], nodes[int(rng.integers(len(nodes)))]
        for method in ('dijkstra', 'bellman-ford', 'minmax-energy', 'dijkstra-exp', 'simple'):
            run(f'path{i}-{method}', lambda: dump_path(optimal_path(G, start=a, stop=b, method=method)))
        # min_diff=0 keeps Yen's enumeration short (every candidate is accepted)
        run(f'npaths{i}', lambda: [dump_path(p) for p in optimal_n_paths(G, start=a, stop=b, n_paths=3, min_diff=0.0)])
        run(f'volpath{i}', lambda: dump_path(F.optimal_path(start=a, stop=b)))
        peaks = np.array(nodes)[rng.choice(len(nodes), size=min(3, len(nodes)), replace=False)]
        run(f'perc{i}', lambda: dump_path(optimal_percolating_path(F, peaks=peaks, percolate='xyz'[i % 3])))
        run(f'perc2-{i}', lambda: dump_path(F.optimal_percolating_path(peaks=peaks, percolate='xz')))

    with open(out, 'wb') as f:
        pickle.dump(records, f)


def main():
    results = []
    with tempfile.TemporaryDirectory() as td:
        for name, root in (('orig', ORIG), ('new', NEW)):
            out = os.path.join(td, name + '.pkl')
            env = dict(os.environ, PYTHONPATH=root, EXPECT_ROOT=root, PYTHONDONTWRITEBYTECODE='1')
            subprocess.run([sys.executable, os.path.abspath(__file__), 'worker', out], env=env, check=True, cwd=td)
            with open(out, 'rb') as f:
                results.append(pickle.load(f))
    a, b = results
    bad = 0
    if len(a) != len(b):
        print('different number of records', len(a), len(b))
        bad += 1
    for ra, rb in zip(a, b):
        if ra != rb:
            bad += 1
            print('DIFF', ra['tag'], {k: (ra.get(k), rb.get(k)) for k in set(ra) | set(rb)
                                      if ra.get(k) != rb.get(k) and k != 'result'})
    n_ok = sum('error' not in r for r in a)
    n_edges = sum(r['result']['n_edges'] for r in a if isinstance(r.get('result'), dict))
    print(f'{len(a)} cases ({n_ok} without error, {n_edges} graph edges compared), {bad} differences')
    for r in a:
        if 'error' in r:
            print('  (error case, identical on both sides)', r['tag'], r['error'][0])
    sys.exit(1 if bad else 0)


if __name__ == '__main__':
    if len(sys.argv) > 1 and sys.argv[1] == 'worker':
        worker(sys.argv[2])
    else:
        main()
