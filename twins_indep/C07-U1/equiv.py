"""Differential test for refactoring 1 (jumps._generic_transitions_to_jumps split into a generator pipeline).

The same randomised cases are run once against the ORIGINAL tree and once against the refactored worktree,
each in its own subprocess (PYTHONPATH decides which gemdat is imported); the pickled results are compared.
Exit code 0 iff every result is identical.

ORIGINAL tree: /repo/src (read-only).  It can be redirected with GEMDAT_ORIG_SRC=<dir>, e.g. to an export of
the untouched HEAD (`git -C /tmp/wtu_C07 archive HEAD src | tar -x -C <dir>`).
"""
import os
import pickle
import subprocess
import sys
import tempfile

ORIG = os.environ.get('GEMDAT_ORIG_SRC', '/repo/src')
NEW = '/tmp/wtu_C07/src'
N_STATE_CASES = 60
N_RAW_CASES = 40
N_PIPELINE = 16


def frame_summary(df):
    return {
        'columns': list(df.columns),
        'dtypes': [str(t) for t in df.dtypes],
        'index': (type(df.index).__name__, df.index.tolist(), df.index.name),
        'values': df.to_numpy().tolist(),
    }


def call(func, *args, **kwargs):
    try:
        return ('ok', frame_summary(func(*args, **kwargs)))
    except Exception as exc:  # same exception type and text expected from both trees
        return ('exc', type(exc).__name__, str(exc))


def random_states(rng, kind):
    """Random [time, atom] state arrays; inner states are the state or NOSITE."""
    import numpy as np

    n_steps = int(rng.integers(2, 60))
    n_atoms = int(rng.integers(1, 6))
    n_sites = int(rng.integers(1, 6))
    states = np.full((n_steps, n_atoms), -1)
    for a in range(n_atoms):
        t = 0
        while t < n_steps:
            dwell = int(rng.integers(1, 8))
            if kind == 0:
                val = int(rng.integers(-1, n_sites))
            elif kind == 1:  # mostly on sites, flicker
                val = int(rng.integers(0, n_sites)) if rng.random() < 0.8 else -1
            else:  # mostly in transit
                val = int(rng.integers(0, n_sites)) if rng.random() < 0.3 else -1
            states[t:t + dwell, a] = val
            t += dwell
    inner = np.where(rng.random(states.shape) < rng.uniform(0.2, 0.9), states, -1)
    if kind == 2 and rng.random() < 0.3:
        states[:, 0] = 0  # static atom
        inner[:, 0] = 0
    return states, inner


def run_state_case(seed):
    from types import SimpleNamespace

    import numpy as np
    from gemdat.jumps import _generic_transitions_to_jumps
    from gemdat.transitions import _calculate_transition_events

    rng = np.random.default_rng(seed)
    states, inner = random_states(rng, seed % 3)
    try:
        events = _calculate_transition_events(atom_sites=states, atom_inner_sites=inner)
    except ValueError as exc:  # no atom ever moves
        return ('noevents', str(exc))
    out = {}
    for residence in (0, 1, 2, 5, 1000):
        tr = SimpleNamespace(events=events.copy())
        out[residence] = call(_generic_transitions_to_jumps, tr, minimal_residence=residence)
    out['default'] = call(_generic_transitions_to_jumps, SimpleNamespace(events=events.copy()))
    out['events_untouched'] = frame_summary(events)
    return out


def run_raw_case(seed):
    """Arbitrary (not necessarily self-consistent) event tables: fuzzes the state machine itself."""
    from types import SimpleNamespace

    import numpy as np
    import pandas as pd
    from gemdat.jumps import _generic_transitions_to_jumps

    rng = np.random.default_rng(10_000 + seed)
    n = int(rng.integers(0, 40))
    n_sites = int(rng.integers(1, 5))
    start = rng.integers(-1, n_sites, size=n)
    dest = rng.integers(-1, n_sites, size=n)
    data = {
        'atom index': rng.integers(0, 4, size=n),
        'start site': start,
        'destination site': dest,
        'start inner site': np.where(rng.random(n) < 0.5, start, -1),
        'destination inner site': np.where(rng.random(n) < 0.5, dest, -1),
        'time': np.sort(rng.integers(0, 50, size=n)),
    }
    events = pd.DataFrame(data)
    if seed % 4 == 1 and n:
        events.index = rng.permutation(n) + 100  # non-range row labels
    if seed % 4 == 2 and n:
        events = events.iloc[rng.permutation(n)]  # atoms interleaved, times unsorted
    if seed % 4 == 3:
        events = events[list(events.columns[::-1])]  # different column order
    out = {}
    for residence in (0, 1, 3, 10):
        out[residence] = call(_generic_transitions_to_jumps, SimpleNamespace(events=events.copy()),
                              minimal_residence=residence)
    out['events_untouched'] = frame_summary(events)
    return out


def random_matrix(rng, kind):
    import numpy as np
    from pymatgen.core import Lattice
    from scipy.spatial.transform import Rotation

    if kind == 0:
        return np.eye(3) * rng.uniform(6, 9)
    if kind == 1:
        return np.diag(rng.uniform(6, 10, size=3))
    m = Lattice.from_parameters(*rng.uniform(7, 10, size=3), *rng.uniform(70, 110, size=3)).matrix.copy()
    if kind == 3:
        m = m @ Rotation.from_rotvec(rng.normal(size=3)).as_matrix().T
    return m


def run_pipeline(seed):
    """Trajectory -> Transitions -> Jumps in cubic / orthorhombic / triclinic / rotated cells, with everything
    shifted by a random fractional vector so that atoms and sites wrap through the cell faces."""
    import warnings

    import numpy as np
    from gemdat import Trajectory
    from gemdat.transitions import Transitions
    from pymatgen.core import Element, Lattice, Structure

    rng = np.random.default_rng(20_000 + seed)
    lattice = Lattice(random_matrix(rng, seed % 4))
    grid = np.array([(i, j, k) for i in range(2) for j in range(2) for k in range(2)]) / 2.0
    n_sites = int(rng.integers(3, 9))
    site_frac = grid[rng.permutation(8)[:n_sites]] + rng.uniform(-0.03, 0.03, size=(n_sites, 3))
    n_li = int(rng.integers(1, 5))
    n_steps = int(rng.integers(40, 120))
    coords = np.zeros((n_steps, n_li + 2, 3))
    for a in range(n_li):
        cur = int(rng.integers(n_sites))
        t = 0
        while t < n_steps:
            dwell = int(rng.integers(2, 15))
            coords[t:t + dwell, a] = site_frac[cur]
            t += dwell
            if t < n_steps and rng.random() < 0.8:
                nxt = int(rng.integers(n_sites))
                gap = int(rng.integers(0, 4))
                delta = site_frac[nxt] - site_frac[cur]
                delta -= np.round(delta)
                for g in range(gap):
                    if t < n_steps:
                        coords[t, a] = site_frac[cur] + delta * (g + 1) / (gap + 1)
                        t += 1
                cur = nxt
    coords[:, :n_li] += rng.normal(scale=0.004, size=(n_steps, n_li, 3))
    coords[:, n_li] = (0.25, 0.25, 0.25)
    coords[:, n_li + 1] = (0.75, 0.75, 0.25)
    shift = rng.uniform(-1, 1, size=3) if seed % 2 else np.zeros(3)
    coords = np.mod(coords + shift, 1.0)
    site_frac = np.mod(site_frac + shift, 1.0)

    labels = [('A', 'B')[int(x)] for x in rng.integers(0, 2, size=n_sites)]
    sites = Structure(lattice, ['Li'] * n_sites, site_frac, labels=labels)
    traj = Trajectory(species=[Element('Li')] * n_li + [Element('S'), Element('P')], coords=coords,
                      lattice=lattice.matrix, time_step=1e-15, metadata={'temperature': 300})
    out = {}
    with warnings.catch_warnings():
        warnings.simplefilter('ignore')
        try:
            transitions = Transitions.from_trajectory(trajectory=traj, sites=sites, floating_specie='Li',
                                                      site_radius=float(rng.uniform(0.5, 1.0)),
                                                      site_inner_fraction=float(rng.uniform(0.4, 1.0)))
        except Exception as exc:
            return ('exc-transitions', type(exc).__name__, str(exc))
        for residence in (0, 3):
            try:
                jumps = transitions.jumps(minimal_residence=residence)
            except Exception as exc:
                out[residence] = ('exc', type(exc).__name__, str(exc))
                continue
            res = {'data': frame_summary(jumps.data), 'n_jumps': jumps.n_jumps,
                   'matrix': jumps.matrix().tolist(), 'diff': repr(float(jumps.jump_diffusivity(3))),
                   'counter': sorted(jumps.counter().items())}
            try:
                parts = jumps.split(2)
                res['split'] = [frame_summary(p.data) for p in parts]
            except Exception as exc:
                res['split'] = ('exc', type(exc).__name__, str(exc))
            out[residence] = res
    return out


def worker(path):
    results = {}
    for seed in range(N_STATE_CASES):
        results['state', seed] = run_state_case(seed)
    for seed in range(N_RAW_CASES):
        results['raw', seed] = run_raw_case(seed)
    for seed in range(N_PIPELINE):
        results['pipeline', seed] = run_pipeline(seed)
    with open(path, 'wb') as fh:
        pickle.dump(results, fh)


def run_tree(src, path):
    env = dict(os.environ, PYTHONPATH=src)
    subprocess.run([sys.executable, os.path.abspath(__file__), '--worker', path], env=env, check=True)
    with open(path, 'rb') as fh:
        return pickle.load(fh)


def main():
    with tempfile.TemporaryDirectory() as td:
        a = run_tree(ORIG, os.path.join(td, 'orig.pkl'))
        b = run_tree(NEW, os.path.join(td, 'new.pkl'))
    assert a.keys() == b.keys()
    differing = [k for k in a if a[k] != b[k]]

    def flat(v):
        if isinstance(v, dict):
            for x in v.values():
                yield from flat(x)
        else:
            yield v

    leaves = [x for v in a.values() for x in flat(v)]
    n_ok = sum(1 for x in leaves if isinstance(x, tuple) and x and x[0] == 'ok')
    n_exc = sum(1 for x in leaves if isinstance(x, tuple) and x and isinstance(x[0], str) and x[0].startswith('exc'))
    n_rows = sum(len(x[1]['values']) for x in leaves if isinstance(x, tuple) and x and x[0] == 'ok')
    n_pipe = sum(1 for k, v in a.items() if k[0] == 'pipeline' and isinstance(v, dict)
                 and any(isinstance(r, dict) for r in v.values()))
    print(f'cases={len(a)} direct_ok={n_ok} direct_jump_rows={n_rows} exceptions={n_exc} '
          f'pipelines_with_jumps={n_pipe} differing={len(differing)}')
    for k in differing[:10]:
        print('  DIFFERS', k)
    sys.exit(1 if differing else 0)


if __name__ == '__main__':
    if len(sys.argv) == 3 and sys.argv[1] == '--worker':
        import gemdat  # noqa: F401

        expected = os.environ['PYTHONPATH'].split(os.pathsep)[0]
        assert os.path.abspath(gemdat.__file__).startswith(os.path.abspath(expected)), gemdat.__file__
        worker(sys.argv[2])
    else:
        main()
