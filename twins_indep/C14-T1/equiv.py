"""Differential test for refactoring C14/1.

Refactored: TrajectoryMetrics.amplitudes (metrics.py, helper _monotonic_run_sums extracted)
            and utils.meanfreq (used by TrajectoryMetrics.attempt_frequency).

The script runs itself twice as a worker, once with PYTHONPATH=/repo/src (original) and once
with PYTHONPATH=/tmp/wtt_C14/src (refactored), on the same randomised inputs and compares
every result.  Exit status 0 <=> all results agree (bit-identical, or within 1e-12 relative).
"""
import os
import pickle
import subprocess
import sys

import numpy as np

ORIG = '/repo/src'
NEW = os.environ.get('TWIN_SRC', '/tmp/wtt_C14/src')
N_CASES = 40


def random_lattice(rng, kind):
    from pymatgen.core import Lattice
    if kind == 0:
        return Lattice.cubic(rng.uniform(1.0, 12.0))
    if kind == 1:
        return Lattice.orthorhombic(*rng.uniform(2.0, 12.0, 3))
    if kind == 2:
        return Lattice.from_parameters(*rng.uniform(3.0, 11.0, 3), *rng.uniform(60.0, 120.0, 3))
    # rotated triclinic: random rotation of a general cell
    base = Lattice.from_parameters(*rng.uniform(3.0, 11.0, 3), *rng.uniform(70.0, 110.0, 3)).matrix
    q, _ = np.linalg.qr(rng.normal(size=(3, 3)))
    return Lattice(base @ q)


def random_trajectory(seed):
    from pymatgen.core import Element, Species
    from gemdat import Trajectory
    rng = np.random.default_rng(seed)
    lattice = random_lattice(rng, seed % 4)
    n_atoms = int(rng.integers(1, 7))
    n_frames = int(rng.integers(6, 70))
    pool = [Element('Li'), Element('Na'), Element('S'), Element('P'), Species('Li', 1), Element('O')]
    species = [pool[int(i)] for i in rng.integers(0, len(pool), n_atoms)]
    step = rng.choice([0.005, 0.05, 0.3])  # large steps make atoms cross cell faces
    steps = rng.normal(scale=step, size=(n_frames, n_atoms, 3))
    mode = seed % 7
    if mode == 1:  # one atom does not move at all -> speeds of exactly zero
        steps[:, 0, :] = 0.0
    elif mode == 2:  # all atoms move identically
        steps[:] = steps[:, :1, :]
    elif mode == 3:  # atom stands still for a while in the middle (sign == 0 stretches)
        steps[n_frames // 3: n_frames // 2] = 0.0
    elif mode == 4:  # monotonous drift, (almost) no sign flips
        steps = np.abs(steps) * 0.1
    elif mode == 5:  # atom oscillating between two positions
        steps[:, 0, :] = 0.0
        steps[1::2, 0, 0] = 0.1
        steps[2::2, 0, 0] = -0.1
    start = rng.uniform(0.0, 1.0, size=(1, n_atoms, 3))
    if seed % 5 == 0:
        start[0, 0] = [0.0, 0.999999, 0.5]  # sits on a cell face
    coords = np.mod(start + np.cumsum(steps, axis=0), 1.0)
    return Trajectory(
        species=species,
        coords=coords,
        lattice=lattice,
        time_step=float(rng.choice([1e-15, 2e-15, 5.5e-16, 1.0])),
        metadata={'temperature': float(rng.uniform(1.0, 1500.0))},
    )


def guarded(fn):
    try:
        return fn()
    except Exception as exc:  # exceptions must agree as well
        return ('EXC', type(exc).__name__)


def worker():
    from gemdat.metrics import TrajectoryMetrics, TrajectoryMetricsStd
    from gemdat.utils import meanfreq
    out = {}
    for seed in range(N_CASES):
        traj = random_trajectory(seed)
        m = TrajectoryMetrics(traj)
        out[seed, 'amplitudes'] = guarded(lambda: np.asarray(m.amplitudes()))
        out[seed, 'vibration_amplitude'] = guarded(lambda: float(m.vibration_amplitude()))
        out[seed, 'attempt_frequency'] = guarded(lambda: tuple(float(v) for v in m.attempt_frequency()))
        out[seed, 'meanfreq(speed)'] = guarded(lambda: meanfreq(m.speed(), fs=traj.sampling_frequency))
        if len(traj) >= 30:
            parts = traj.split(3, equal_parts=True)
            ms = TrajectoryMetricsStd(parts)
            out[seed, 'std.vibration_amplitude'] = guarded(
                lambda: (lambda v: (v.n, v.s))(ms.vibration_amplitude()))
            out[seed, 'std.amplitudes'] = guarded(lambda: tuple(np.asarray(a) for a in ms.amplitudes()))
        # direct calls of meanfreq on toy arrays: 1-d, 2-d, float32, integer, single row, zero rows
        rng = np.random.default_rng(1000 + seed)
        n = int(rng.integers(2, 40))
        x2 = rng.normal(size=(int(rng.integers(1, 5)), n))
        fs = float(rng.choice([1.0, 0.5, 1e15, 3.3]))
        out[seed, 'meanfreq 2d'] = guarded(lambda: meanfreq(x2, fs=fs))
        out[seed, 'meanfreq 1d'] = guarded(lambda: meanfreq(x2[0], fs=fs))
        out[seed, 'meanfreq default fs'] = guarded(lambda: meanfreq(x2))
        out[seed, 'meanfreq f32'] = guarded(lambda: meanfreq(x2.astype(np.float32), fs=fs))
        out[seed, 'meanfreq int'] = guarded(lambda: meanfreq((x2 * 10).astype(int), fs=fs))
        out[seed, 'meanfreq fortran'] = guarded(lambda: meanfreq(np.asfortranarray(x2), fs=fs))
        out[seed, 'meanfreq zeros'] = guarded(lambda: meanfreq(np.zeros((2, n)), fs=fs))
        out[seed, 'meanfreq norows'] = guarded(lambda: meanfreq(np.zeros((0, n)), fs=fs))
        out[seed, 'meanfreq 3d'] = guarded(lambda: meanfreq(np.zeros((2, 2, n)), fs=fs))
        out[seed, 'meanfreq 1col'] = guarded(lambda: meanfreq(x2[:, :1], fs=fs))
    sys.stdout.buffer.write(pickle.dumps(out))


def flatten(value):
    if isinstance(value, tuple) and value and isinstance(value[0], str):
        return value
    if isinstance(value, tuple):
        return [np.asarray(v) for v in value]
    return [np.asarray(value)]


def same(a, b):
    """Return (equal, bit_identical)."""
    fa, fb = flatten(a), flatten(b)
    if isinstance(fa, tuple) or isinstance(fb, tuple):
        return fa == fb, fa == fb
    if len(fa) != len(fb):
        return False, False
    bit = True
    for x, y in zip(fa, fb):
        if x.shape != y.shape or x.dtype != y.dtype:
            return False, False
        if x.dtype.kind in 'USO':
            if not np.array_equal(x, y):
                return False, False
            continue
        if not np.array_equal(x, y, equal_nan=True):
            bit = False
            if not np.allclose(x, y, rtol=1e-12, atol=0.0, equal_nan=True):
                return False, False
    return True, bit


def run(src):
    env = dict(os.environ, PYTHONPATH=src)
    proc = subprocess.run([sys.executable, __file__, '--worker'], env=env, capture_output=True)
    if proc.returncode != 0:
        sys.stderr.write(proc.stderr.decode())
        raise SystemExit(f'worker failed for {src}')
    return pickle.loads(proc.stdout)


def main():
    ref, new = run(ORIG), run(NEW)
    bad, inexact = [], 0
    if ref.keys() != new.keys():
        bad.append('key sets differ')
    for key in ref:
        ok, bit = same(ref[key], new.get(key))
        if not ok:
            bad.append(key)
        elif not bit:
            inexact += 1
    n_exc = sum(1 for v in ref.values() if isinstance(v, tuple) and v and isinstance(v[0], str))
    print(f'cases={N_CASES} compared={len(ref)} (of which exceptions={n_exc}) '
          f'not-bit-identical-but-within-1e-12={inexact} mismatches={len(bad)}')
    for key in bad[:20]:
        print('  MISMATCH', key, ref.get(key) if not isinstance(key, str) else '', new.get(key) if not isinstance(key, str) else '')
    sys.exit(1 if bad else 0)


if __name__ == '__main__':
    if '--worker' in sys.argv:
        worker()
    else:
        main()
