"""Differential test for refactoring 3 (C15): Trajectory.to_positions / __getitem__ / cumulative_displacements /
distances_from_base_position / center_of_mass.

Runs the same randomised scenario script twice in subprocesses - once with PYTHONPATH=/repo/src (original,
read-only) and once with PYTHONPATH=/tmp/wtu_C15/src (refactored) - and compares every recorded value: exactly,
except for values derived from the (re-vectorised) distances, whose key starts with 'dist' and which must agree
within 1e-12 (relative to max(1, |value|)).
"""
import os
import pickle
import subprocess
import sys
import tempfile

import numpy as np

ORIG = '/repo/src'
NEW = '/tmp/wtu_C15/src'
N_CASES = 40


def worker(out):
    import warnings

    warnings.filterwarnings('ignore')
    import gemdat
    from gemdat import Trajectory
    from pymatgen.core import Element, Lattice, Species

    assert gemdat.__file__.startswith(os.environ['EXPECT_ROOT']), gemdat.__file__

    def snap(t):
        """Everything observable about a trajectory, without changing its representation first."""
        d = {
            'cls': type(t).__name__,
            'mode_before': bool(t.coords_are_displacement),
            'raw': np.array(t.coords),
            'species': [repr(s) for s in t.species],
            'lattice': np.array(t.get_lattice().matrix),
            'time_step': t.time_step,
            'metadata': repr(sorted(t.metadata.items())),
            'base': np.array(t.base_positions),
        }
        d['positions'] = np.array(t.positions)
        d['displacements'] = np.array(t.displacements)
        d['positions2'] = np.array(t.positions)
        return d

    def attempt(f):
        try:
            return f()
        except Exception as e:  # noqa
            return ('EXC', type(e).__name__)

    def random_lattice(rng, kind):
        if kind == 0:
            return Lattice.cubic(rng.uniform(4, 9))
        if kind == 1:
            return Lattice.from_parameters(*rng.uniform(4, 9, 3), *rng.uniform(62, 118, 3))
        # rotated triclinic cell
        base = Lattice.from_parameters(*rng.uniform(4, 9, 3), *rng.uniform(70, 110, 3)).matrix
        q, _ = np.linalg.qr(rng.normal(size=(3, 3)))
        return Lattice(base @ q)

    pool = [Element('Li'), Element('S'), Species('Na', 1), Species('O', -2), Element('P'), Element('Si')]

    results = []
    for case in range(N_CASES):
        rng = np.random.default_rng(3000 + case)
        n_atoms = int(rng.integers(1, 8))
        species = [pool[i] for i in rng.integers(0, len(pool), n_atoms)]
        n_frames = int(rng.integers(1, 30)) if case % 7 else 1
        start = rng.uniform(-0.2, 1.2, (1, n_atoms, 3))
        steps = rng.normal(0, [0.02, 0.08, 0.3][case % 3], (n_frames, n_atoms, 3))
        coords = start + np.cumsum(steps, axis=0)  # walks across the cell faces
        if case % 2 == 0:
            # boundary values: exactly on a face, tiny negatives (np.mod -> 1.0), integers, -0.0
            edge = np.array([0.0, 1.0, -1e-17, -0.0, 2.0, -1.0, 1 - 1e-16, -1e-300, 1e-300, -3.0000000000000004])
            idx = rng.integers(0, coords.size, 6)
            coords.reshape(-1)[idx] = rng.choice(edge, 6)
        if case % 9 == 3:
            coords = coords.astype(np.float32)
        lattice = random_lattice(rng, case % 3)
        meta = {'temperature': float(rng.integers(100, 900)), 'tag': case}

        def make():
            kind = case % 4
            if kind == 3:
                t0 = Trajectory(species=list(species), coords=coords.copy(), lattice=lattice, time_step=1e-15)
                disp = np.array(t0.displacements)
                base = coords[0].copy() if case % 8 == 3 else coords[0].tolist()
                return Trajectory(species=list(species), coords=disp, lattice=lattice, time_step=2e-15,
                                  metadata=dict(meta), coords_are_displacement=True,
                                  base_positions=base)
            t = Trajectory(species=list(species), coords=coords.copy(), lattice=lattice, time_step=2e-15,
                           metadata=dict(meta))
            if kind == 1:
                t.displacements  # put the source in displacement representation
            if kind == 2:
                t.positions
            return t

        def fsnap(t):
            d = snap(t)
            d['dtype'] = str(t.coords.dtype)
            return d

        rec = {}
        # to_positions / positions: wrapping, also that a user supplied array is not modified in place
        user = coords.copy()
        t = Trajectory(species=list(species), coords=user, lattice=lattice, time_step=2e-15, metadata=dict(meta))
        first = t.positions
        rec['pos_first'] = np.array(first)
        rec['user_untouched'] = bool(np.array_equal(user, coords, equal_nan=True))
        rec['pos_fresh_object'] = first is not user
        second = t.positions
        rec['pos_second'] = np.array(second)
        rec['pos_range_ok'] = bool(((second >= 0) & (second < 1)).all())
        rec['signbits'] = np.signbit(second)
        t.to_positions()
        rec['pos_third'] = np.array(t.coords)
        rec['first_still'] = np.array(first)
        rec['full'] = fsnap(make())
        # integer coords keep their dtype through wrapping
        ti = Trajectory(species=list(species), coords=np.zeros((2, n_atoms, 3), dtype=int), lattice=lattice)
        rec['int_dtype'] = str(ti.positions.dtype)

        # indexing / slicing
        t = make()
        rec['item_int'] = attempt(lambda: [repr(t[i]) + repr(t[i].metadata) for i in (0, n_frames - 1, -1)])
        rec['item_oob'] = attempt(lambda: t[n_frames])
        rec['item_npint'] = attempt(lambda: t[np.int64(0)])
        rec['item_bad'] = attempt(lambda: t['a'])
        for name, sl in {'all': slice(None), 'rev': slice(None, None, -1), 'odd': slice(1, None, 2),
                         'tail': slice(-3, None), 'list': [0, n_frames - 1], 'arr': np.arange(0, n_frames, 2)}.items():
            t = make()
            got = attempt(lambda: t[sl])
            rec[f'slice_{name}'] = got if isinstance(got, tuple) else fsnap(got)
            if not isinstance(got, tuple):
                rec[f'slice_{name}_meta_shared'] = got.metadata is t.metadata
                rec[f'slice_{name}_cls'] = type(got).__module__.split('.')[0]
            rec[f'slice_{name}_src'] = fsnap(t)
        rec['item_list_oob'] = attempt(lambda: make()[[0, n_frames + 2]])
        # object without metadata attribute (e.g. unpickled from an old cache)
        t = make()
        del t.metadata
        rec['no_meta'] = attempt(lambda: t[0:1].metadata)

        # read-only queries, in different orders, must agree and leave the source usable
        t = make()
        rec['dist'] = np.array(t.distances_from_base_position())
        rec['dist_shape_T'] = t.distances_from_base_position().shape
        rec['dist_src'] = fsnap(t)
        t = make()
        rec['cum'] = np.array(t.cumulative_displacements)
        rec['cum_src'] = fsnap(t)
        t = make()
        com = t.center_of_mass()
        rec['com'] = fsnap(com)
        rec['com_species'] = repr(com.species)
        rec['com_src'] = fsnap(t)
        rec['com_dist'] = np.array(com.distances_from_base_position())
        t = make()
        t.positions; t.displacements; t.distances_from_base_position(); t.center_of_mass()
        rec['dist_msd'] = np.array(t.mean_squared_displacement())
        rec['dist_after'] = np.array(t.distances_from_base_position())
        rec['after_src'] = fsnap(t)
        # empty selection (no sites) and single site
        t = make()
        empty = t.filter('Xe')
        rec['dist_empty'] = np.array(empty.distances_from_base_position())
        rec['com_empty'] = attempt(lambda: fsnap(empty.center_of_mass()))
        one = t.filter(species[0].symbol)
        rec['dist_one'] = np.array(one.distances_from_base_position())
        rec['com_one'] = fsnap(one.center_of_mass())
        # non Element/Species entries -> AssertionError
        rec['com_com'] = attempt(lambda: com.center_of_mass())
        # metrics built on top of the distances
        t = make()
        m = t.metrics()
        rec['dist_metrics_speed'] = attempt(lambda: np.array(m.speed()))
        rec['dist_metrics_td'] = attempt(lambda: float(m.tracer_diffusivity(dimensions=3)))
        rec['dist_metrics_tdcom'] = attempt(lambda: float(m.tracer_diffusivity_center_of_mass(dimensions=3)))
        rec['dist_metrics_va'] = attempt(lambda: float(m.vibration_amplitude()))
        rec['metrics_src'] = fsnap(t)
        if n_frames > 3:
            parts = make().split(2)
            rec['dist_parts'] = [np.array(p.distances_from_base_position()) for p in parts]
        results.append(rec)

    with open(out, 'wb') as f:
        pickle.dump(results, f)


LOOSE = []


def same(a, b, path, errors):
    if type(a) is not type(b):
        errors.append(f'{path}: type {type(a)} != {type(b)}')
    elif isinstance(a, dict):
        if a.keys() != b.keys():
            errors.append(f'{path}: keys differ')
            return
        for k in a:
            same(a[k], b[k], f'{path}/{k}', errors)
    elif isinstance(a, (list, tuple)):
        if len(a) != len(b):
            errors.append(f'{path}: len differ')
            return
        for i, (x, y) in enumerate(zip(a, b)):
            same(x, y, f'{path}[{i}]', errors)
    elif isinstance(a, np.ndarray):
        loose = '/dist' in path
        if a.shape != b.shape or a.dtype != b.dtype:
            errors.append(f'{path}: arrays differ {a.shape} {b.shape} {a.dtype} {b.dtype}')
        elif loose:
            if not np.allclose(a, b, rtol=1e-12, atol=1e-12, equal_nan=True):
                errors.append(f'{path}: arrays differ by {np.nanmax(np.abs(a - b))}')
            elif a.size and not np.array_equal(a, b, equal_nan=True):
                LOOSE.append(float(np.nanmax(np.abs(a - b))))
        elif not np.array_equal(a, b, equal_nan=True):
            errors.append(f'{path}: arrays differ (exact comparison)')
    elif isinstance(a, float) and '/dist' in path:
        if not (a == b or (a != a and b != b) or abs(a - b) <= 1e-12 * max(1.0, abs(a))):
            errors.append(f'{path}: {a!r} != {b!r}')
    elif a != b:
        errors.append(f'{path}: {a!r} != {b!r}')


def main():
    outs = []
    with tempfile.TemporaryDirectory() as td:
        for name, root in (('orig', ORIG), ('new', NEW)):
            out = os.path.join(td, name + '.pkl')
            env = dict(os.environ, PYTHONPATH=root, EXPECT_ROOT=root)
            subprocess.run([sys.executable, __file__, '--worker', out], env=env, check=True)
            with open(out, 'rb') as f:
                outs.append(pickle.load(f))
    errors = []
    same(outs[0], outs[1], '', errors)
    n_values = sum(len(r) for r in outs[0])
    n_exc = sum(1 for r in outs[0] for v in r.values() if isinstance(v, tuple) and v and v[0] == 'EXC')
    print(f'cases={len(outs[0])} recorded={n_values} exceptions_recorded={n_exc} differences={len(errors)}')
    print(f'tolerance-compared arrays not bit-identical: {len(LOOSE)}, max abs diff {max(LOOSE, default=0.0):.3g}')
    for e in errors[:20]:
        print('  DIFF', e)
    sys.exit(1 if errors else 0)


if __name__ == '__main__':
    if len(sys.argv) == 3 and sys.argv[1] == '--worker':
        worker(sys.argv[2])
    else:
        main()
