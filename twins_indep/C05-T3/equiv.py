"""Differential (behaviour-equivalence) test for a refactoring relevant to property C05.

The same randomised scenarios are evaluated twice in separate interpreter processes: once with the ORIGINAL
sources (PYTHONPATH=/repo/src) and once with the refactored worktree (PYTHONPATH=$TWIN_SRC or /tmp/wtt_C05/src).
Results are pickled as plain python/numpy data and compared (exact for ints/strings/ordering, rel+abs 1e-12 for floats).
Exit status 0 = all equal, 1 = some difference.
"""
import os
import pickle
import subprocess
import sys
import tempfile

ORIG_SRC = '/repo/src'
NEW_SRC = os.environ.get('TWIN_SRC', '/tmp/wtt_C05/src')
N_SCENARIOS = 24


# --------------------------------------------------------------------------------------------------------------
# scenario generation (only numpy / pymatgen; identical in both processes because everything is seeded)
# --------------------------------------------------------------------------------------------------------------
def random_rotation(rng):
    import numpy as np

    q, r = np.linalg.qr(rng.normal(size=(3, 3)))
    q = q * np.sign(np.diag(r))
    if np.linalg.det(q) < 0:
        q[:, 0] = -q[:, 0]
    return q


def make_lattice(rng, kind):
    import numpy as np
    from pymatgen.core import Lattice

    if kind == 0:  # cubic
        return Lattice.cubic(rng.uniform(7.0, 10.0))
    if kind == 1:  # orthorhombic
        return Lattice.orthorhombic(*rng.uniform(6.0, 11.0, size=3))
    if kind == 2:  # triclinic, standard orientation
        return Lattice.from_parameters(
            *rng.uniform(7.0, 10.0, size=3), *rng.uniform(65.0, 115.0, size=3)
        )
    # triclinic and arbitrarily rotated w.r.t. the cartesian axes
    lat = Lattice.from_parameters(*rng.uniform(7.0, 10.0, size=3), *rng.uniform(70.0, 110.0, size=3))
    return Lattice(np.dot(lat.matrix, random_rotation(rng)))


def make_sites(rng, lattice, n_sites, n_labels):
    """Well separated sites (some of them on / next to cell faces) with 1..n_labels labels."""
    import numpy as np
    from pymatgen.core import Structure

    coords = []
    tries = 0
    while len(coords) < n_sites:
        tries += 1
        c = rng.uniform(0, 1, size=3)
        if tries % 3 == 0:  # put site close to a cell face so that atoms cross the boundary
            c[rng.integers(3)] = rng.choice([0.0, 0.01, 0.99])
        if coords:
            d = lattice.get_all_distances(np.array([c]), np.array(coords))
            if d.min() < 2.2:
                continue
        coords.append(c)
    coords = np.array(coords)
    labels = [f'Li{1 + (k % n_labels)}' for k in range(n_sites)]
    rng.shuffle(labels)
    return Structure(lattice, ['Li'] * n_sites, coords, labels=list(labels))


def make_states(rng, n_frames, n_atoms, n_sites, p_move=0.04, p_nosite=0.5, exclusive=True):
    """Random state history [frame, atom] with values in -1..n_sites-1.

    exclusive: never more than one atom on a site in a frame (physical case, needed for valid occupancies).
    """
    import numpy as np

    states = np.empty((n_frames, n_atoms), dtype=int)
    if exclusive:
        init = list(rng.permutation(n_sites)[:n_atoms]) + [-1] * max(0, n_atoms - n_sites)
        cur = [int(c) if rng.random() < 0.85 else -1 for c in init]
    else:
        cur = [int(rng.integers(-1, n_sites)) for _ in range(n_atoms)]
    static = rng.random() < 0.3  # atom 0 never moves in some scenarios
    for t in range(n_frames):
        for a in range(n_atoms):
            if (static and a == 0) or rng.random() >= p_move:
                continue
            if cur[a] != -1 and rng.random() < p_nosite:
                cur[a] = -1
                continue
            target = int(rng.integers(0, n_sites))
            if exclusive and target in cur:
                continue
            cur[a] = target
        states[t] = cur
    return states


def make_trajectory(rng, lattice, sites, states):
    """Positions follow the state history: at a site -> site position + small noise, no site -> far from all sites."""
    import numpy as np
    from pymatgen.core import Element

    import gemdat

    n_frames, n_atoms = states.shape
    site_frac = sites.frac_coords
    # find a 'void' point far from all sites
    best, best_d = None, -1
    for _ in range(200):
        c = rng.uniform(0, 1, size=3)
        d = lattice.get_all_distances(np.array([c]), site_frac).min()
        if d > best_d:
            best, best_d = c, d
    coords = np.empty((n_frames, n_atoms + 2, 3))
    noise_cart = rng.normal(scale=0.08, size=(n_frames, n_atoms, 3))
    noise_frac = lattice.get_fractional_coords(noise_cart.reshape(-1, 3)).reshape(n_frames, n_atoms, 3)
    for a in range(n_atoms):
        s = states[:, a]
        base = np.where((s >= 0)[:, None], site_frac[np.clip(s, 0, None)], best[None, :])
        coords[:, a, :] = base + noise_frac[:, a, :]
    # two static framework atoms
    coords[:, n_atoms, :] = [0.5, 0.5, 0.5]
    coords[:, n_atoms + 1, :] = [0.25, 0.75, 0.1]
    coords[:, n_atoms:, :] += rng.normal(scale=0.002, size=(n_frames, 2, 3))
    mode = rng.integers(3)
    if mode == 0:
        coords = coords % 1.0  # wrapped into the cell -> atoms jump across faces
    elif mode == 1:
        coords = coords + rng.integers(-2, 3, size=(1, n_atoms + 2, 3))  # outside of the home cell
    species = [Element('Li')] * n_atoms + [Element('S'), Element('P')]
    return gemdat.Trajectory(
        species=species,
        coords=coords,
        lattice=lattice.matrix,
        time_step=float(rng.choice([1e-15, 2e-15, 5e-16])),
        metadata={'temperature': float(rng.choice([300, 650, 900]))},
        constant_lattice=True,
    )


def make_scenario(seed):
    import numpy as np

    rng = np.random.default_rng(1000 + seed)
    lattice = make_lattice(rng, seed % 4)
    n_sites = int(rng.integers(2, 8))
    n_labels = int(rng.integers(1, 4))
    n_atoms = int(rng.integers(1, 6))
    n_frames = int(rng.integers(150, 420))
    sites = make_sites(rng, lattice, n_sites, n_labels)
    states = make_states(
        rng,
        n_frames,
        n_atoms,
        n_sites,
        p_move=float(rng.choice([0.02, 0.05, 0.1])),
        exclusive=(seed % 8 != 7),  # a few unphysical histories: several atoms on one site
    )
    trajectory = make_trajectory(rng, lattice, sites, states)
    return dict(rng=rng, lattice=lattice, sites=sites, states=states, trajectory=trajectory, seed=seed)


def build_transitions(sc):
    """Transitions through the public route (distance based state assignment)."""
    from gemdat.transitions import Transitions

    rng = sc['rng']
    seed = sc['seed']
    if seed % 3 == 0:
        radius = {lab: float(rng.uniform(0.5, 0.9)) for lab in sorted(set(sc['sites'].labels))}
    else:
        radius = float(rng.uniform(0.5, 0.9))
    return Transitions.from_trajectory(
        trajectory=sc['trajectory'],
        sites=sc['sites'],
        floating_specie='Li',
        site_radius=radius,
        site_inner_fraction=float(rng.choice([1.0, 0.8, 0.5])),
    )


def build_transitions_from_states(sc, states=None, inner_states=None):
    """Transitions directly from a state history (any history, including all-NOSITE stretches)."""
    import numpy as np

    from gemdat.transitions import Transitions, _calculate_transition_events

    states = sc['states'] if states is None else states
    if inner_states is None:
        rng = np.random.default_rng(77 + sc['seed'])
        inner_states = np.where(rng.random(states.shape) < 0.7, states, -1)
    events = _calculate_transition_events(atom_sites=states, atom_inner_sites=inner_states)
    traj = sc['trajectory']
    return Transitions(
        trajectory=traj,
        diff_trajectory=traj.filter('Li'),
        sites=sc['sites'],
        events=events,
        states=states,
        inner_states=inner_states,
    )


# --------------------------------------------------------------------------------------------------------------
# conversion of results into plain comparable data
# --------------------------------------------------------------------------------------------------------------
def plain(x):
    import networkx as nx
    import numpy as np
    import pandas as pd
    from pymatgen.core import Structure

    if isinstance(x, Structure):
        return {
            'type': 'Structure',
            'lattice': np.array(x.lattice.matrix),
            'frac': np.array(x.frac_coords),
            'labels': list(x.labels),
            'species': [sorted((str(k), float(v)) for k, v in s.species.items()) for s in x],
            'num_atoms': [float(s.species.num_atoms) for s in x],
            'props': {k: list(v) for k, v in x.site_properties.items()},
        }
    if isinstance(x, nx.Graph):
        return {
            'type': type(x).__name__,
            'nodes': [(plain(n), plain(d)) for n, d in x.nodes(data=True)],
            'edges': [(plain(u), plain(v), plain(d)) for u, v, d in x.edges(data=True)],
        }
    if isinstance(x, pd.DataFrame):
        return {
            'type': 'DataFrame',
            'index': [plain(i) for i in x.index.tolist()],
            'columns': [plain(c) for c in x.columns.tolist()],
            'dtypes': [str(d) for d in x.dtypes],
            'values': np.array(x.to_numpy(dtype=float)),
        }
    if isinstance(x, dict):  # also Counter / defaultdict: keep type name and insertion order
        return {'type': type(x).__name__, 'items': [(plain(k), plain(v)) for k, v in x.items()]}
    if isinstance(x, (list, tuple)):
        return [type(x).__name__] + [plain(v) for v in x]
    if isinstance(x, np.ndarray):
        return {'type': 'ndarray', 'dtype': str(x.dtype), 'data': np.array(x)}
    if isinstance(x, (bool, np.bool_)):
        return bool(x)
    if isinstance(x, (int, np.integer)):
        return ('int', int(x))
    if isinstance(x, (float, np.floating)):
        unit = getattr(x, 'unit', None)
        return ('float', float(x), str(unit) if unit is not None else None, )
    if x is None or isinstance(x, str):
        return x
    raise TypeError(f'cannot convert {type(x)}')


def attempt(fn):
    """Evaluate fn(); exceptions are part of the observable behaviour."""
    import warnings

    try:
        with warnings.catch_warnings(record=True) as w:
            warnings.simplefilter('always')
            val = plain(fn())
        return {'value': val, 'warnings': sorted({(type(x.message).__name__, str(x.message)) for x in w})}
    except Exception as exc:  # noqa: BLE001
        return {'exception': type(exc).__name__, 'message': str(exc)}


def differs(a, b, path, out):
    import math

    import numpy as np

    if type(a) is not type(b):
        out.append(f'{path}: type {type(a).__name__} != {type(b).__name__}')
    elif isinstance(a, dict):
        if list(a.keys()) != list(b.keys()):
            out.append(f'{path}: keys {list(a.keys())} != {list(b.keys())}')
        else:
            for k in a:
                differs(a[k], b[k], f'{path}.{k}', out)
    elif isinstance(a, (list, tuple)):
        if len(a) != len(b):
            out.append(f'{path}: len {len(a)} != {len(b)}')
        else:
            for i, (x, y) in enumerate(zip(a, b)):
                differs(x, y, f'{path}[{i}]', out)
    elif isinstance(a, np.ndarray):
        if a.shape != b.shape or a.dtype != b.dtype:
            out.append(f'{path}: shape/dtype {a.shape}{a.dtype} != {b.shape}{b.dtype}')
        elif a.dtype.kind == 'f':
            if not np.allclose(a, b, rtol=1e-12, atol=1e-12, equal_nan=True):
                out.append(f'{path}: float arrays differ (max {np.nanmax(np.abs(a - b))})')
        elif not np.array_equal(a, b):
            out.append(f'{path}: arrays differ')
    elif isinstance(a, float):
        if not (a == b or (math.isnan(a) and math.isnan(b)) or math.isclose(a, b, rel_tol=1e-12, abs_tol=0.0)):
            out.append(f'{path}: {a!r} != {b!r}')
    elif a != b:
        out.append(f'{path}: {a!r} != {b!r}')


def main():
    if len(sys.argv) == 3 and sys.argv[1] == '--worker':
        results = worker()
        with open(sys.argv[2], 'wb') as fh:
            pickle.dump(results, fh)
        return 0
    outs = []
    with tempfile.TemporaryDirectory() as td:
        for tag, src in (('orig', ORIG_SRC), ('new', NEW_SRC)):
            out = os.path.join(td, tag + '.pkl')
            env = dict(os.environ, PYTHONPATH=src, PYTHONHASHSEED='0')
            proc = subprocess.run([sys.executable, os.path.abspath(__file__), '--worker', out], env=env, cwd=td)
            if proc.returncode != 0:
                print(f'worker for {tag} failed with {proc.returncode}')
                return 2
            with open(out, 'rb') as fh:
                outs.append(pickle.load(fh))
    orig, new = outs
    assert orig['src'].startswith(ORIG_SRC), orig['src']
    assert new['src'].startswith(NEW_SRC), new['src']
    diffs = []
    differs(orig['results'], new['results'], 'results', diffs)
    n_val = sum(1 for r in flatten(orig['results']) if 'value' in r)
    n_exc = sum(1 for r in flatten(orig['results']) if 'exception' in r)
    print(f'scenarios={len(orig["results"])} compared_results={n_val + n_exc} (values={n_val}, exceptions={n_exc})')
    for d in diffs[:40]:
        print('DIFF', d)
    print('EQUIVALENT' if not diffs else f'NOT EQUIVALENT ({len(diffs)} differences)')
    return 1 if diffs else 0


def flatten(results):
    for sc in results:
        for v in sc.values():
            yield v

# --------------------------------------------------------------------------------------------------------------
# refactoring 3: Transitions.occupancy / occupancy_by_site_type / atom_locations
# --------------------------------------------------------------------------------------------------------------
def occupancy_probe(tr):
    import numpy as np

    occ = tr.occupancy()
    num_atoms = [float(site.species.num_atoms) for site in occ]
    states = np.asarray(tr.states)
    return {
        'structure': occ,
        'value_types': [[type(v).__name__ for v in site.species.values()] for site in occ],
        'total': float(sum(num_atoms)),
        # conservation: occupancies add up to the fraction of atom-frames spent at sites (times n_atoms)
        'at_site_fraction': float(np.count_nonzero(states >= 0) / max(len(states), 1)),
        'by_site_type': tr.occupancy_by_site_type(),
        'by_site_type_type': type(tr.occupancy_by_site_type()).__name__,
        'atom_locations': tr.atom_locations(),
        'atom_locations_type': type(tr.atom_locations()).__name__,
    }


def worker():
    import numpy as np

    import gemdat

    results = []
    for seed in range(N_SCENARIOS):
        res = {}
        sc = make_scenario(seed)
        rng = sc['rng']
        n_frames, n_atoms = sc['states'].shape
        n_sites = len(sc['sites'])
        for name, builder in (('traj', build_transitions), ('states', build_transitions_from_states)):
            try:
                tr = builder(sc)
            except Exception as exc:  # noqa: BLE001
                res[f'{name}_build'] = {'exception': type(exc).__name__, 'message': str(exc)}
                continue
            res[f'{name}_occ'] = attempt(lambda: occupancy_probe(tr))
            res[f'{name}_occ_parts'] = attempt(lambda: [attempt(lambda: occupancy_probe(p)) for p in tr.split(3)])
            # users of the occupancies: graph (site occupancy) and activation energies (atom_locations)
            try:
                jumps = tr.jumps()
            except Exception as exc:  # noqa: BLE001
                res[f'{name}_jumps'] = {'exception': type(exc).__name__, 'message': str(exc)}
                continue
            res[f'{name}_graph'] = attempt(lambda: jumps.to_graph())
            res[f'{name}_eact'] = attempt(lambda: jumps.activation_energies(n_parts=2))

        # special state histories, straight into the container class
        specials = {
            'all_nosite': np.full((n_frames, n_atoms), -1),
            'never_moves': np.tile(np.arange(n_atoms) % n_sites, (n_frames, 1))
            if n_atoms <= n_sites
            else np.tile(np.minimum(np.arange(n_atoms), n_sites) - (np.arange(n_atoms) >= n_sites) * (n_sites + 1),
                         (n_frames, 1)),
            'one_frame': sc['states'][:1],
            'no_frames': sc['states'][:0],
            'only_last_site': np.where(sc['states'] == n_sites - 1, n_sites - 1, -1),
            'beyond_sites': sc['states'] + (sc['states'] >= 0) * 1,  # index n_sites has no site -> ignored
            'float_states': sc['states'].astype(float),
            'int32_states': sc['states'].astype(np.int32),
            'fortran_order': np.asfortranarray(sc['states']),
        }
        for name, st in specials.items():
            def build(st=st):
                from gemdat.transitions import Transitions

                traj = sc['trajectory']
                return Transitions(
                    trajectory=traj,
                    diff_trajectory=traj.filter('Li'),
                    sites=sc['sites'],
                    events=None,
                    states=st,
                    inner_states=st,
                )

            res[f'special_{name}'] = attempt(lambda: occupancy_probe(build()))

        # sites with a different element and site properties must be carried over unchanged
        def with_props():
            from pymatgen.core import Structure

            from gemdat.transitions import Transitions

            sites = sc['sites']
            elements = ['Na' if k % 2 else 'Li' for k in range(n_sites)]
            sites2 = Structure(
                sites.lattice,
                elements,
                sites.frac_coords,
                labels=list(sites.labels),
                site_properties={'tag': [float(k) for k in range(n_sites)]},
            )
            traj = sc['trajectory']
            tr = Transitions(
                trajectory=traj,
                diff_trajectory=traj.filter('Li'),
                sites=sites2,
                events=None,
                states=sc['states'],
                inner_states=sc['states'],
            )
            return occupancy_probe(tr)

        res['with_props'] = attempt(with_props)
        results.append(res)
    return {'src': gemdat.__file__, 'results': results}


if __name__ == '__main__':
    sys.exit(main())
