"""Differential test for refactoring C04/4.

The pandas pre- and post-processing of `gemdat.jumps._generic_transitions_to_jumps` was rewritten
(copy + add column + rename -> rename + add column; list of groupby frames -> direct iteration;
boolean filter + reset_index() + three `del` statements -> .loc / .drop(columns=...) / reset_index(drop=True)).
The classification loop itself is untouched.

The script runs itself twice as a worker, once with PYTHONPATH=/repo/src (original implementation) and
once with PYTHONPATH=/tmp/wtt_C04/src (refactored implementation), on identical seeded inputs, and
compares the pickled results exactly (values, dtypes, column order, index).  Exit code 0 <=> all results identical.
"""

from __future__ import annotations

import itertools
import os
import pickle
import subprocess
import sys
import tempfile

ORIG_SRC = '/repo/src'
NEW_SRC = '/tmp/wtt_C04/src'
RESIDENCES = (0, 1, 2, 3, 5, 10, 1000)


# --------------------------------------------------------------------------- worker
def frame_repr(df):
    """Exact, picklable description of a DataFrame."""
    return {
        'columns': [str(c) for c in df.columns],
        'dtypes': [str(t) for t in df.dtypes],
        'index': [repr(i) for i in df.index],
        'values': [[repr(v) for v in row] for row in df.to_numpy().tolist()],
    }


def call(fn, *args, **kwargs):
    import warnings

    import pandas as pd

    try:
        with warnings.catch_warnings(record=True) as caught:
            warnings.simplefilter('always')
            out = fn(*args, **kwargs)
        warns = sorted((w.category.__name__, str(w.message)) for w in caught)
        if isinstance(out, pd.DataFrame):
            return ('frame', frame_repr(out), warns)
        return ('value', repr(out), warns)
    except Exception as exc:  # noqa: BLE001
        return ('raised', type(exc).__name__, str(exc))


def random_history(rng, n_steps, n_atoms, n_sites, p_stay, p_nosite):
    import numpy as np

    states = np.empty((n_steps, n_atoms), dtype=int)
    for a in range(n_atoms):
        cur = int(rng.integers(-1, n_sites))
        for t in range(n_steps):
            if rng.random() > p_stay:
                cur = -1 if rng.random() < p_nosite else int(rng.integers(0, n_sites))
            states[t, a] = cur
    return states


def inner_of(rng, states, p_inner):
    """Inner states: equal to the state or NOSITE (as produced by a smaller radius)."""
    import numpy as np

    if p_inner >= 1:
        return states.copy()
    mask = rng.random(states.shape) < p_inner
    return np.where(mask, states, -1)


def worker(out_path):
    from types import SimpleNamespace

    import numpy as np
    import pandas as pd
    from pymatgen.core import Element, Lattice, Structure

    import gemdat
    from gemdat import jumps as J
    from gemdat import transitions as T

    assert os.path.dirname(os.path.dirname(gemdat.__file__)) == os.environ['EQUIV_EXPECT_SRC'], gemdat.__file__

    results = []

    def jumps_of_states(tag, states, inner):
        try:
            events = T._calculate_transition_events(atom_sites=states, atom_inner_sites=inner)
        except ValueError as exc:
            results.append((tag, ('no-events', str(exc))))
            return
        for m in RESIDENCES:
            ns = SimpleNamespace(events=events)
            results.append((f'{tag}/m={m}', call(J._generic_transitions_to_jumps, ns, minimal_residence=m)))
        # the input events must not be modified
        results.append((f'{tag}/events-after', frame_repr(events)))

    # A: random long histories ------------------------------------------------
    rng = np.random.default_rng(20260401)
    for case in range(40):
        n_steps = int(rng.integers(1, 80))
        n_atoms = int(rng.integers(1, 5))
        n_sites = int(rng.integers(1, 6))
        states = random_history(rng, n_steps, n_atoms, n_sites, rng.uniform(0.2, 0.9), rng.uniform(0, 0.8))
        inner = inner_of(rng, states, 1.0 if case % 3 == 0 else rng.uniform(0.1, 0.95))
        jumps_of_states(f'A{case}', states, inner)

    # B: exhaustive short histories (all atoms as columns of one array) ----------
    for length in (2, 3, 4, 5):
        seqs = np.array(list(itertools.product((-1, 0, 1, 2), repeat=length)), dtype=int).T
        jumps_of_states(f'B{length}/full', seqs, seqs.copy())
        rng = np.random.default_rng(length)
        jumps_of_states(f'B{length}/inner', seqs, inner_of(rng, seqs, 0.5))
        jumps_of_states(f'B{length}/noinner', seqs, np.full_like(seqs, -1))

    # C: arbitrary (even inconsistent / unsorted / float) event tables -------------
    rng = np.random.default_rng(77)
    cols = ['atom index', 'start site', 'destination site', 'start inner site', 'destination inner site', 'time']
    for case in range(36):
        n = int(rng.integers(1, 40))
        data = np.column_stack(
            [
                rng.integers(0, 4, n),
                rng.integers(-1, 4, n),
                rng.integers(-1, 4, n),
                rng.integers(-1, 4, n),
                rng.integers(-1, 4, n),
                np.sort(rng.integers(0, 60, n)),
            ]
        )
        events = pd.DataFrame(data, columns=cols)
        if case % 6 == 1:
            events = events.astype(float)
        if case % 6 == 2:
            events = events.sample(frac=1.0, random_state=case)  # shuffled rows, non-trivial index
        if case % 6 == 3:
            events = events.astype({'time': 'int32', 'atom index': 'int16'})
        if case % 6 == 4:
            events.index = pd.Index(rng.integers(0, 5, n), name='event')  # duplicated, named index labels
        if case % 6 == 5:
            events = events[cols[::-1]]  # other column order
            events.index = [f'e{k}' for k in range(n)]
        for m in (0, 2, 7):
            results.append((f'C{case}/m={m}', call(J._generic_transitions_to_jumps, SimpleNamespace(events=events), minimal_residence=m)))
        results.append((f'C{case}/events-after', frame_repr(events)))

    # D: full pipeline on synthetic trajectories in cubic / triclinic / rotated cells ----
    rng = np.random.default_rng(4)
    for case in range(12):
        if case % 3 == 0:
            lattice = Lattice.cubic(6.0 + case)
        elif case % 3 == 1:
            lattice = Lattice.from_parameters(6.0, 7.5, 9.0, 75.0 + case, 95.0, 110.0 - case)
        else:
            base = Lattice.from_parameters(7.0, 6.5, 8.0, 80.0, 100.0 + case, 70.0)
            q, _ = np.linalg.qr(rng.normal(size=(3, 3)))
            lattice = Lattice(base.matrix @ q)
        site_frac = np.array([[0.02, 0.03, 0.97], [0.5, 0.03, 0.02], [0.5, 0.52, 0.5], [0.98, 0.5, 0.5]])
        labels = ['A', 'A', 'B', 'B']
        sites = Structure(lattice, ['Li'] * 4, site_frac, labels=labels)
        n_steps, n_li = int(rng.integers(30, 120)), int(rng.integers(1, 4))
        hist = random_history(rng, n_steps, n_li, 4, 0.75, 0.4)
        coords = np.empty((n_steps, n_li + 1, 3))
        for t in range(n_steps):
            for a in range(n_li):
                s = hist[t, a]
                centre = site_frac[s] if s >= 0 else np.array([0.25, 0.27, 0.24])
                cart_noise = rng.normal(scale=0.25, size=3)
                coords[t, a] = centre + lattice.get_fractional_coords(cart_noise) + rng.integers(-1, 2, 3) * (case % 2)
            coords[t, n_li] = [0.75, 0.75, 0.75]
        traj = gemdat.Trajectory(
            species=[Element('Li')] * n_li + [Element('S')],
            coords=coords,
            lattice=lattice,
            time_step=1e-15,
            metadata={'temperature': 300},
        )
        radius = 0.8 if case % 4 else {'A': 0.9, 'B': 0.7}
        for frac in (1.0, 0.6):
            try:
                tr = gemdat.Transitions.from_trajectory(
                    trajectory=traj, sites=sites, floating_specie='Li', site_radius=radius, site_inner_fraction=frac
                )
            except ValueError as exc:
                results.append((f'D{case}/f={frac}', ('no-events', str(exc))))
                continue
            results.append((f'D{case}/f={frac}/states', tr.states.tolist()))
            for m in (0, 1, 3, 8):
                def run(m=m):
                    j = tr.jumps(minimal_residence=m)
                    return (frame_repr(j.data), j.matrix().tolist(), sorted(j._counter().items()), j.n_jumps)
                results.append((f'D{case}/f={frac}/m={m}', call(run)))

    with open(out_path, 'wb') as fh:
        pickle.dump(results, fh)


# --------------------------------------------------------------------------- driver
def run_worker(src, out_path):
    env = dict(os.environ)
    env['PYTHONPATH'] = src
    env['EQUIV_EXPECT_SRC'] = src
    env['PYTHONHASHSEED'] = '0'
    subprocess.run([sys.executable, os.path.abspath(__file__), '--worker', out_path], env=env, check=True)
    with open(out_path, 'rb') as fh:
        return pickle.load(fh)


def main():
    with tempfile.TemporaryDirectory() as td:
        orig = run_worker(ORIG_SRC, os.path.join(td, 'orig.pkl'))
        new = run_worker(NEW_SRC, os.path.join(td, 'new.pkl'))

    bad = 0
    if len(orig) != len(new):
        print(f'different number of results: {len(orig)} vs {len(new)}')
        bad += 1
    for (tag_o, res_o), (tag_n, res_n) in zip(orig, new):
        if tag_o != tag_n or res_o != res_n:
            bad += 1
            if bad <= 10:
                print(f'DIFF {tag_o} / {tag_n}\n  orig: {str(res_o)[:400]}\n  new : {str(res_n)[:400]}')
    kinds = {}
    for _, res in orig:
        k = res[0] if isinstance(res, tuple) else 'data'
        kinds[k] = kinds.get(k, 0) + 1
    print(f'compared {len(orig)} results ({kinds}); differences: {bad}')
    return 1 if bad else 0


if __name__ == '__main__':
    if len(sys.argv) == 3 and sys.argv[1] == '--worker':
        worker(sys.argv[2])
    else:
        sys.exit(main())
