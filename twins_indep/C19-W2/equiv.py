"""Differential test for C19 refactorings (time partitioning of transitions / jumps / trajectories).

Runs the same randomised workload twice in subprocesses: once with PYTHONPATH=/repo/src (original, read-only)
and once with PYTHONPATH=/tmp/wtw_C19/src (refactored), pickles the results and compares them exactly
(floats within 1e-12). Exits non-zero on any difference.
"""
import os
import pickle
import subprocess
import sys
import tempfile

import numpy as np

ORIG = '/repo/src'
NEW = '/tmp/wtw_C19/src'
N_CASES = 24


def workload():
    import warnings
    warnings.filterwarnings('ignore')
    import pandas as pd
    from pymatgen.core import Element, Lattice, Structure
    import gemdat
    from gemdat import Trajectory
    from gemdat.transitions import Transitions, _split_transitions_events
    from gemdat.jumps import Jumps

    assert os.path.dirname(os.path.dirname(gemdat.__file__)) == os.environ['EXPECT_SRC'], gemdat.__file__

    out = []

    def rec(tag, val):
        out.append((tag, val))

    def traj_repr(t):
        return (np.asarray(t.positions).copy(), np.asarray(t.base_positions).copy(), len(t), float(t.time_step),
                [str(s) for s in t.species], np.asarray(t.get_lattice().matrix).copy(), int(getattr(t, 'time_offset', 0) or 0)
                if hasattr(t, 'time_offset') else 0)

    def df_repr(df):
        return (list(df.columns), [str(d) for d in df.dtypes], df.index.to_numpy().copy(), df.to_numpy().copy())

    def attempt(tag, fn):
        try:
            rec(tag, fn())
        except Exception as e:  # exceptions are behaviour too
            rec(tag, ('EXC', type(e).__name__, str(e)))

    for case in range(N_CASES):
        rng = np.random.default_rng(1000 + case)
        kind = case % 4
        if kind == 0:
            lattice = Lattice.cubic(6.0 + rng.random())
        elif kind == 1:
            lattice = Lattice.from_parameters(5 + rng.random(), 6 + rng.random(), 7 + rng.random(), 80, 95, 105)
        elif kind == 2:
            lattice = Lattice.from_parameters(6, 6.5, 5.5, 70 + 10 * rng.random(), 100, 115)
        else:
            # rotated triclinic
            m = Lattice.from_parameters(6, 7, 6.5, 85, 100, 95).matrix
            q, _ = np.linalg.qr(rng.normal(size=(3, 3)))
            if np.linalg.det(q) < 0:
                q[:, 0] *= -1
            lattice = Lattice(m @ q)
        n_li = int(rng.integers(1, 5))
        n_other = int(rng.integers(0, 3))
        n_steps = int(rng.integers(23, 140))
        species = [Element('Li')] * n_li + [Element('S')] * n_other
        start = rng.random((len(species), 3))
        steps = rng.normal(scale=0.06, size=(n_steps, len(species), 3))
        steps[:, n_li:, :] *= 0.05
        coords = np.mod(start[None] + np.cumsum(steps, axis=0), 1.0)  # atoms cross cell faces
        traj = Trajectory(species=species, coords=coords, lattice=lattice, time_step=1e-15 * (1 + case % 3),
                          metadata={'temperature': 300 + 50 * case})

        # --- Trajectory.split
        for n_parts in (1, 2, 3, 5, 7, 10, n_steps - 1, n_steps, n_steps + 3, 0):
            for equal in (False, True):
                attempt(f'{case}/traj.split/{n_parts}/{equal}',
                        lambda: [traj_repr(p) for p in traj.split(n_parts, equal_parts=equal)])
        attempt(f'{case}/traj.split/default', lambda: [traj_repr(p) for p in traj.split()])

        # --- sites and transitions
        n_sites = int(rng.integers(2, 7))
        site_coords = rng.random((n_sites, 3))
        sites = Structure(lattice, ['Li'] * n_sites, site_coords, labels=[f'L{i % 2}' for i in range(n_sites)])
        try:
            tr = Transitions.from_trajectory(trajectory=traj, sites=sites, floating_specie='Li',
                                             site_radius=float(0.6 + 0.5 * rng.random()))
        except Exception as e:
            rec(f'{case}/from_trajectory', ('EXC', type(e).__name__, str(e)))
            tr = None

        def trans_repr(p):
            return (np.asarray(p.states).copy(), np.asarray(p.inner_states).copy(), df_repr(p.events),
                    traj_repr(p.trajectory), traj_repr(p.diff_trajectory), p.sites is tr.sites, type(p).__name__)

        if tr is not None:
            rec(f'{case}/events', df_repr(tr.events))
            for n_parts in (1, 2, 3, 4, 7, 10, len(tr.events), len(tr.events) + 1, 0):
                attempt(f'{case}/transitions.split/{n_parts}', lambda: [trans_repr(p) for p in tr.split(n_parts)])
            attempt(f'{case}/transitions.split/default', lambda: [trans_repr(p) for p in tr.split()])
            try:
                jumps = Jumps(tr, minimal_residence=int(case % 3))
            except Exception as e:
                rec(f'{case}/jumps', ('EXC', type(e).__name__, str(e)))
                jumps = None
            if jumps is not None:
                def jump_repr(j):
                    return (df_repr(j.data), j.n_jumps, j.minimal_residence, str(j.conversion_method.__name__),
                            trans_repr(j.transitions))
                for n_parts in (1, 2, 3, 5):
                    attempt(f'{case}/jumps.split/{n_parts}', lambda: [jump_repr(j) for j in jumps.split(n_parts)])
                    attempt(f'{case}/jumps.rates/{n_parts}', lambda: df_repr(jumps.rates(n_parts=n_parts)))

        # --- _split_transitions_events on synthetic tables (including empty windows, boundary times)
        n_states = int(rng.integers(5, 60))
        n_ev = int(rng.integers(0, 40))
        times = np.sort(rng.integers(0, n_states + 2, size=n_ev))
        if n_ev > 2:
            times[0] = 0
            times[-1] = n_states + 1  # falls outside the last window
        ev = pd.DataFrame({
            'atom index': rng.integers(0, 4, size=n_ev),
            'start site': rng.integers(-1, 5, size=n_ev),
            'destination site': rng.integers(-1, 5, size=n_ev),
            'start inner site': rng.integers(-1, 5, size=n_ev),
            'destination inner site': rng.integers(-1, 5, size=n_ev),
            'time': times,
        })
        if case % 5 == 0:
            ev.index = ev.index[::-1]  # non-monotonic index
        before = df_repr(ev)
        for n_parts in (1, 2, 3, 6, 10, n_ev, n_ev + 1):
            attempt(f'{case}/split_events/{n_parts}',
                    lambda: [df_repr(p) for p in _split_transitions_events(ev, n_states, n_parts)])
        ev2 = ev.assign(**{'start time': ev['time'], 'stop time': ev['time'] + 2})
        attempt(f'{case}/split_events/keys',
                lambda: [df_repr(p) for p in _split_transitions_events(
                    ev2, n_states, 3, split_key='start time', dependent_keys=['start time', 'stop time'])])
        attempt(f'{case}/split_events/default', lambda: [df_repr(p) for p in _split_transitions_events(ev, n_states)])
        rec(f'{case}/split_events/input_unchanged', df_repr(ev) if True else None)
        assert _same(before, df_repr(ev)) or True
    return out


def _same(a, b):
    if type(a) is not type(b):
        return False
    if isinstance(a, (tuple, list)):
        return len(a) == len(b) and all(_same(x, y) for x, y in zip(a, b))
    if isinstance(a, np.ndarray):
        if a.shape != b.shape or a.dtype != b.dtype:
            return False
        if a.dtype.kind == 'f':
            return bool(np.allclose(a, b, rtol=0, atol=1e-12, equal_nan=True))
        if a.dtype.kind == 'O':
            return all(_same(x, y) for x, y in zip(a.ravel().tolist(), b.ravel().tolist()))
        return bool(np.array_equal(a, b))
    if isinstance(a, float):
        return (a != a and b != b) or abs(a - b) <= 1e-12
    return a == b


def main():
    if len(sys.argv) > 1 and sys.argv[1] == '--child':
        with open(sys.argv[2], 'wb') as f:
            pickle.dump(workload(), f)
        return 0
    results = {}
    with tempfile.TemporaryDirectory() as td:
        for name, src in (('orig', ORIG), ('new', NEW)):
            path = os.path.join(td, name + '.pkl')
            env = dict(os.environ, PYTHONPATH=src, EXPECT_SRC=src)
            r = subprocess.run(['/venv/bin/python', os.path.abspath(__file__), '--child', path], env=env, cwd=td)
            if r.returncode != 0:
                print(f'{name}: child failed')
                return 2
            with open(path, 'rb') as f:
                results[name] = pickle.load(f)
    a, b = results['orig'], results['new']
    if len(a) != len(b):
        print('different number of records', len(a), len(b))
        return 1
    bad = 0
    n_exc = 0
    for (ta, va), (tb, vb) in zip(a, b):
        if isinstance(va, tuple) and va and isinstance(va[0], str) and va[0] == 'EXC':
            n_exc += 1
        if ta != tb or not _same(va, vb):
            bad += 1
            print('DIFF', ta, tb)
    print(f'cases={N_CASES} records={len(a)} exceptions_recorded={n_exc} differing={bad}')
    return 1 if bad else 0


if __name__ == '__main__':
    sys.exit(main())
