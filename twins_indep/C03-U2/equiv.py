"""Differential test for a behaviour-preserving refactoring (property C03).

Refactoring 2: _calculate_transition_events vectorised over all atoms with 2-d boolean masks (transitions.py).

Runs the same seeded workload twice in sub-processes, once against the ORIGINAL
sources and once against the REFACTORED worktree, and compares every result
(arrays: dtype + shape + values, data frames: columns + dtypes + values,
exceptions: exception type).  Exits non-zero on the first difference.

    ORIGINAL   : $GEMDAT_ORIG_SRC  (default /repo/src, only ever imported, never written)
    REFACTORED : $GEMDAT_NEW_SRC   (default /tmp/wtu_C03/src)

Workload
    * _calculate_transition_events on every 1-atom history of length 1..4 over two
      sites (site / inner-site pairs), on 80 random multi-atom histories (changes on
      the first / last frame, atoms that never move, atoms never inside an inner site,
      direct site-to-site moves, inner-only changes, other integer dtypes) and on
      histories without any change (both implementations must raise alike);
    * gemdat.utils.ffill / bfill on random 2-d arrays (all axes, fill values, empty
      shapes, float input) and on invalid 0-d / 1-d / 3-d input;
    * Transitions.from_trajectory end-to-end on 24 random trajectories in cubic,
      triclinic and rotated triclinic cells with atoms crossing cell faces:
      states, inner states, events, states_next, states_prev, matrix, split().
"""

from __future__ import annotations

import itertools
import os
import pickle
import subprocess
import sys
import tempfile
import warnings

ORIG_SRC = os.environ.get('GEMDAT_ORIG_SRC', '/repo/src')
NEW_SRC = os.environ.get('GEMDAT_NEW_SRC', '/tmp/wtu_C03/src')


# --------------------------------------------------------------------------- worker


def _norm(obj):
    """Turn a result into something picklable and comparable without gemdat."""
    import numpy as np
    import pandas as pd

    if isinstance(obj, pd.DataFrame):
        return (
            'frame',
            [str(c) for c in obj.columns],
            [str(t) for t in obj.dtypes],
            [int(i) for i in obj.index] if len(obj) < 10_000 else None,
            _norm(obj.to_numpy()),
        )
    if isinstance(obj, np.ndarray):
        return ('array', str(obj.dtype), tuple(obj.shape), np.ascontiguousarray(obj).tobytes())
    if isinstance(obj, (list, tuple)):
        return ('seq', [_norm(o) for o in obj])
    if isinstance(obj, dict):
        return ('dict', [(str(k), _norm(v)) for k, v in obj.items()])
    if isinstance(obj, (np.generic,)):
        return ('scalar', str(obj.dtype), obj.item())
    return ('py', repr(obj))


def _call(fn, *args, **kwargs):
    try:
        return _norm(fn(*args, **kwargs))
    except Exception as exc:  # noqa: BLE001 - the exception type is the result
        return ('raised', type(exc).__name__)


def _random_history(rng, n_frames, n_atoms, n_sites, p_move, inner_mode):
    import numpy as np

    states = np.empty((n_frames, n_atoms), dtype=int)
    current = rng.integers(-1, n_sites, size=n_atoms)
    for t in range(n_frames):
        move = rng.random(n_atoms) < p_move
        current = np.where(move, rng.integers(-1, n_sites, size=n_atoms), current)
        states[t] = current
    if inner_mode == 'same':
        inner = states.copy()
    elif inner_mode == 'never':
        inner = np.full_like(states, -1)
    else:
        inner = np.where(rng.random(states.shape) < 0.6, states, -1)
    # some atoms never move at all, some never are inside an inner site
    for a in range(n_atoms):
        r = rng.random()
        if r < 0.15:
            states[:, a] = states[0, a]
            if rng.random() < 0.5:
                inner[:, a] = np.where(rng.random(n_frames) < 0.5, states[:, a], -1)
            else:
                inner[:, a] = states[0, a]
        elif r < 0.3:
            inner[:, a] = -1
    # force changes on the first and the last frame now and then
    if n_frames > 2 and rng.random() < 0.5:
        a = rng.integers(n_atoms)
        states[0, a] = (states[1, a] + 2) % (n_sites + 1) - 1
        states[-1, a] = (states[-2, a] + 2) % (n_sites + 1) - 1
        inner[0, a] = states[0, a]
        inner[-1, a] = -1
    return states, inner


def _events_cases(tr):
    import numpy as np

    out = []
    fn = tr._calculate_transition_events

    # exhaustive: one atom, two sites, (site, inner) per frame
    options = [(-1, -1), (0, 0), (0, -1), (1, 1), (1, -1)]
    for n_frames in (1, 2, 3, 4):
        for combo in itertools.product(options, repeat=n_frames):
            arr = np.array(combo, dtype=int)
            states, inner = arr[:, :1], arr[:, 1:]
            out.append((f'exh{n_frames}:{combo}', _call(fn, atom_sites=states, atom_inner_sites=inner)))

    # exhaustive: two atoms, one site, length 1..3
    options2 = [(-1, -1), (0, 0), (0, -1)]
    for n_frames in (1, 2, 3):
        for combo in itertools.product(itertools.product(options2, repeat=2), repeat=n_frames):
            arr = np.array(combo, dtype=int)  # frames, atoms, (site, inner)
            out.append(
                (f'exh2_{n_frames}:{combo}', _call(fn, atom_sites=arr[..., 0], atom_inner_sites=arr[..., 1]))
            )

    rng = np.random.default_rng(3003)
    for k in range(80):
        n_frames = int(rng.choice([2, 3, 5, 17, 60, 250]))
        n_atoms = int(rng.integers(1, 9))
        n_sites = int(rng.integers(1, 7))
        p_move = float(rng.choice([0.02, 0.1, 0.5, 0.9]))
        mode = ['same', 'never', 'mixed'][k % 3]
        states, inner = _random_history(rng, n_frames, n_atoms, n_sites, p_move, mode)
        if k % 10 == 7:
            states, inner = states.astype(np.int32), inner.astype(np.int16)
        if k % 10 == 8:
            # non-contiguous views
            states, inner = np.asfortranarray(states), inner[:, ::1]
        out.append((f'rnd{k}', _call(fn, atom_sites=states, atom_inner_sites=inner)))

    # histories without any site change -> building the table fails alike
    for shape in [(1, 1), (1, 3), (5, 2), (0, 2), (4, 0)]:
        states = np.zeros(shape, dtype=int)
        out.append((f'const{shape}', _call(fn, atom_sites=states, atom_inner_sites=states - 1)))
    # inner-only changes are not events
    states = np.zeros((6, 2), dtype=int)
    inner = np.array([[0, -1], [-1, -1], [0, 0], [0, -1], [-1, 0], [0, 0]])
    out.append(('inner-only', _call(fn, atom_sites=states, atom_inner_sites=inner)))
    states[3, 1] = -1
    out.append(('inner-mostly', _call(fn, atom_sites=states, atom_inner_sites=inner)))
    # more inner-state columns than state columns (zip semantics)
    out.append(('extra-cols', _call(fn, atom_sites=states[:, :1], atom_inner_sites=inner)))
    out.append(('extra-cols2', _call(fn, atom_sites=states, atom_inner_sites=inner[:, 1:])))
    return out


def _fill_cases(utils):
    import numpy as np

    out = []
    rng = np.random.default_rng(77)
    shapes = [(1, 1), (1, 7), (7, 1), (4, 9), (9, 4), (3, 0), (0, 3), (0, 0), (30, 11)]
    for k in range(60):
        shape = shapes[k % len(shapes)]
        arr = rng.integers(-1, 4, size=shape)
        arr = np.where(rng.random(shape) < 0.5, -1, arr)
        if k % 7 == 3:
            arr = arr.astype(float)
        if k % 7 == 5:
            arr = np.asfortranarray(arr)
        for fname in ('ffill', 'bfill'):
            fn = getattr(utils, fname)
            out.append((f'{fname}{k}', _call(fn, arr)))
            out.append((f'{fname}{k}a0', _call(fn, arr, axis=0)))
            out.append((f'{fname}{k}a1', _call(fn, arr, axis=1)))
            out.append((f'{fname}{k}f2', _call(fn, arr, fill_val=2)))
            out.append((f'{fname}{k}f2a0', _call(fn, arr, fill_val=2, axis=0)))
            out.append((f'{fname}{k}kw', _call(fn, arr, fill_val=-1, axis=0)))
            # input must not be modified
            out.append((f'{fname}{k}in', _norm(arr)))
    for fname in ('ffill', 'bfill'):
        fn = getattr(utils, fname)
        for bad in (np.array(3), np.arange(5), np.zeros((2, 3, 4), dtype=int), np.zeros((2, 0, 4), dtype=int)):
            out.append((f'{fname}-bad{bad.shape}', _call(fn, bad)))
            out.append((f'{fname}-bad{bad.shape}a0', _call(fn, bad, axis=0)))
    return out


def _rotation(rng):
    import numpy as np

    q, r = np.linalg.qr(rng.normal(size=(3, 3)))
    q = q * np.sign(np.diag(r))
    if np.linalg.det(q) < 0:
        q[:, 0] = -q[:, 0]
    return q


def _end_to_end_cases(gemdat):
    import numpy as np
    from pymatgen.core import Lattice, Structure
    from pymatgen.core.periodic_table import Element

    out = []
    rng = np.random.default_rng(2024)
    for k in range(24):
        kind = k % 3
        if kind == 0:
            lattice = Lattice.cubic(float(rng.uniform(6, 9)))
        else:
            lattice = Lattice.from_parameters(
                float(rng.uniform(6, 9)),
                float(rng.uniform(6, 9)),
                float(rng.uniform(6, 9)),
                float(rng.uniform(70, 110)),
                float(rng.uniform(70, 110)),
                float(rng.uniform(70, 110)),
            )
            if kind == 2:
                lattice = Lattice(lattice.matrix @ _rotation(rng))

        grid = np.array(list(itertools.product([0.02, 0.5], repeat=3)))
        n_sites = int(rng.integers(3, 9))
        site_frac = grid[rng.permutation(len(grid))[:n_sites]] + rng.uniform(-0.02, 0.02, (n_sites, 3))
        labels = [['A', 'B'][j % 2] for j in range(n_sites)]
        sites = Structure(lattice, ['Li'] * n_sites, site_frac, labels=labels)

        n_frames = int(rng.choice([12, 40, 120]))
        n_li = int(rng.integers(1, 5))
        n_fixed = 2
        at = rng.integers(0, n_sites, size=n_li)
        coords = np.empty((n_frames, n_li + n_fixed, 3))
        fixed = rng.random((n_fixed, 3))
        for t in range(n_frames):
            hop = rng.random(n_li) < 0.25
            at = np.where(hop, rng.integers(0, n_sites, size=n_li), at)
            offs = rng.normal(scale=0.03, size=(n_li, 3))
            # now and then an atom sits in between sites
            far = rng.random(n_li) < 0.2
            offs[far] += rng.uniform(-0.25, 0.25, size=(int(far.sum()), 3))
            coords[t, :n_li] = site_frac[at] + offs  # may lie outside [0, 1): crosses cell faces
            coords[t, n_li:] = fixed + rng.normal(scale=0.005, size=(n_fixed, 3))
        if k % 4 == 1:
            coords[:, 0] = coords[0, 0]  # an atom that never moves

        trajectory = gemdat.Trajectory(
            species=[Element('Li')] * n_li + [Element('S')] * n_fixed,
            coords=coords,
            lattice=lattice,
            time_step=1e-15,
            metadata={'temperature': 300},
            constant_lattice=True,
        )
        radius = [0.9, {'A': 0.8, 'B': 1.1}, 1.2][k % 3]
        fraction = [1.0, 0.5, 0.8][(k // 3) % 3]

        def run(trajectory=trajectory, sites=sites, radius=radius, fraction=fraction, n_frames=n_frames):
            with warnings.catch_warnings():
                warnings.simplefilter('ignore')
                tr = gemdat.Transitions.from_trajectory(
                    trajectory=trajectory,
                    sites=sites,
                    floating_specie='Li',
                    site_radius=radius,
                    site_inner_fraction=fraction,
                )
                res = {
                    'states': tr.states,
                    'inner': tr.inner_states,
                    'events': tr.events,
                    'next': tr.states_next(),
                    'prev': tr.states_prev(),
                    'matrix': tr.matrix(),
                }
                for n_parts in (2, 3):
                    try:
                        parts = tr.split(n_parts)
                    except ValueError:
                        res[f'split{n_parts}'] = 'ValueError'
                        continue
                    res[f'split{n_parts}'] = [
                        [p.events, p.states, p.states_next(), p.states_prev()] for p in parts
                    ]
                return res

        out.append((f'e2e{k}', _call(run)))
    return out


def worker(path: str, expect_root: str) -> None:
    import gemdat
    import gemdat.transitions as tr
    import gemdat.utils as utils

    root = os.path.realpath(expect_root)
    for mod in (gemdat, tr, utils):
        assert os.path.realpath(mod.__file__).startswith(root + os.sep), (mod.__file__, root)

    results = []
    results += _events_cases(tr)
    results += _fill_cases(utils)
    results += _end_to_end_cases(gemdat)
    with open(path, 'wb') as fh:
        pickle.dump(results, fh)


# --------------------------------------------------------------------------- driver


def _run(src: str, path: str) -> None:
    env = dict(os.environ)
    env['PYTHONPATH'] = src
    env['PYTHONDONTWRITEBYTECODE'] = '1'  # never write into the source trees
    subprocess.run([sys.executable, os.path.abspath(__file__), '--worker', path, src], env=env, check=True)


def main() -> int:
    with tempfile.TemporaryDirectory() as td:
        p_old, p_new = os.path.join(td, 'old.pkl'), os.path.join(td, 'new.pkl')
        _run(ORIG_SRC, p_old)
        _run(NEW_SRC, p_new)
        with open(p_old, 'rb') as fh:
            old = pickle.load(fh)
        with open(p_new, 'rb') as fh:
            new = pickle.load(fh)

    if [n for n, _ in old] != [n for n, _ in new]:
        print('DIFFERENT case lists')
        return 1

    n_diff = 0
    n_raised = 0
    for (name, a), (_, b) in zip(old, new):
        n_raised += a[0] == 'raised'
        if a != b:
            n_diff += 1
            if n_diff <= 10:
                print(f'DIFF in case {name}:\n   original  : {str(a)[:300]}\n   refactored: {str(b)[:300]}')
    n_e2e_ok = sum(1 for n, a in old if n.startswith('e2e') and a[0] != 'raised')
    print(f'cases={len(old)} raised_in_original={n_raised} e2e_ok={n_e2e_ok} differences={n_diff}')
    if n_e2e_ok < 20:
        print('too few end-to-end cases ran to completion')
        return 1
    return 1 if n_diff else 0


if __name__ == '__main__':
    if len(sys.argv) >= 4 and sys.argv[1] == '--worker':
        worker(sys.argv[2], sys.argv[3])
        sys.exit(0)
    sys.exit(main())
