"""Differential test for refactoring 3 (scalar metrics via a NamedTuple + map/partial in Trajectory.distances_from_base_position / center_of_mass).

Runs the same randomised trajectories through the ORIGINAL code (/repo/src, read-only) and the
refactored code (/tmp/wtu_C14/src), each in its own subprocess, and compares bit-for-bit.
"""
import os
import pickle
import subprocess
import sys
import tempfile

ORIG = '/repo/src'
NEW = '/tmp/wtu_C14/src'
N_CASES = 48


def random_lattice(rng, kind):
    import numpy as np
    from pymatgen.core import Lattice

    a, b, c = rng.uniform(3.0, 12.0, 3)
    if kind == 0:
        return Lattice.cubic(a)
    if kind == 1:
        return Lattice.orthorhombic(a, b, c)
    if kind == 2:
        return Lattice.from_parameters(a, b, c, *rng.uniform(60, 120, 3))
    if kind == 3:
        return Lattice.hexagonal(a, c)
    # rotated triclinic cell
    base = Lattice.from_parameters(a, b, c, *rng.uniform(65, 115, 3)).matrix
    q, _ = np.linalg.qr(rng.normal(size=(3, 3)))
    if np.linalg.det(q) < 0:
        q[:, 0] *= -1
    return Lattice(base @ q)


def make_cases():
    import numpy as np
    from pymatgen.core import Element, Species

    from gemdat import Trajectory

    rng = np.random.default_rng(20261001)
    pool = [Element('Li'), Element('Na'), Element('S'), Element('P'), Species('Li', 1), Species('O', -2)]
    cases = []
    for i in range(N_CASES):
        n_atoms = int(rng.integers(1, 7))
        n_frames = int(rng.choice([2, 3, 4, 5, 17, 64, 150]))
        lattice = random_lattice(rng, i % 5)
        step = rng.choice([0.002, 0.02, 0.2])  # large steps => atoms cross cell faces
        start = rng.uniform(0, 1, size=(1, n_atoms, 3))
        incr = rng.normal(scale=step, size=(n_frames, n_atoms, 3))
        mode = i % 8
        if mode == 1:  # one atom at rest (all speeds zero)
            incr[:, 0, :] = 0.0
        elif mode == 2:  # rigid translation, monotone distances
            incr[:] = np.abs(incr[:, :1, :])
        elif mode == 3:  # piecewise constant: zero speeds interleaved with moves
            incr[::2] = 0.0
        elif mode == 4:  # oscillation with exact sign alternation
            incr = np.tile(np.array([step, -step])[:, None, None], (n_frames // 2 + 1, n_atoms, 3))[:n_frames]
        elif mode == 5:  # start on a cell face
            start[:] = np.round(start)
        coords = start + np.cumsum(incr, axis=0)
        coords[0] = start[0]
        if mode == 6:
            coords = coords % 1.0
        species = [pool[int(k)] for k in rng.integers(0, len(pool), n_atoms)]
        traj = Trajectory(
            species=species,
            coords=coords,
            lattice=lattice,
            time_step=float(rng.choice([1e-15, 2e-15, 5e-16])),
            metadata={'temperature': float(rng.choice([300, 650, 1000]))},
        )
        cases.append(traj)
    return cases


def attempt(fn):
    import warnings

    try:
        with warnings.catch_warnings():
            warnings.simplefilter('ignore')
            return ('ok', fn())
    except Exception as exc:  # noqa: BLE001
        return ('err', type(exc).__name__, str(exc))


def describe(x):
    """Flatten a (FloatWithUnit) scalar into comparable primitives."""
    return (type(x).__name__, float(x), str(getattr(x, 'unit', None)), repr(x))


def worker(out):
    import numpy as np

    from gemdat.metrics import TrajectoryMetrics

    results = []
    for i, traj in enumerate(make_cases()):
        rec = {}
        m = TrajectoryMetrics(traj)
        rec['distances'] = attempt(lambda: np.array(traj.distances_from_base_position()))
        rec['distances_flags'] = attempt(
            lambda: (lambda d: (d.shape, str(d.dtype), d.flags['C_CONTIGUOUS'], d.flags['F_CONTIGUOUS']))(
                traj.distances_from_base_position()
            )
        )
        rec['density'] = attempt(lambda: describe(m.particle_density()))
        rec['molarity'] = attempt(lambda: describe(m.mol_per_liter()))
        rec['speed'] = attempt(lambda: np.array(m.speed()))
        rec['attempt_frequency'] = attempt(lambda: tuple(describe(x) for x in m.attempt_frequency()))
        rec['vibration_amplitude'] = attempt(lambda: describe(m.vibration_amplitude()))
        for dims in (3, 2, 1, 0, -1, 2.5, None, 'x'):
            rec['D', dims] = attempt(lambda: describe(m.tracer_diffusivity(dimensions=dims)))
            rec['Dcom', dims] = attempt(lambda: describe(m.tracer_diffusivity_center_of_mass(dimensions=dims)))
            rec['haven', dims] = attempt(lambda: describe(m.haven_ratio(dimensions=dims)))
            for z in (1, -2, 0, None):
                rec['sigma', dims, z] = attempt(lambda: describe(m.tracer_conductivity(z_ion=z, dimensions=dims)))
        rec['D_default'] = attempt(lambda: describe(m.tracer_diffusivity()))
        rec['haven_default'] = attempt(lambda: describe(m.haven_ratio()))
        rec['sigma_default'] = attempt(lambda: describe(m.tracer_conductivity(z_ion=1)))

        def com_record(t):
            com = t.center_of_mass()
            return (
                type(com).__name__,
                [str(sp) for sp in com.species],
                np.array(com.positions),
                np.array(com.base_positions),
                np.array(com.get_lattice().matrix),
                com.time_step,
                dict(com.metadata),
                np.array(com.distances_from_base_position()),
            )

        rec['com'] = attempt(lambda: com_record(traj))
        # centre of mass of the centre of mass (single dummy species 'X')
        rec['com_of_com'] = attempt(lambda: com_record(traj.center_of_mass()))
        # filtered and sliced sub-trajectories, incl. a single species and a single frame
        symbol = traj.species[0].symbol
        sub = traj.filter(symbol)
        rec['sub_D'] = attempt(lambda: describe(sub.metrics().tracer_diffusivity(dimensions=3)))
        rec['sub_haven'] = attempt(lambda: describe(sub.metrics().haven_ratio(dimensions=2)))
        rec['sub_density'] = attempt(lambda: describe(sub.metrics().particle_density()))
        rec['one_frame_D'] = attempt(lambda: describe(traj[0:1].metrics().tracer_diffusivity(dimensions=3)))
        rec['one_frame_com'] = attempt(lambda: com_record(traj[0:1]))
        rec['tail_D'] = attempt(lambda: describe(traj[1:].metrics().tracer_diffusivity(dimensions=3)))
        rec['tail_haven'] = attempt(lambda: describe(traj[1:].metrics().haven_ratio(dimensions=3)))
        # fault injection: no temperature, invalid time step
        import copy

        cold = copy.deepcopy(traj)
        cold.metadata = {}
        rec['no_T_sigma'] = attempt(lambda: describe(cold.metrics().tracer_conductivity(z_ion=1, dimensions=3)))
        rec['no_T_sigma_bad_z'] = attempt(lambda: describe(cold.metrics().tracer_conductivity(z_ion=None)))
        strT = copy.deepcopy(traj)
        strT.metadata = {'temperature': '300'}
        rec['str_T_sigma'] = attempt(lambda: describe(strT.metrics().tracer_conductivity(z_ion=1, dimensions=3)))
        rec['str_T_sigma_bad_z'] = attempt(lambda: describe(strT.metrics().tracer_conductivity(z_ion=None)))
        frozen = copy.deepcopy(traj)
        frozen.time_step = 0
        rec['dt0_D'] = attempt(lambda: describe(frozen.metrics().tracer_diffusivity(dimensions=3)))
        rec['dt0_D_bad_dims'] = attempt(lambda: describe(frozen.metrics().tracer_diffusivity(dimensions=None)))
        rec['dt0_sigma_bad_z'] = attempt(lambda: describe(frozen.metrics().tracer_conductivity(z_ion=None)))
        rec['dt0_haven'] = attempt(lambda: describe(frozen.metrics().haven_ratio()))
        # species that are not Species/Element -> assertion in center_of_mass
        if i % 4 == 0:
            odd = copy.deepcopy(traj)
            odd.species = list(odd.species[:-1]) + ['Li']
            rec['odd_species_com'] = attempt(lambda: com_record(odd))
            rec['odd_species_haven'] = attempt(lambda: describe(odd.metrics().haven_ratio()))
        results.append(rec)
    with open(out, 'wb') as fh:
        pickle.dump(results, fh)


def same(a, b):
    import numpy as np

    if isinstance(a, (tuple, list)):
        return type(a) is type(b) and len(a) == len(b) and all(same(x, y) for x, y in zip(a, b))
    if isinstance(a, np.ndarray):
        return (
            isinstance(b, np.ndarray)
            and a.shape == b.shape
            and a.dtype == b.dtype
            and np.array_equal(a, b, equal_nan=a.dtype.kind == 'f')
        )
    if isinstance(a, dict):
        return isinstance(b, dict) and a.keys() == b.keys() and all(same(a[k], b[k]) for k in a)
    if isinstance(a, float) and a != a:
        return isinstance(b, float) and b != b
    return a == b


def main():
    outs = []
    with tempfile.TemporaryDirectory() as td:
        for tag, src in (('orig', ORIG), ('new', NEW)):
            out = os.path.join(td, tag + '.pkl')
            env = dict(os.environ, PYTHONPATH=src)
            subprocess.run([sys.executable, os.path.abspath(__file__), '--worker', out], check=True, env=env)
            with open(out, 'rb') as fh:
                outs.append(pickle.load(fh))
    orig, new = outs
    assert len(orig) == len(new) and len(orig) >= 20
    bad = 0
    n_ok = 0
    for i, (ro, rn) in enumerate(zip(orig, new)):
        for key in ro:
            n_ok += ro[key][0] == 'ok'
            if not same(ro[key], rn[key]):
                bad += 1
                print(f'DIFF case {i} {key}:\n  orig={ro[key]}\n  new ={rn[key]}')
    print(f'cases={len(orig)} ok-results={n_ok} differences={bad}')
    sys.exit(1 if bad else 0)


if __name__ == '__main__':
    if len(sys.argv) > 2 and sys.argv[1] == '--worker':
        import gemdat

        assert os.path.abspath(gemdat.__file__).startswith(os.environ['PYTHONPATH']), gemdat.__file__
        worker(sys.argv[2])
    else:
        main()
