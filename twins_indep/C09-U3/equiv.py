"""Differential test for refactoring 3 (FreeEnergyVolume.optimal_path / optimal_n_paths share the private
helpers _graph_or_default / _bound_to_grid; the 1e7 eV cut-off that keeps never-visited voxels out of the
default graphs is one module constant, also used by gemdat.path.optimal_percolating_path).

Runs the same randomised workload once against the ORIGINAL code (PYTHONPATH=/repo/src, read-only)
and once against the refactored worktree (PYTHONPATH=/tmp/wtu_C09/src) in sub-processes and
compares the pickled results (exact float bits, key types, order). Exits non-zero on any difference.
"""
import os
import pickle
import subprocess
import sys
import tempfile

ORIG = '/repo/src'
NEW = '/tmp/wtu_C09/src'


def worker(out):
    import warnings

    import networkx as nx
    import numpy as np
    from pymatgen.core import Lattice
    from pymatgen.core.periodic_table import Element

    import gemdat
    from gemdat.path import Pathway, free_energy_graph, optimal_percolating_path
    from gemdat.volume import FreeEnergyVolume, Volume, trajectory_to_volume

    assert gemdat.__file__.startswith(os.environ['EXPECT_ROOT']), gemdat.__file__
    rng = np.random.default_rng(313)
    records = []

    def scalar(x):
        return (type(x).__name__, float(x).hex())

    def key(k):
        return tuple((type(i).__name__, int(i)) for i in k)

    def dump_path(p):
        if p is None:
            return None
        assert isinstance(p, Pathway)
        return {
            'sites': [key(s) for s in p.sites],
            'energy': [scalar(e) for e in p.energy],
            'dims': None if p.dims is None else (type(p.dims).__name__, tuple(int(i) for i in p.dims)),
            'total': scalar(p.total_energy),
        }

    def dump_paths(ps):
        return (type(ps).__name__, [dump_path(p) for p in ps])

    def run(tag, fn):
        rec = {'tag': tag}
        with warnings.catch_warnings(record=True) as w:
            warnings.simplefilter('always')
            try:
                rec['result'] = fn()
            except Exception as e:
                rec['error'] = (type(e).__name__, str(e))
        rec['warnings'] = [(x.category.__name__, str(x.message)) for x in w]
        records.append(rec)

    lats = [
        Lattice.cubic(5.0),
        Lattice.from_parameters(4.0, 5.5, 7.1, 75, 98, 112),  # triclinic
        Lattice.hexagonal(3.3, 9.1),
        Lattice.from_parameters(3.0, 9.5, 5.1, 90, 90, 90),
    ]
    q, _ = np.linalg.qr(rng.normal(size=(3, 3)))
    lats.append(Lattice(lats[1].matrix @ q))  # rotated triclinic

    def free_energy(dims, p_zero):
        dens = rng.random(dims) * rng.choice([1.0, 100.0])
        dens[rng.random(dims) < p_zero] = 0.0
        if not dens.any():
            dens.flat[rng.integers(dens.size)] = 1.0
        vol = Volume(data=dens, lattice=lats[int(rng.integers(len(lats)))])
        with warnings.catch_warnings():
            warnings.simplefilter('ignore')
            return dens, vol.get_free_energy(temperature=float(rng.uniform(100, 1500)))

    class Spy(FreeEnergyVolume):
        """Records how the default graph is requested (the hook must still be looked up on self)."""

        def free_energy_graph(self, **kwargs):
            self.calls = getattr(self, 'calls', []) + [sorted((k, repr(v)) for k, v in kwargs.items())]
            return super().free_energy_graph(**kwargs)

    for i in range(24):
        dims = tuple(int(d) for d in rng.integers(2, 6, size=3))
        dens, F = free_energy(dims, p_zero=[0.0, 0.3, 0.6][i % 3])
        visited = [tuple(int(j) for j in ix) for ix in np.argwhere(dens > 0)]
        unvisited = [tuple(int(j) for j in ix) for ix in np.argwhere(dens == 0)]
        a = visited[int(rng.integers(len(visited)))]
        b = visited[int(rng.integers(len(visited)))]
        method = ['dijkstra', 'bellman-ford', 'minmax-energy', 'dijkstra-exp', 'simple'][i % 5]

        # default graph (threshold 1e7 drops the never-visited voxels)
        run(f'{i}-default', lambda: dump_path(F.optimal_path(start=a, stop=b, method=method)))
        run(f'{i}-default-arrays', lambda: dump_path(F.optimal_path(start=np.array(a), stop=list(b))))
        run(f'{i}-n-default', lambda: dump_paths(F.optimal_n_paths(start=a, stop=b, n_paths=3, min_diff=0.0)))
        # explicit graphs: positional / keyword, looser threshold (unvisited voxels allowed), empty graph -> default
        with warnings.catch_warnings():
            warnings.simplefilter('ignore')  # exp overflow for the 1.8e308 voxels
            G_all = F.free_energy_graph(max_energy_threshold=float('inf'), diagonal=bool(i % 2))
            G_low = F.free_energy_graph(max_energy_threshold=float(np.sort(F.data, axis=None)[F.data.size // 2]) + 1e-9)
        run(f'{i}-explicit-all', lambda: dump_path(F.optimal_path(G_all, start=a, stop=b, method=method)))
        run(f'{i}-explicit-low', lambda: dump_path(F.optimal_path(F_graph=G_low, start=a, stop=b)))
        run(f'{i}-explicit-empty', lambda: dump_path(F.optimal_path(nx.Graph(), start=a, stop=b)))
        run(f'{i}-n-explicit', lambda: dump_paths(F.optimal_n_paths(G_all, start=a, stop=b, n_paths=2, min_diff=0.0)))
        run(f'{i}-n-explicit-empty', lambda: dump_paths(F.optimal_n_paths(F_graph=nx.Graph(), start=a, stop=b, n_paths=2, min_diff=0.0)))
        # a never-visited voxel is not in the default graph -> same error on both sides
        if unvisited:
            u = unvisited[int(rng.integers(len(unvisited)))]
            run(f'{i}-to-unvisited', lambda: dump_path(F.optimal_path(start=a, stop=u)))
            run(f'{i}-n-to-unvisited', lambda: dump_paths(F.optimal_n_paths(start=u, stop=a)))
            run(f'{i}-unvisited-explicit', lambda: dump_path(F.optimal_path(G_all, start=a, stop=u)))
            # the property: paths on the default graph never step on a never-visited voxel
            p = F.optimal_path(start=a, stop=b)
            records.append({'tag': f'{i}-avoids-unvisited', 'ok': not set(p.sites) & set(unvisited)})
        # bad keyword arguments
        run(f'{i}-bad-method', lambda: dump_path(F.optimal_path(start=a, stop=b, method='astar')))
        run(f'{i}-missing-kw', lambda: dump_path(F.optimal_path(start=a)))
        # subclass hook
        S = Spy(data=F.data, lattice=F.lattice)
        run(f'{i}-spy', lambda: (dump_path(S.optimal_path(start=a, stop=b)),
                                 dump_paths(S.optimal_n_paths(start=a, stop=b, n_paths=2, min_diff=0.0)),
                                 dump_path(S.optimal_path(G_all, start=a, stop=b)),
                                 S.calls))
        # percolation (uses the same cut-off on the tiled grid)
        peaks = np.array(visited)[rng.choice(len(visited), size=min(3, len(visited)), replace=False)]
        run(f'{i}-perc', lambda: dump_path(optimal_percolating_path(F, peaks=peaks, percolate='xyz'[i % 3])))
        run(f'{i}-perc-method', lambda: dump_path(F.optimal_percolating_path(peaks=peaks, percolate=['xy', 'yz', 'xyz'][i % 3])))
    dens, F = free_energy((3, 3, 3), 0.3)
    run('perc-undefined', lambda: dump_path(F.optimal_percolating_path(peaks=np.array([[0, 0, 0]]), percolate='')))
    run('perc-no-peaks', lambda: dump_path(F.optimal_percolating_path(peaks=np.empty((0, 3), dtype=int), percolate='x')))

    # energies between 1e7 and 1e20: in the full graph, outside the default one
    d = rng.uniform(0, 5, size=(3, 4, 3)); d[1, :, :] = 5e7; d[1, 2, 1] = 9999999.0; d[0, 0, 0] = 1e7
    F = FreeEnergyVolume(data=d, lattice=lats[1])
    run('cutoff-wall', lambda: dump_path(F.optimal_path(start=(0, 1, 1), stop=(2, 1, 1))))
    run('cutoff-wall-n', lambda: dump_paths(F.optimal_n_paths(start=(0, 1, 1), stop=(2, 1, 1), n_paths=2, min_diff=0.0)))
    run('cutoff-exact', lambda: dump_path(F.optimal_path(start=(0, 0, 0), stop=(2, 1, 1))))
    run('cutoff-wall-perc', lambda: dump_path(F.optimal_percolating_path(peaks=np.array([[0, 1, 1], [2, 2, 2]]), percolate='x')))

    # end-to-end from a synthetic trajectory (atoms cross the cell faces, triclinic cells)
    for i, lat in enumerate(lats):
        n_steps, n_li = 60, 3
        start = rng.random((1, n_li + 1, 3))
        walk = np.cumsum(rng.normal(scale=0.08, size=(n_steps, n_li + 1, 3)), axis=0)
        coords = np.mod(start + walk, 1.0)
        coords[:, -1, :] = start[0, -1, :]
        traj = gemdat.Trajectory(species=[Element('Li')] * n_li + [Element('S')], coords=coords, lattice=lat,
                                 time_step=1e-15, metadata={'temperature': 300 + 100 * i})
        vol = trajectory_to_volume(traj.filter('Li'), resolution=1.1)
        with warnings.catch_warnings():
            warnings.simplefilter('ignore')
            F = vol.get_free_energy(temperature=traj.metadata['temperature'])
        visited = [tuple(int(j) for j in ix) for ix in np.argwhere(vol.data > 0)]
        a, b = visited[0], visited[-1]
        run(f'traj{i}', lambda: dump_path(F.optimal_path(start=a, stop=b)))
        run(f'traj{i}-n', lambda: dump_paths(F.optimal_n_paths(start=a, stop=b, n_paths=2, min_diff=0.0)))
        run(f'traj{i}-perc', lambda: dump_path(F.optimal_percolating_path(peaks=np.array(visited[:4]), percolate='xyz'[i % 3])))

    with open(out, 'wb') as f:
        pickle.dump(records, f)


def main():
    results = []
    with tempfile.TemporaryDirectory() as td:
        for name, root in (('orig', ORIG), ('new', NEW)):
            out = os.path.join(td, name + '.pkl')
            env = dict(os.environ, PYTHONPATH=root, EXPECT_ROOT=root, PYTHONDONTWRITEBYTECODE='1')
            subprocess.run([sys.executable, os.path.abspath(__file__), 'worker', out], env=env, check=True, cwd=td)
            with open(out, 'rb') as f:
                results.append(pickle.load(f))
    a, b = results
    bad = 0
    if len(a) != len(b):
        print('different number of records', len(a), len(b))
        bad += 1
    for ra, rb in zip(a, b):
        if ra != rb:
            bad += 1
            print('DIFF', ra['tag'], {k: (ra.get(k), rb.get(k)) for k in set(ra) | set(rb) if ra.get(k) != rb.get(k)})
    errs = {}
    for r in a:
        if 'error' in r:
            errs[r['error'][0]] = errs.get(r['error'][0], 0) + 1
    prop = [r['ok'] for r in a if 'ok' in r]
    print(f'{len(a)} cases, identical error cases by type: {errs}, paths avoiding unvisited voxels: {sum(prop)}/{len(prop)}, {bad} differences')
    sys.exit(1 if bad else 0)


if __name__ == '__main__':
    if len(sys.argv) > 1 and sys.argv[1] == 'worker':
        worker(sys.argv[2])
    else:
        main()
