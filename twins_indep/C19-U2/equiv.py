"""Differential test for a behaviour-preserving refactoring (property C19, time partitioning).

The same deterministic, seeded work-load is executed twice in separate
interpreters:

* once against the ORIGINAL gemdat sources (`$GEMDAT_ORIG_SRC` if set, else the
  committed HEAD of the worktree exported with `git archive`, else /repo/src), and
* once against the REFACTORED sources in the worktree (/tmp/wtu_C19/src).

Every result (arrays, event tables incl. index / dtypes / column order,
trajectory frames, exception type + message) is pickled and compared exactly.
Exit status is non-zero on any difference.
"""

from __future__ import annotations

import os
import pickle
import subprocess
import sys
import tarfile
import tempfile
import io

WORKTREE = '/tmp/wtu_C19'
FOCUS = 'trajectory'  # which part of the work-load gets the most cases
N_CASES = 40


# --------------------------------------------------------------------------- worker
def _freeze_df(df):
    import numpy as np

    return {
        'columns': [str(c) for c in df.columns],
        'dtypes': [str(t) for t in df.dtypes],
        'index': np.asarray(df.index).tolist(),
        'values': df.to_numpy().tolist(),
    }


def _freeze_traj(traj):
    import numpy as np

    return {
        'n': len(traj),
        'coords': np.asarray(traj.positions).tobytes(),
        'shape': tuple(np.asarray(traj.positions).shape),
        'lattice': np.asarray(traj.get_lattice().matrix).tobytes(),
        'species': [str(s) for s in traj.species],
        'time_step': float(traj.time_step),
        'metadata': dict(traj.metadata),
    }


def _freeze_arr(arr):
    import numpy as np

    arr = np.asarray(arr)
    return (str(arr.dtype), arr.shape, arr.tobytes())


def _freeze_transitions(tr):
    return {
        'states': _freeze_arr(tr.states),
        'inner_states': _freeze_arr(tr.inner_states),
        'events': _freeze_df(tr.events),
        'trajectory': _freeze_traj(tr.trajectory),
        'diff_trajectory': _freeze_traj(tr.diff_trajectory),
        'n_sites': len(tr.sites),
    }


def _guard(func):
    import warnings

    try:
        with warnings.catch_warnings():
            warnings.simplefilter('ignore')
            return ('ok', func())
    except Exception as exc:  # noqa: BLE001
        return ('exc', type(exc).__name__, str(exc))


def _random_lattice(rng, kind):
    import numpy as np
    from pymatgen.core import Lattice

    if kind == 0:
        return Lattice.cubic(float(rng.uniform(6, 9)))
    if kind == 1:
        return Lattice.from_parameters(
            float(rng.uniform(6, 8)),
            float(rng.uniform(7, 9)),
            float(rng.uniform(8, 10)),
            float(rng.uniform(70, 110)),
            float(rng.uniform(70, 110)),
            float(rng.uniform(70, 110)),
        )
    # rotated triclinic cell: arbitrary orientation of the lattice vectors
    base = Lattice.from_parameters(7.0, 7.5, 8.0, 80.0, 95.0, 105.0).matrix
    q, _ = np.linalg.qr(rng.normal(size=(3, 3)))
    if np.linalg.det(q) < 0:
        q[:, 0] *= -1
    return Lattice(base @ q)


def _random_trajectory(rng, n_frames, kind, n_li=3, n_fixed=2, hop=True):
    """Hopping Li atoms (crossing cell faces) plus a fixed framework."""
    import numpy as np
    from pymatgen.core import Element, Structure

    from gemdat import Trajectory

    lattice = _random_lattice(rng, kind)
    site_frac = np.array(
        [
            [0.02, 0.02, 0.02],  # next to three cell faces
            [0.50, 0.02, 0.98],
            [0.50, 0.50, 0.50],
            [0.98, 0.50, 0.02],
        ]
    )
    sites = Structure(
        lattice, ['Li'] * len(site_frac), site_frac, labels=['Li1', 'Li1', 'Li2', 'Li2']
    )

    coords = np.empty((n_frames, n_li + n_fixed, 3))
    for atom in range(n_li):
        current = int(rng.integers(len(site_frac)))
        t = 0
        while t < n_frames:
            dwell = int(rng.integers(1, max(2, n_frames // 4)))
            between = hop and rng.random() < 0.3
            for tt in range(t, min(n_frames, t + dwell)):
                if between:
                    coords[tt, atom] = site_frac[current] + 0.25  # 'no site' state
                else:
                    coords[tt, atom] = site_frac[current] + rng.normal(scale=0.012, size=3)
            t += dwell
            if hop:
                current = int(rng.integers(len(site_frac)))
    for k in range(n_fixed):
        coords[:, n_li + k] = rng.random(3) + rng.normal(scale=0.003, size=(n_frames, 3))

    species = [Element('Li')] * n_li + [Element('S')] * n_fixed
    traj = Trajectory(
        species=species,
        coords=coords,
        lattice=lattice,
        time_step=float(rng.choice([1e-15, 2e-15])),
        metadata={'temperature': float(rng.choice([300, 650, 900]))},
    )
    return traj, sites


def _random_events(rng, n_states, n_events, n_atoms, n_sites, style):
    """Event table with events forced at the first and last possible frame."""
    import numpy as np
    import pandas as pd

    time = rng.integers(0, max(1, n_states - 1), size=n_events)
    if n_events >= 1:
        time[0] = 0
    if n_events >= 2:
        time[-1] = max(0, n_states - 2)
    if n_events >= 3:
        time[1] = n_states - 1
    if style % 3 != 1:
        time = np.sort(time)
    data = {
        'atom index': rng.integers(0, n_atoms, size=n_events),
        'start site': rng.integers(-1, n_sites, size=n_events),
        'destination site': rng.integers(-1, n_sites, size=n_events),
        'start inner site': rng.integers(-1, n_sites, size=n_events),
        'destination inner site': rng.integers(-1, n_sites, size=n_events),
        'time': time,
    }
    df = pd.DataFrame(data)
    if style % 3 == 2:
        df.index = rng.permutation(n_events) + 100  # non default index
    if style % 4 == 3:
        df['time'] = df['time'].astype(float)
    return df


def _case_events(rng, mod):
    """Direct calls of `_split_transitions_events`."""
    n_states = int(rng.integers(1, 60))
    n_events = int(rng.integers(0, 25))
    style = int(rng.integers(0, 12))
    events = _random_events(rng, n_states, n_events, 4, 5, style)
    snapshot = _freeze_df(events)
    out = []
    for n_parts in [-2, -1, 0, *range(1, n_events + 3)]:
        res = _guard(
            lambda n_parts=n_parts: [
                _freeze_df(p)
                for p in mod.transitions._split_transitions_events(events, n_states, n_parts)
            ]
        )
        out.append((n_parts, res))
    # alternative keys: split on one column, re-base several
    alt = events.rename(columns={'time': 'start time'})
    alt['stop time'] = alt['start time'] + 1
    for n_parts in range(1, min(n_events, 6) + 1):
        out.append(
            (
                'alt',
                n_parts,
                _guard(
                    lambda n_parts=n_parts: [
                        _freeze_df(p)
                        for p in mod.transitions._split_transitions_events(
                            alt,
                            n_states,
                            n_parts,
                            split_key='start time',
                            dependent_keys=['start time', 'stop time'],
                        )
                    ]
                ),
            )
        )
    # the input table must not be modified
    out.append(('input-unchanged', _freeze_df(events) == snapshot))
    return out


def _case_trajectory(rng, mod):
    """`Trajectory.split` for all n_parts, equal and unequal parts."""
    n_frames = int(rng.integers(1, 40))
    traj, _ = _random_trajectory(rng, n_frames, int(rng.integers(0, 3)), hop=False)
    out = []
    candidates = [-2, -1, 0, *range(1, min(n_frames + 2, 14)), n_frames + 5]
    for n_parts in candidates:
        for equal_parts in (False, True):
            res = _guard(
                lambda n_parts=n_parts, equal_parts=equal_parts: [
                    _freeze_traj(p) for p in traj.split(n_parts, equal_parts=equal_parts)
                ]
            )
            out.append((n_parts, equal_parts, res))
    out.append(('default', _guard(lambda: [_freeze_traj(p) for p in traj.split()])))
    return out


def _synthetic_transitions(rng, mod):
    """Transitions built directly from random state arrays."""
    import numpy as np

    n_frames = int(rng.integers(3, 50))
    traj, sites = _random_trajectory(rng, n_frames, int(rng.integers(0, 3)), hop=False)
    diff = traj.filter('Li')
    n_li = len(diff.species)
    states = np.repeat(
        rng.integers(-1, len(sites), size=(max(1, n_frames // 3) + 1, n_li)), 3, axis=0
    )[:n_frames]
    inner = np.where(rng.random(states.shape) < 0.3, -1, states)
    # make sure something happens at the very first and very last frame
    states[0] = (states[1] + 1) % len(sites)
    states[-1] = -1
    try:
        events = mod.transitions._calculate_transition_events(
            atom_sites=states, atom_inner_sites=inner
        )
    except ValueError:
        events = _random_events(rng, n_frames, 0, n_li, len(sites), 0)
    return mod.transitions.Transitions(
        sites=sites,
        trajectory=traj,
        diff_trajectory=diff,
        states=states,
        inner_states=inner,
        events=events,
    )


def _case_transitions(rng, mod):
    """`Transitions.split` on directly constructed transitions."""
    tr = _synthetic_transitions(rng, mod)
    n_events = len(tr.events)
    out = [('n_events', n_events)]
    candidates = [-1, 0, *range(1, min(n_events, 12) + 1), n_events, n_events + 1]
    for n_parts in candidates:
        out.append(
            (
                n_parts,
                _guard(lambda n_parts=n_parts: [_freeze_transitions(p) for p in tr.split(n_parts)]),
            )
        )
    out.append(('default', _guard(lambda: [_freeze_transitions(p) for p in tr.split()])))
    return out


def _case_jumps(rng, mod):
    """Full pipeline: from_trajectory -> Jumps -> split / rates / counters."""
    n_frames = int(rng.integers(30, 90))
    traj, sites = _random_trajectory(rng, n_frames, int(rng.integers(0, 3)), hop=True)
    radius = {'Li1': 0.9, 'Li2': 1.0} if rng.random() < 0.5 else 0.9
    tr = mod.Transitions.from_trajectory(
        trajectory=traj,
        sites=sites,
        floating_specie='Li',
        site_radius=radius,
        site_inner_fraction=float(rng.choice([1.0, 0.6])),
    )
    out = [('n_events', len(tr.events))]
    minimal_residence = int(rng.integers(0, 3))
    jumps_res = _guard(lambda: tr.jumps(minimal_residence=minimal_residence))
    if jumps_res[0] != 'ok':
        out.append(('jumps', jumps_res))
        return out
    jumps = jumps_res[1]
    out.append(('jumps', _freeze_df(jumps.data)))

    def split(n_parts):
        parts = jumps.split(n_parts)
        return [
            {
                'data': _freeze_df(p.data),
                'transitions': _freeze_transitions(p.transitions),
                'minimal_residence': p.minimal_residence,
                'method': p.conversion_method.__name__,
                'counter': sorted((k, int(v)) for k, v in p.counter().items()),
                'n_jumps': p.n_jumps,
            }
            for p in parts
        ]

    for n_parts in [0, 1, 2, 3, 5, len(tr.events), len(tr.events) + 1]:
        out.append((n_parts, _guard(lambda n_parts=n_parts: split(n_parts))))
    for n_parts in [1, 2, 3]:
        out.append(('rates', n_parts, _guard(lambda n_parts=n_parts: _freeze_df(jumps.rates(n_parts)))))
    return out


CASES = {
    'events': _case_events,
    'trajectory': _case_trajectory,
    'transitions': _case_transitions,
    'jumps': _case_jumps,
}


def _plan():
    """(kind, seed) list; the focus gets N_CASES cases, the rest a few each."""
    plan = []
    for kind in CASES:
        count = N_CASES if kind == FOCUS else 6
        if kind == 'jumps' and kind != FOCUS:
            count = 4
        plan += [(kind, 1000 * (i + 1) + len(kind)) for i in range(count)]
    return plan


def worker(expected_root, outfile):
    import types

    import numpy as np

    import gemdat
    import gemdat.jumps
    import gemdat.trajectory
    import gemdat.transitions

    real = os.path.realpath(gemdat.__file__)
    assert real.startswith(os.path.realpath(expected_root) + os.sep), (real, expected_root)

    mod = types.SimpleNamespace(
        transitions=gemdat.transitions,
        trajectory=gemdat.trajectory,
        jumps=gemdat.jumps,
        Transitions=gemdat.transitions.Transitions,
    )
    results = []
    for kind, seed in _plan():
        rng = np.random.default_rng(seed)
        results.append((kind, seed, _guard(lambda: CASES[kind](rng, mod))))
    with open(outfile, 'wb') as fh:
        pickle.dump(results, fh)


# --------------------------------------------------------------------------- driver
def _original_src(tmpdir):
    env_src = os.environ.get('GEMDAT_ORIG_SRC')
    if env_src:
        return env_src
    try:
        blob = subprocess.run(
            ['git', '-C', WORKTREE, 'archive', 'HEAD', 'src/gemdat'],
            check=True,
            capture_output=True,
        ).stdout
        with tarfile.open(fileobj=io.BytesIO(blob)) as tar:
            tar.extractall(tmpdir)
        return os.path.join(tmpdir, 'src')
    except Exception:  # noqa: BLE001
        return '/repo/src'


def _run(src, outfile):
    env = dict(os.environ)
    env['PYTHONPATH'] = src
    env['PYTHONDONTWRITEBYTECODE'] = '1'
    subprocess.run(
        [sys.executable, os.path.abspath(__file__), '--worker', src, outfile],
        check=True,
        env=env,
        cwd=tempfile.gettempdir(),
    )
    with open(outfile, 'rb') as fh:
        return pickle.load(fh)


def _first_difference(a, b, path=''):
    if type(a) is not type(b):
        return f'{path}: type {type(a).__name__} != {type(b).__name__}'
    if isinstance(a, dict):
        if list(a) != list(b):
            return f'{path}: keys {list(a)} != {list(b)}'
        for k in a:
            d = _first_difference(a[k], b[k], f'{path}.{k}')
            if d:
                return d
        return None
    if isinstance(a, (list, tuple)):
        if len(a) != len(b):
            return f'{path}: len {len(a)} != {len(b)}'
        for i, (x, y) in enumerate(zip(a, b)):
            d = _first_difference(x, y, f'{path}[{i}]')
            if d:
                return d
        return None
    if a != b and not (a != a and b != b):
        return f'{path}: {a!r} != {b!r}'
    return None


def main():
    with tempfile.TemporaryDirectory() as tmpdir:
        orig_src = _original_src(tmpdir)
        new_src = os.path.join(WORKTREE, 'src')
        orig = _run(orig_src, os.path.join(tmpdir, 'orig.pkl'))
        new = _run(new_src, os.path.join(tmpdir, 'new.pkl'))

    assert len(orig) == len(new) > 0
    n_bad = 0
    n_ok_cases = 0
    n_sub = 0
    for (kind, seed, res_o), (kind_n, seed_n, res_n) in zip(orig, new):
        assert (kind, seed) == (kind_n, seed_n)
        diff = _first_difference(res_o, res_n, f'{kind}#{seed}')
        if diff:
            n_bad += 1
            print('DIFFERENT', diff)
        else:
            n_ok_cases += 1
        if res_o[0] == 'ok':
            n_sub += len(res_o[1])
        else:
            print('note: case raised in the original too:', kind, seed, res_o[1:])
    print(f'original: {orig_src}')
    print(f'cases={len(orig)} identical={n_ok_cases} different={n_bad} sub-results={n_sub}')
    return 1 if n_bad else 0


if __name__ == '__main__':
    if len(sys.argv) > 1 and sys.argv[1] == '--worker':
        worker(sys.argv[2], sys.argv[3])
    else:
        sys.exit(main())
