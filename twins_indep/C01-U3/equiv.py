"""Differential test: original gemdat.trajectory vs. the refactored one in the worktree.

The ORIGINAL implementation is loaded under another module name
(``gemdat._orig_trajectory``) with importlib.  By default its source is the
untouched HEAD revision of the worktree (``git show HEAD:src/gemdat/trajectory.py``,
nothing is written into the worktree).  Set GEMDAT_ORIG_SRC=/path/to/src
(e.g. /repo/src) to read the original file from a source tree instead.

The REFACTORED implementation is the working-tree file, imported as
``gemdat.trajectory`` with the worktree's src on sys.path.

Every observable is compared bit-for-bit (type, dtype, shape, raw bytes);
exceptions must have the same type.  Exits non-zero on any difference.
"""

from __future__ import annotations

import importlib.util
import os
import subprocess
import sys
import tempfile

import numpy as np

WORKTREE = os.environ.get('GEMDAT_WORKTREE', '/tmp/wtu_C01')
REL = 'src/gemdat/trajectory.py'
sys.path.insert(0, os.path.join(WORKTREE, 'src'))

import gemdat  # noqa: E402  (refactored code, from the worktree)
from pymatgen.core import Element, Lattice, Species  # noqa: E402

assert os.path.realpath(gemdat.__file__).startswith(os.path.realpath(WORKTREE)), gemdat.__file__


def load_original():
    src = os.environ.get('GEMDAT_ORIG_SRC')
    if src:
        path = os.path.join(src, 'gemdat', 'trajectory.py')
    else:
        text = subprocess.check_output(['git', '-C', WORKTREE, 'show', f'HEAD:{REL}'])
        tmp = tempfile.NamedTemporaryFile('wb', suffix='_orig_trajectory.py', delete=False)
        tmp.write(text)
        tmp.close()
        path = tmp.name
    # loaded as a sub-module of the gemdat package so that relative imports resolve
    spec = importlib.util.spec_from_file_location('gemdat._orig_trajectory', path)
    mod = importlib.util.module_from_spec(spec)
    sys.modules[spec.name] = mod
    spec.loader.exec_module(mod)
    return mod


ORIG = load_original()
NEW = gemdat.trajectory
assert ORIG.Trajectory is not NEW.Trajectory

BOUNDARY = np.array(
    [0.0, -0.0, 1.0, -1.0, -1e-17, 1e-17, 1 - 1e-16, 1 + 1e-16, -1 + 1e-16, 2.0, -0.5, 0.5,
     -1e-300, 5e-324, 0.9999999999999999, 1.0000000000000002, 3 - 1e-16, -2 - 1e-17, 1e-9, -1e-9]
)
SYMBOLS = ['Li', 'Na', 'S', 'O', 'P']


def random_rotation(rng):
    q, r = np.linalg.qr(rng.normal(size=(3, 3)))
    q = q * np.sign(np.diag(r))
    if np.linalg.det(q) < 0:
        q[:, 0] = -q[:, 0]
    return q


def random_lattice(rng, kind):
    if kind == 'cubic':
        m = Lattice.cubic(rng.uniform(3, 12)).matrix
    elif kind == 'ortho':
        m = Lattice.orthorhombic(*rng.uniform(3, 12, size=3)).matrix
    elif kind == 'hex':
        m = Lattice.hexagonal(rng.uniform(3, 8), rng.uniform(3, 12)).matrix
    elif kind == 'triclinic':
        while True:
            al, be, ga = rng.uniform(55, 125, size=3)
            try:
                m = Lattice.from_parameters(*rng.uniform(3, 12, size=3), al, be, ga).matrix
                if np.all(np.isfinite(m)) and abs(np.linalg.det(m)) > 1:
                    break
            except Exception:
                pass
    elif kind == 'sheared':  # strongly triclinic, arbitrary orientation
        while True:
            m = rng.normal(size=(3, 3)) * rng.uniform(2, 8)
            m[1] += rng.uniform(-3, 3) * m[0]
            m[2] += rng.uniform(-3, 3) * m[0] + rng.uniform(-3, 3) * m[1]
            if abs(np.linalg.det(m)) > 1:
                break
    else:
        raise ValueError(kind)
    if rng.random() < 0.5:
        m = m @ random_rotation(rng)
    return np.array(m)


def make_case(rng, i):
    kind = ['cubic', 'ortho', 'hex', 'triclinic', 'sheared'][i % 5]
    lattice = random_lattice(rng, kind)
    n_frames = int(rng.integers(1, 14))
    n_atoms = int(rng.integers(1, 7))
    symbols = [SYMBOLS[int(k)] for k in rng.integers(0, len(SYMBOLS), size=n_atoms)]
    if i % 7 == 3:
        species = [Species(s, 1) if s in ('Li', 'Na') else Element(s) for s in symbols]
    else:
        species = [Element(s) for s in symbols]
    start = rng.uniform(-0.2, 1.2, size=(1, n_atoms, 3))
    steps = rng.normal(scale=rng.choice([0.01, 0.1, 0.35]), size=(n_frames, n_atoms, 3))
    coords = start + np.cumsum(steps, axis=0)
    # values on / within rounding distance of a cell face
    mask = rng.random(coords.shape) < 0.3
    coords[mask] = rng.choice(BOUNDARY, size=int(mask.sum()))
    if i % 4 == 1:  # per-coordinate whole-lattice shifts
        coords = coords + rng.integers(-3, 4, size=coords.shape)
    if i % 9 == 8:  # atoms pinned to faces for the whole run
        coords[:, 0, :] = rng.choice(BOUNDARY, size=3)
    kwargs = dict(species=species, coords=coords, lattice=lattice,
                  time_step=float(rng.choice([1e-15, 2e-15])), metadata={'temperature': 300})
    if i % 6 == 5:  # trajectory handed over as displacements + base positions
        kwargs['coords'] = rng.normal(scale=0.2, size=coords.shape)
        kwargs['coords'][0] = 0
        kwargs['coords_are_displacement'] = True
        kwargs['base_positions'] = coords[0]
    return kwargs, symbols


def fresh(mod, kwargs):
    kw = dict(kwargs)
    kw['coords'] = np.array(kwargs['coords'], copy=True)
    if 'base_positions' in kw:
        kw['base_positions'] = np.array(kw['base_positions'], copy=True)
    kw['metadata'] = dict(kwargs['metadata'])
    return mod.Trajectory(**kw)


def traj_state(t):
    return (np.array(t.coords), bool(t.coords_are_displacement), np.array(t.base_positions),
            [str(s) for s in t.species], np.array(t.get_lattice().matrix), t.time_step, dict(t.metadata))


def observables(symbols):
    present = symbols[0]
    others = sorted(set(symbols) - {present})
    obs = {
        'positions': lambda t: t.positions,
        'displacements': lambda t: t.displacements,
        'disp_then_pos': lambda t: (t.displacements, t.positions, t.displacements, t.positions),
        'pos_state': lambda t: (t.positions, traj_state(t)),
        'to_positions_twice': lambda t: (t.to_positions(), t.to_positions(), traj_state(t)),
        'cumulative': lambda t: t.cumulative_displacements,
        'distances': lambda t: t.distances_from_base_position(),
        'distances_after_pos': lambda t: (t.positions, t.distances_from_base_position(), traj_state(t)),
        'lengths': lambda t: sys.modules[type(t).__module__]._lengths(t.cumulative_displacements[-1], t.get_lattice()),
        'com': lambda t: traj_state(t.center_of_mass()),
        'com_pos': lambda t: t.center_of_mass().positions,
        'com_of_com': lambda t: t.center_of_mass().center_of_mass(),  # AssertionError in both
        'drift_all': lambda t: t.drift(),
        'drift_fixed': lambda t: t.drift(fixed_species=present),
        'drift_fixed_list': lambda t: t.drift(fixed_species=[present] + others[:1]),
        'drift_floating': lambda t: t.drift(floating_species=present),
        'drift_floating_list': lambda t: t.drift(floating_species=[present]),
        'drift_floating_tuple_absent': lambda t: t.drift(floating_species=('Xe',)),
        'drift_floating_substr': lambda t: t.drift(floating_species='LiNaS'),
        'drift_none_left': lambda t: t.drift(floating_species=list(set(symbols))),
        'filter_present': lambda t: traj_state(t.filter(present)),
        'filter_list': lambda t: traj_state(t.filter([present] + others[:1])),
        'filter_set': lambda t: traj_state(t.filter(set(symbols))),
        'filter_absent': lambda t: traj_state(t.filter('Xe')),
        'filter_absent_pos': lambda t: t.filter('Xe').positions,
        'filter_absent_disp': lambda t: t.filter('Xe').displacements,
        'filter_then_dist': lambda t: t.filter(present).distances_from_base_position(),
        'corrected': lambda t: traj_state(t.apply_drift_correction()),
        'corrected_fixed': lambda t: t.apply_drift_correction(fixed_species=present).positions,
        'corrected_floating': lambda t: t.apply_drift_correction(floating_species=present).cumulative_displacements,
        'corrected_dist': lambda t: t.apply_drift_correction().distances_from_base_position(),
        'msd': lambda t: t.mean_squared_displacement(),
        'split': lambda t: [traj_state(p) for p in t.split(3)],
        'split_equal_dist': lambda t: [p.distances_from_base_position() for p in t.split(2, equal_parts=True)],
        'slice_dist': lambda t: t[1:].distances_from_base_position(),
        'slice_empty_dist': lambda t: t[0:0].distances_from_base_position(),
        'repr': lambda t: repr(t),
    }
    return obs


def run(fn, t):
    try:
        with np.errstate(all='ignore'):
            return ('ok', fn(t))
    except Exception as exc:  # noqa: BLE001
        return ('exc', type(exc).__name__)


def same(a, b, path=''):
    """Return list of difference descriptions (empty if bit-identical)."""
    if isinstance(a, np.ndarray) or isinstance(b, np.ndarray):
        if type(a) is not type(b):
            return [f'{path}: type {type(a)} != {type(b)}']
        if a.dtype != b.dtype or a.shape != b.shape:
            return [f'{path}: dtype/shape {a.dtype}{a.shape} != {b.dtype}{b.shape}']
        if a.dtype == object:
            return [] if all(x == y for x, y in zip(a.ravel(), b.ravel())) else [f'{path}: object array differs']
        if np.ascontiguousarray(a).tobytes() != np.ascontiguousarray(b).tobytes():
            with np.errstate(all='ignore'):
                d = np.nanmax(np.abs(a.astype(float) - b.astype(float))) if a.size else 0
            return [f'{path}: values differ (max abs diff {d})']
        return []
    if isinstance(a, (list, tuple)) and isinstance(b, (list, tuple)):
        if type(a) is not type(b) or len(a) != len(b):
            return [f'{path}: sequence type/len differs']
        out = []
        for k, (x, y) in enumerate(zip(a, b)):
            out += same(x, y, f'{path}[{k}]')
        return out
    if isinstance(a, dict) and isinstance(b, dict):
        if a.keys() != b.keys():
            return [f'{path}: dict keys differ']
        out = []
        for k in a:
            out += same(a[k], b[k], f'{path}[{k!r}]')
        return out
    if isinstance(a, float) and isinstance(b, float):
        return [] if (a == b or (a != a and b != b)) else [f'{path}: {a} != {b}']
    if isinstance(a, ORIG.Trajectory) or isinstance(b, NEW.Trajectory):
        return same(traj_state(a), traj_state(b), path + '.state')
    return [] if (type(a) is type(b) and a == b) else [f'{path}: {a!r} != {b!r}']


def main():
    n_cases = int(os.environ.get('N_CASES', '60'))
    rng = np.random.default_rng(20261001)
    failures = []
    n_checks = 0
    n_exc = 0
    for i in range(n_cases):
        kwargs, symbols = make_case(rng, i)
        for name, fn in observables(symbols).items():
            ro = run(fn, fresh(ORIG, kwargs))
            rn = run(fn, fresh(NEW, kwargs))
            n_checks += 1
            n_exc += ro[0] == 'exc'
            diffs = same(ro, rn, f'case{i}.{name}')
            if diffs:
                failures += diffs
    # refactoring 3 specific: memory layout of the filtered coordinates, shared metadata
    # object, larger systems with several species, Species (oxidation states) input
    for j in range(24):
        kind = ['cubic', 'ortho', 'hex', 'triclinic', 'sheared'][j % 5]
        lattice = random_lattice(rng, kind)
        n_frames, n_atoms = int(rng.integers(2, 60)), int(rng.integers(5, 80))
        symbols = [SYMBOLS[int(k)] for k in rng.integers(0, len(SYMBOLS), size=n_atoms)]
        species = [Species(s, 1) if (j % 2 and s == 'Li') else Element(s) for s in symbols]
        coords = rng.uniform(-1, 2, size=(1, n_atoms, 3)) + np.cumsum(
            rng.normal(scale=0.2, size=(n_frames, n_atoms, 3)), axis=0)
        coords = coords + rng.integers(-2, 3, size=coords.shape)
        kwargs = dict(species=species, coords=coords, lattice=lattice, time_step=1e-15,
                      metadata={'temperature': 300 + j})

        def layout(a):
            return (a.shape, a.strides, a.flags['C_CONTIGUOUS'], a.flags['F_CONTIGUOUS'], str(a.dtype))

        def meta_shared(t, new):
            return new.metadata is t.metadata

        checks = {
            'filter_layout': lambda t: layout(t.filter('Li').coords),
            'filter_layout_multi': lambda t: layout(t.filter(['S', 'O', 'Xe']).coords),
            'filter_layout_empty': lambda t: layout(t.filter('Xe').coords),
            'filter_meta': lambda t: meta_shared(t, t.filter('Li')),
            'com_meta': lambda t: meta_shared(t, t.center_of_mass()),
            'corr_meta': lambda t: meta_shared(t, t.apply_drift_correction(floating_species='Li')),
            'filter_species_types': lambda t: [type(s).__name__ for s in t.filter(['Li', 'P']).species],
            'filter_str_substring': lambda t: traj_state(t.filter('NaSO')),  # str is wrapped in a list -> no match
            'drift_layout': lambda t: layout(t.drift(floating_species='Li')),
            'drift_both': lambda t: t.drift(fixed_species='S', floating_species='Li'),
            'drift_empty_fixed_list': lambda t: t.drift(fixed_species=[], floating_species=['Li', 'Na']),
            'drift_empty_both': lambda t: t.drift(fixed_species='', floating_species=()),
            'drift_array_arg': lambda t: t.drift(fixed_species=np.array(['S', 'O'])),  # ambiguous truth value
            'corr_state_fixed': lambda t: traj_state(t.apply_drift_correction(fixed_species=['S', 'O', 'P'])),
            'corr_state_floating': lambda t: traj_state(t.apply_drift_correction(floating_species='Li')),
            'corr_self_state': lambda t: (t.apply_drift_correction(floating_species='Li'), traj_state(t))[1],
            'corr_self_state_all': lambda t: (t.apply_drift_correction(), traj_state(t))[1],
            'com_state': lambda t: traj_state(t.center_of_mass()),
            'com_self_state': lambda t: (t.center_of_mass(), traj_state(t))[1],
            'filter_self_state': lambda t: (t.filter('Li'), traj_state(t))[1],
            'com_after_corr': lambda t: t.apply_drift_correction(fixed_species='S').center_of_mass().positions,
            'msd_filtered': lambda t: t.filter('Li').mean_squared_displacement(),
        }
        for name, fn in checks.items():
            ro = run(fn, fresh(ORIG, kwargs))
            rn = run(fn, fresh(NEW, kwargs))
            n_checks += 1
            n_exc += ro[0] == 'exc'
            failures += same(ro, rn, f'multi{j}.{name}')

    # range property sanity on the refactored code (positions in [0, 1))
    for i in range(n_cases):
        kwargs, _ = make_case(rng, i)
        p = fresh(NEW, kwargs).positions
        if not (np.all(p >= 0) and np.all(p < 1)):
            failures.append(f'case{i}: refactored positions outside [0, 1)')
    print(f'cases={n_cases} checks={n_checks} (of which raising in both: {n_exc}) failures={len(failures)}')
    for f in failures[:40]:
        print('  DIFF', f)
    return 1 if failures else 0


if __name__ == '__main__':
    sys.exit(main())
