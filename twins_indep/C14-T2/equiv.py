"""Differential test for refactoring C14/2.

Refactored: the scalar formulas of TrajectoryMetrics (metrics.py): particle_density, mol_per_liter,
            tracer_diffusivity, tracer_diffusivity_center_of_mass, haven_ratio, tracer_conductivity
            and attempt_frequency (temporaries introduced / inlined, operands swapped, statements
            reordered, np.mean(x**2) -> np.square(x).mean(), np.mean/np.std -> .mean()/.std()).

The script runs itself twice as a worker, once with PYTHONPATH=/repo/src (original) and once
with PYTHONPATH=/tmp/wtt_C14/src (refactored), on the same randomised inputs and compares
every result.  Exit status 0 <=> all results agree (bit-identical, or within 1e-12 relative).
"""
import os
import pickle
import subprocess
import sys

import numpy as np

ORIG = '/repo/src'
NEW = os.environ.get('TWIN_SRC', '/tmp/wtt_C14/src')
N_CASES = 40


def random_lattice(rng, kind):
    from pymatgen.core import Lattice
    if kind == 0:
        return Lattice.cubic(rng.uniform(1.0, 12.0))
    if kind == 1:
        return Lattice.orthorhombic(*rng.uniform(2.0, 12.0, 3))
    if kind == 2:
        return Lattice.from_parameters(*rng.uniform(3.0, 11.0, 3), *rng.uniform(60.0, 120.0, 3))
    # rotated triclinic: random rotation of a general cell
    base = Lattice.from_parameters(*rng.uniform(3.0, 11.0, 3), *rng.uniform(70.0, 110.0, 3)).matrix
    q, _ = np.linalg.qr(rng.normal(size=(3, 3)))
    return Lattice(base @ q)


def random_trajectory(seed):
    from pymatgen.core import Element, Species
    from gemdat import Trajectory
    rng = np.random.default_rng(seed)
    lattice = random_lattice(rng, seed % 4)
    n_atoms = int(rng.integers(1, 7))
    n_frames = int(rng.integers(6, 70))
    pool = [Element('Li'), Element('Na'), Element('S'), Element('P'), Species('Li', 1), Element('O')]
    species = [pool[int(i)] for i in rng.integers(0, len(pool), n_atoms)]
    step = rng.choice([0.005, 0.05, 0.3])  # large steps make atoms cross cell faces
    steps = rng.normal(scale=step, size=(n_frames, n_atoms, 3))
    mode = seed % 7
    if mode == 1:  # one atom does not move at all -> speeds of exactly zero
        steps[:, 0, :] = 0.0
    elif mode == 2:  # all atoms move identically
        steps[:] = steps[:, :1, :]
    elif mode == 3:  # atom stands still for a while in the middle (sign == 0 stretches)
        steps[n_frames // 3: n_frames // 2] = 0.0
    elif mode == 4:  # monotonous drift, (almost) no sign flips
        steps = np.abs(steps) * 0.1
    elif mode == 5:  # atom oscillating between two positions
        steps[:, 0, :] = 0.0
        steps[1::2, 0, 0] = 0.1
        steps[2::2, 0, 0] = -0.1
    start = rng.uniform(0.0, 1.0, size=(1, n_atoms, 3))
    if seed % 5 == 0:
        start[0, 0] = [0.0, 0.999999, 0.5]  # sits on a cell face
    coords = np.mod(start + np.cumsum(steps, axis=0), 1.0)
    return Trajectory(
        species=species,
        coords=coords,
        lattice=lattice,
        time_step=float(rng.choice([1e-15, 2e-15, 5.5e-16, 1.0])),
        metadata={'temperature': float(rng.uniform(1.0, 1500.0))},
    )


def guarded(fn):
    try:
        return fn()
    except Exception as exc:  # exceptions must agree as well
        return ('EXC', type(exc).__name__)


def unit_value(v):
    """Value and unit string of a FloatWithUnit (the unit is part of the observable result)."""
    return (np.float64(float(v)), np.array(str(getattr(v, 'unit', 'no-unit'))), np.array(type(v).__name__))


def worker():
    from gemdat.metrics import TrajectoryMetrics, TrajectoryMetricsStd
    out = {}
    for seed in range(N_CASES):
        traj = random_trajectory(seed)
        rng = np.random.default_rng(5000 + seed)
        m = TrajectoryMetrics(traj)
        out[seed, 'particle_density'] = guarded(lambda: unit_value(m.particle_density()))
        out[seed, 'mol_per_liter'] = guarded(lambda: unit_value(m.mol_per_liter()))
        out[seed, 'attempt_frequency'] = guarded(
            lambda: sum((unit_value(v) for v in m.attempt_frequency()), ()))
        out[seed, 'tracer_diffusivity default'] = guarded(lambda: unit_value(m.tracer_diffusivity()))
        out[seed, 'haven default'] = guarded(lambda: unit_value(m.haven_ratio()))
        for dim in (1, 2, 3, 2.5, 0):
            out[seed, 'tracer_diffusivity', dim] = guarded(
                lambda: unit_value(m.tracer_diffusivity(dimensions=dim)))
            out[seed, 'tracer_diffusivity_com', dim] = guarded(
                lambda: unit_value(m.tracer_diffusivity_center_of_mass(dimensions=dim)))
            out[seed, 'haven', dim] = guarded(lambda: unit_value(m.haven_ratio(dimensions=dim)))
            for z in (1, -1, 2, 3, -2, 1.5, 0):
                out[seed, 'tracer_conductivity', dim, z] = guarded(
                    lambda: unit_value(m.tracer_conductivity(z_ion=z, dimensions=dim)))
        out[seed, 'tracer_conductivity default dim'] = guarded(
            lambda: unit_value(m.tracer_conductivity(z_ion=int(rng.integers(1, 4)))))
        # one species only (a selection), and a selection that matches nothing
        for sel in ('Li', 'Na', 'Xe'):
            sub = guarded(lambda: traj.filter(sel))
            if isinstance(sub, tuple):
                out[seed, 'filter', sel] = sub
                continue
            ms = TrajectoryMetrics(sub)
            out[seed, sel, 'particle_density'] = guarded(lambda: unit_value(ms.particle_density()))
            out[seed, sel, 'mol_per_liter'] = guarded(lambda: unit_value(ms.mol_per_liter()))
            out[seed, sel, 'tracer_diffusivity'] = guarded(lambda: unit_value(ms.tracer_diffusivity(dimensions=2)))
            out[seed, sel, 'tracer_conductivity'] = guarded(
                lambda: unit_value(ms.tracer_conductivity(z_ion=2, dimensions=3)))
            out[seed, sel, 'haven'] = guarded(lambda: unit_value(ms.haven_ratio()))
            out[seed, sel, 'attempt_frequency'] = guarded(
                lambda: sum((unit_value(v) for v in ms.attempt_frequency()), ()))
        # mean / standard deviation over sub-trajectories
        if len(traj) >= 20:
            for equal in (True, False):
                parts = traj.split(int(rng.integers(2, 5)), equal_parts=equal)
                mstd = TrajectoryMetricsStd(parts)
                out[seed, 'std.tracer_diffusivity', equal] = guarded(
                    lambda: (lambda v: (v.n, v.s))(mstd.tracer_diffusivity(dimensions=3)))
                out[seed, 'std.tracer_conductivity', equal] = guarded(
                    lambda: (lambda v: (v.n, v.s))(mstd.tracer_conductivity(z_ion=2, dimensions=2)))
        # missing temperature -> the same exception must be raised
        traj_no_t = traj[:]
        traj_no_t.metadata = {}
        out[seed, 'no temperature'] = guarded(
            lambda: unit_value(TrajectoryMetrics(traj_no_t).tracer_conductivity(z_ion=1)))
        # temperature that cannot be multiplied
        traj_bad_t = traj[:]
        traj_bad_t.metadata = {'temperature': None}
        out[seed, 'bad temperature'] = guarded(
            lambda: unit_value(TrajectoryMetrics(traj_bad_t).tracer_conductivity(z_ion=1)))
    sys.stdout.buffer.write(pickle.dumps(out))


def flatten(value):
    if isinstance(value, tuple) and value and isinstance(value[0], str):
        return value
    if isinstance(value, tuple):
        return [np.asarray(v) for v in value]
    return [np.asarray(value)]


def same(a, b):
    """Return (equal, bit_identical)."""
    fa, fb = flatten(a), flatten(b)
    if isinstance(fa, tuple) or isinstance(fb, tuple):
        return fa == fb, fa == fb
    if len(fa) != len(fb):
        return False, False
    bit = True
    for x, y in zip(fa, fb):
        if x.shape != y.shape or x.dtype != y.dtype:
            return False, False
        if x.dtype.kind in 'USO':
            if not np.array_equal(x, y):
                return False, False
            continue
        if not np.array_equal(x, y, equal_nan=True):
            bit = False
            if not np.allclose(x, y, rtol=1e-12, atol=0.0, equal_nan=True):
                return False, False
    return True, bit


def run(src):
    env = dict(os.environ, PYTHONPATH=src)
    proc = subprocess.run([sys.executable, __file__, '--worker'], env=env, capture_output=True)
    if proc.returncode != 0:
        sys.stderr.write(proc.stderr.decode())
        raise SystemExit(f'worker failed for {src}')
    return pickle.loads(proc.stdout)


def main():
    ref, new = run(ORIG), run(NEW)
    bad, inexact = [], 0
    if ref.keys() != new.keys():
        bad.append('key sets differ')
    for key in ref:
        ok, bit = same(ref[key], new.get(key))
        if not ok:
            bad.append(key)
        elif not bit:
            inexact += 1
    n_exc = sum(1 for v in ref.values() if isinstance(v, tuple) and v and isinstance(v[0], str))
    print(f'cases={N_CASES} compared={len(ref)} (of which exceptions={n_exc}) '
          f'not-bit-identical-but-within-1e-12={inexact} mismatches={len(bad)}')
    for key in bad[:20]:
        print('  MISMATCH', key, ref.get(key) if not isinstance(key, str) else '', new.get(key) if not isinstance(key, str) else '')
    sys.exit(1 if bad else 0)


if __name__ == '__main__':
    if '--worker' in sys.argv:
        worker()
    else:
        main()
