"""Differential test for refactoring 1 (Volume.get_free_energy as a pipeline of private stages).

Runs the same randomised workload once against the ORIGINAL code (PYTHONPATH=/repo/src, read-only)
and once against the refactored worktree (PYTHONPATH=/tmp/wtu_C09/src) in sub-processes and
compares the pickled results byte for byte. Exits non-zero on any difference.
"""
import os
import pickle
import subprocess
import sys
import tempfile

ORIG = '/repo/src'
NEW = '/tmp/wtu_C09/src'


def enc(a):
    import numpy as np
    a = np.asarray(a)
    return (str(a.dtype), a.shape, a.tobytes())


def worker(out):
    import warnings

    import numpy as np
    from pymatgen.core import Lattice
    from pymatgen.core.periodic_table import Element

    import gemdat
    from gemdat.volume import FreeEnergyVolume, Volume, trajectory_to_volume

    assert gemdat.__file__.startswith(os.environ['EXPECT_ROOT']), gemdat.__file__
    rng = np.random.default_rng(20261001)
    records = []

    def lattices():
        yield Lattice.cubic(5.0)
        yield Lattice.from_parameters(4.0, 5.5, 7.1, 90, 90, 90)
        yield Lattice.from_parameters(4.0, 5.5, 7.1, 75, 98, 112)  # triclinic
        yield Lattice.hexagonal(3.3, 9.1)
        # rotated triclinic cell
        m = Lattice.from_parameters(6.0, 6.5, 5.1, 80, 95, 105).matrix
        q, _ = np.linalg.qr(rng.normal(size=(3, 3)))
        yield Lattice(m @ q)

    lats = list(lattices())

    def run(data, lattice, temperature, tag):
        rec = {'tag': tag}
        with warnings.catch_warnings(record=True) as w:
            warnings.simplefilter('always')
            try:
                vol = Volume(data=data, lattice=lattice, label='density')
                fe = vol.get_free_energy(temperature=temperature)
                rec['type'] = type(fe).__name__
                rec['is_fev'] = isinstance(fe, FreeEnergyVolume)
                rec['data'] = enc(fe.data)
                rec['dims'] = tuple(fe.dims)
                rec['label'] = fe.label
                rec['units'] = repr(fe.units)
                rec['lattice'] = enc(fe.lattice.matrix)
                rec['same_lattice'] = fe.lattice is lattice
                rec['input_untouched'] = enc(vol.data)
                rec['finite'] = bool(np.isfinite(fe.data).all())
                # the property itself: exp(-F/kT) recovers p on visited voxels
                kT = 8.617333262e-05 * float(np.asarray(temperature).ravel()[0])
                rec['back'] = enc(np.exp(-fe.data / kT))
            except Exception as e:  # error paths must agree as well
                rec['error'] = (type(e).__name__, str(e))
        rec['warnings'] = [(x.category.__name__, str(x.message)) for x in w]
        records.append(rec)

    # 1. random densities on non-cubic grids, many zeros, random temperatures
    for i in range(30):
        dims = tuple(rng.integers(1, 9, size=3))
        data = rng.random(dims) * rng.choice([1e-12, 1.0, 1e6, 1e300])
        data[rng.random(dims) < rng.random()] = 0.0
        if not data.any():
            data.flat[rng.integers(data.size)] = 1.0
        T = float(rng.uniform(1e-3, 3000))
        run(data, lats[i % len(lats)], T, f'rand{i}')

    # 2. integer counts (as produced by histogramming), integer / numpy temperatures
    for i in range(10):
        dims = tuple(rng.integers(2, 7, size=3))
        data = rng.poisson(0.7, size=dims)
        if not data.any():
            data[0, 0, 0] = 3
        T = [300, np.float32(512.5), np.float64(77.0), np.int64(650), 1][i % 5]
        run(data.astype([np.int64, np.int32, np.uint16][i % 3]), lats[i % len(lats)], T, f'int{i}')

    # 3. float32 volumes, denormals, single visited voxel, uniform volume, 1x1x1
    d = np.zeros((3, 4, 5)); d[1, 2, 3] = 7.0
    run(d, lats[2], 300.0, 'single')
    run(np.ones((2, 3, 4)), lats[3], 1000.0, 'uniform')
    run(np.array([[[5.0]]]), lats[0], 1.0, 'one')
    run(rng.random((4, 4, 3)).astype(np.float32), lats[4], 650.0, 'f32')
    d = rng.random((3, 3, 3)) * 5e-324 * 4; d[0, 0, 0] = 1.0
    run(d, lats[1], 300.0, 'denormal')
    d = rng.random((3, 3, 3)); d[0, 0, 0] = 1e308; d[0, 0, 1] = 1e308
    run(d, lats[1], 300.0, 'overflowing-sum')

    # 4. outside the quantifier, still has to agree: all zero, negative, nan, inf, T<=0, array T, bad T
    run(np.zeros((2, 2, 2)), lats[0], 300.0, 'allzero')
    d = rng.normal(size=(3, 3, 3)); run(d, lats[2], 300.0, 'negative')
    d = rng.random((3, 3, 3)); d[1, 1, 1] = np.nan; run(d, lats[2], 300.0, 'nan')
    d = rng.random((3, 3, 3)); d[1, 1, 1] = np.inf; run(d, lats[2], 300.0, 'inf')
    run(rng.random((3, 3, 3)), lats[0], 0.0, 'T0')
    run(rng.random((3, 3, 3)), lats[0], -20.0, 'Tneg')
    run(rng.random((3, 3, 3)), lats[0], np.array([100.0, 200.0, 300.0]), 'Tarray')
    run(rng.random((3, 3, 3)), lats[0], 'hot', 'Tstr')
    run(rng.random((3, 3, 3)), lats[0], None, 'Tnone')
    d = np.zeros((2, 2, 2)); d[0, 0, 0] = 1
    run(d, lats[0], 'hot', 'Tstr-with-zeros')

    # 5. end-to-end: density from a synthetic trajectory whose atoms cross the cell faces
    for i, lat in enumerate(lats):
        n_steps, n_li = 40, 3
        start = rng.random((1, n_li + 1, 3))
        walk = np.cumsum(rng.normal(scale=0.08, size=(n_steps, n_li + 1, 3)), axis=0)
        coords = np.mod(start + walk, 1.0)
        coords[:, -1, :] = start[0, -1, :]
        traj = gemdat.Trajectory(
            species=[Element('Li')] * n_li + [Element('S')],
            coords=coords,
            lattice=lat,
            time_step=1e-15,
            metadata={'temperature': 300 + 100 * i},
        )
        vol = trajectory_to_volume(traj.filter('Li'), resolution=0.9)
        run(vol.data, vol.lattice, traj.metadata['temperature'], f'traj{i}')

    # 6. subclass hooks keep being honoured (probability() is looked up on self)
    class Shifted(Volume):
        def probability(self):
            return (self.data + 1.0) / (self.data + 1.0).sum()

    with warnings.catch_warnings(record=True) as w:
        warnings.simplefilter('always')
        d = np.zeros((2, 3, 2)); d[1, 1, 1] = 4
        fe = Shifted(data=d, lattice=lats[2]).get_free_energy(temperature=420.0)
        records.append({'tag': 'subclass', 'data': enc(fe.data), 'type': type(fe).__name__,
                        'warnings': [(x.category.__name__, str(x.message)) for x in w]})

    with open(out, 'wb') as f:
        pickle.dump(records, f)


def main():
    results = []
    with tempfile.TemporaryDirectory() as td:
        for name, root in (('orig', ORIG), ('new', NEW)):
            out = os.path.join(td, name + '.pkl')
            env = dict(os.environ, PYTHONPATH=root, EXPECT_ROOT=root, PYTHONDONTWRITEBYTECODE='1')
            subprocess.run([sys.executable, os.path.abspath(__file__), 'worker', out], env=env, check=True, cwd=td)
            with open(out, 'rb') as f:
                results.append(pickle.load(f))
    a, b = results
    bad = 0
    if len(a) != len(b):
        print('different number of records', len(a), len(b))
        bad += 1
    for ra, rb in zip(a, b):
        if ra != rb:
            bad += 1
            print('DIFF', ra['tag'], [k for k in set(ra) | set(rb) if ra.get(k) != rb.get(k)])
    n_ok = sum('error' not in r for r in a)
    print(f'{len(a)} cases ({n_ok} without error), {bad} differences')
    sys.exit(1 if bad else 0)


if __name__ == '__main__':
    if len(sys.argv) > 1 and sys.argv[1] == 'worker':
        worker(sys.argv[2])
    else:
        main()
