"""Differential test: free_energy_graph (original /repo/src vs refactored /tmp/wtw_C10/src)."""
import importlib.util
import sys

sys.path.insert(0, '/tmp/wtw_C10/src')
import numpy as np
import networkx as nx
import gemdat  # noqa: F401  (worktree package, needed for relative imports)
from gemdat import path as new

spec = importlib.util.spec_from_file_location('gemdat._orig_path', '/repo/src/gemdat/path.py')
old = importlib.util.module_from_spec(spec)
sys.modules['gemdat._orig_path'] = old
spec.loader.exec_module(old)
assert old.__file__.startswith('/repo/') and new.__file__.startswith('/tmp/wtw_C10/')

from pymatgen.core import Lattice
from gemdat.volume import FreeEnergyVolume

fails = 0


def same_scalar(a, b):
    return type(a) is type(b) and (a == b or (a != a and b != b))


def graph_sig(G):
    nodes = [(n, tuple(type(c) for c in n), sorted(d.items())) for n, d in G.nodes(data=True)]
    adj = []
    for u, nbrs in G.adjacency():
        row = []
        for v, d in nbrs.items():
            row.append((v, tuple(type(c).__name__ for c in v),
                        tuple((k, type(x).__name__, float(x)) for k, x in d.items())))
        adj.append((u, row))
    return nodes, adj


def compare(data, **kw):
    global fails
    try:
        a = old.free_energy_graph(data, **kw)
        ea = None
    except Exception as e:  # noqa: BLE001
        a, ea = None, type(e)
    try:
        b = new.free_energy_graph(data, **kw)
        eb = None
    except Exception as e:  # noqa: BLE001
        b, eb = None, type(e)
    if ea or eb:
        if ea != eb:
            fails += 1
            print('exception mismatch', ea, eb)
        return None, None
    if graph_sig(a) != graph_sig(b):
        fails += 1
        print('graph mismatch', getattr(data, 'shape', None), kw)
    return a, b


rng = np.random.default_rng(1234)
n_cases = 0
for i in range(40):
    shape = tuple(int(x) for x in rng.integers(1, 6, size=3))
    data = rng.uniform(-1.0, 6.0, size=shape)
    if i % 4 == 0:
        data[rng.random(shape) < 0.2] = np.nan
    if i % 5 == 0:
        data[rng.random(shape) < 0.2] = np.inf
    if i % 7 == 0:
        data = np.round(data)  # many ties, exact zeros
    if i % 9 == 0:
        data = data * 200  # exp overflow -> capped weight_exp
    thr = [1e20, 1e7, 4.0, 2.5, 0.0, np.inf][i % 6]
    diagonal = bool(i % 2)
    F = data
    if i % 3 == 0:
        lat = Lattice.from_parameters(3 + rng.random(), 4 + rng.random(), 5 + rng.random(),
                                      60 + 50 * rng.random(), 70 + 30 * rng.random(), 80 + 30 * rng.random())
        F = FreeEnergyVolume(data=data, lattice=lat)
    a, b = compare(F, max_energy_threshold=thr, diagonal=diagonal)
    n_cases += 1
    if a is None or a.number_of_nodes() < 2:
        continue
    nodes = list(a.nodes)
    for _ in range(3):
        s = nodes[int(rng.integers(len(nodes)))]
        t = nodes[int(rng.integers(len(nodes)))]
        for method in ('dijkstra', 'bellman-ford', 'dijkstra-exp', 'simple', 'minmax-energy'):
            res = []
            for mod, G in ((old, a), (new, b)):
                try:
                    p = mod.optimal_path(G, start=s, stop=t, method=method)
                    res.append((p.sites, [type(c).__name__ for x in p.sites for c in x], [float(e) for e in p.energy]))
                except nx.NetworkXNoPath:
                    res.append('nopath')
            if res[0] != res[1]:
                fails += 1
                print('path mismatch', shape, method, s, t)

# defaults and integer-valued grids
compare(np.arange(24).reshape(2, 3, 4))
compare(np.zeros((3, 3, 3)))
compare(np.full((2, 2, 2), -1.0))
compare(np.zeros((0, 2, 2)))
compare(np.zeros((3, 3)))  # wrong dimensionality: both must fail alike (or agree)
n_cases += 5

print(f'cases={n_cases} fails={fails}')
sys.exit(1 if fails else 0)
