"""Differential test: original (/repo/src) vs refactored (/tmp/wtw_C05/src) GEMDAT.

The same worker code is run in two subprocesses with different PYTHONPATH; each pickles a dict of
results which the parent compares (exact for ints / strings, 1e-12 relative for floats).
"""
import os, pickle, subprocess, sys, tempfile

ORIG = '/repo/src'
NEW = os.environ.get('TWIN_SRC', '/tmp/wtw_C05/src')
N_CASES = 30


def build_case(seed):
    import numpy as np
    from pymatgen.core import Lattice, Structure, Element
    from gemdat import Trajectory

    rng = np.random.default_rng(seed)
    kind = seed % 4
    if kind == 0:
        lattice = Lattice.cubic(rng.uniform(5, 7))
    elif kind == 1:
        lattice = Lattice.from_parameters(rng.uniform(5, 7), rng.uniform(5, 7), rng.uniform(5, 8),
                                          rng.uniform(70, 110), rng.uniform(70, 110), rng.uniform(60, 120))
    else:
        # triclinic and arbitrarily rotated cell
        base = Lattice.from_parameters(rng.uniform(5, 7), rng.uniform(5, 7), rng.uniform(5, 8),
                                       rng.uniform(75, 105), rng.uniform(75, 105), rng.uniform(65, 115)).matrix
        q, _ = np.linalg.qr(rng.normal(size=(3, 3)))
        lattice = Lattice(base @ q)
    # sites on a 2x2x2 grid (some near the cell faces), two labels
    grid = np.array([[i, j, k] for i in (0.02, 0.52) for j in (0.02, 0.52) for k in (0.02, 0.52)], dtype=float)
    n_sites = int(rng.integers(3, 9))
    site_coords = grid[rng.permutation(8)[:n_sites]]
    labels = ['A' if rng.random() < 0.5 else 'B' for _ in range(n_sites)]
    sites = Structure(lattice, ['Li'] * n_sites, site_coords, labels=labels)

    n_atoms = int(rng.integers(1, 5))
    n_frames = int(rng.integers(40, 200))
    pos = np.zeros((n_frames, n_atoms, 3))
    for a in range(n_atoms):
        cur = int(rng.integers(n_sites))
        t = 0
        while t < n_frames:
            stay = int(rng.integers(1, 25))
            mode = rng.random()
            for tt in range(t, min(t + stay, n_frames)):
                if mode < 0.2:      # 'no site' state: far from every site
                    pos[tt, a] = site_coords[cur] + 0.25
                else:
                    pos[tt, a] = site_coords[cur] + rng.normal(scale=0.004, size=3)
            t += stay
            cur = int(rng.integers(n_sites))
    # cross the cell faces: wrap or shift by lattice vectors
    if seed % 2:
        pos = pos % 1.0
    else:
        pos = pos + rng.integers(-1, 2, size=(1, n_atoms, 3))
    n_frame_atoms = 2
    frame_pos = np.tile(rng.random((1, n_frame_atoms, 3)), (n_frames, 1, 1))
    coords = np.concatenate([pos, frame_pos], axis=1)
    species = [Element('Li')] * n_atoms + [Element('S')] * n_frame_atoms
    traj = Trajectory(species=species, coords=coords, lattice=lattice, time_step=1e-15 * rng.uniform(1, 3),
                      metadata={'temperature': 300 + 100 * (seed % 3)})
    return traj, sites, rng


def rec(fn):
    import numpy as np
    import warnings
    try:
        with warnings.catch_warnings():
            warnings.simplefilter('ignore')
            return ('ok', fn())
    except Exception as e:  # same exception type+message expected from both trees
        return ('exc', type(e).__name__, str(e))


def worker(out):
    import numpy as np
    import pandas as pd
    from gemdat.transitions import (Transitions, _calculate_transitions_matrix, _calculate_transition_events, NOSITE)
    res = {}
    cols = ['atom index', 'start site', 'destination site', 'start inner site', 'destination inner site', 'time']

    # --- unit level: matrix from random event tables (with NOSITE rows, repeats, empty tables)
    for seed in range(N_CASES):
        rng = np.random.default_rng(1000 + seed)
        n_sites = int(rng.integers(1, 9))
        n_ev = 0 if seed % 7 == 0 else int(rng.integers(1, 80))
        data = rng.integers(-1, n_sites, size=(n_ev, 6))
        ev = pd.DataFrame(data=data, columns=cols)
        res[f'matrix_unit_{seed}'] = rec(lambda: _calculate_transitions_matrix(ev, n_sites=n_sites))
        sub = ev[ev['start site'] != ev['destination site']].reset_index(drop=True)[cols[:3] + cols[5:]]
        res[f'matrix_unit_sub_{seed}'] = rec(lambda: _calculate_transitions_matrix(sub, n_sites=n_sites))

    # --- unit level: events from random state arrays (short series, constant columns, wrap-around differences)
    for seed in range(N_CASES):
        rng = np.random.default_rng(2000 + seed)
        n_frames = [1, 2, 3, 5, 17, 60][seed % 6]
        n_atoms = int(rng.integers(1, 5))
        n_sites = int(rng.integers(1, 5))
        states = np.repeat(rng.integers(-1, n_sites, size=(n_frames, n_atoms)), int(rng.integers(1, 4)), axis=0)[:max(n_frames, 1)]
        inner = np.where(rng.random(states.shape) < 0.6, states, NOSITE)
        if seed % 5 == 0:
            states[:, 0] = states[0, 0]
        if seed % 4 == 0 and n_frames > 2:
            states[-1, -1] = (states[0, -1] + 2) % (n_sites + 1) - 1  # last frame differs from first
        def f():
            e = _calculate_transition_events(atom_sites=states, atom_inner_sites=inner)
            return (e.to_numpy(), [str(d) for d in e.dtypes], list(e.columns))
        res[f'events_unit_{seed}'] = rec(f)

    # --- end to end on synthetic trajectories
    for seed in range(N_CASES):
        traj, sites, rng = build_case(seed)
        radius = float(rng.uniform(0.3, 0.9))
        inner_fraction = float(rng.choice([1.0, 0.5]))
        tr = rec(lambda: Transitions.from_trajectory(trajectory=traj, sites=sites, floating_specie='Li',
                                                     site_radius=radius, site_inner_fraction=inner_fraction))
        if tr[0] != 'ok':
            res[f'e2e_{seed}'] = tr
            continue
        tr = tr[1]
        res[f'e2e_states_{seed}'] = ('ok', tr.states)
        res[f'e2e_events_{seed}'] = ('ok', (tr.events.to_numpy(), [str(d) for d in tr.events.dtypes]))
        res[f'e2e_matrix_{seed}'] = rec(lambda: tr.matrix())
        res[f'e2e_occ_{seed}'] = rec(lambda: [(s.label, float(s.species.num_atoms)) for s in tr.occupancy()])
        res[f'e2e_split_{seed}'] = rec(lambda: [p.matrix() for p in tr.split(3)])
        for mr in (0, 3):
            j = rec(lambda: tr.jumps(minimal_residence=mr))
            if j[0] != 'ok':
                res[f'e2e_jumps_{seed}_{mr}'] = j
                continue
            j = j[1]
            res[f'e2e_jumps_{seed}_{mr}'] = ('ok', (j.data.to_numpy(), list(j.data.columns), j.n_jumps))
            res[f'e2e_jmatrix_{seed}_{mr}'] = rec(lambda: j.matrix())
            res[f'e2e_counter_{seed}_{mr}'] = rec(lambda: (list(j.counter().items()), list(j._counter().items())))
            res[f'e2e_jdiff_{seed}_{mr}'] = rec(lambda: [float(j.jump_diffusivity(d)) for d in (1, 2, 3)])
            res[f'e2e_rates_{seed}_{mr}'] = rec(lambda: (lambda df: (df.to_numpy(), list(df.index), list(df.columns)))(j.rates(n_parts=2)))
    with open(out, 'wb') as fh:
        pickle.dump(res, fh)


def same(a, b):
    import numpy as np
    if isinstance(a, (tuple, list)) and isinstance(b, (tuple, list)):
        return type(a) is type(b) and len(a) == len(b) and all(same(x, y) for x, y in zip(a, b))
    if isinstance(a, np.ndarray) or isinstance(b, np.ndarray):
        a = np.asarray(a); b = np.asarray(b)
        if a.shape != b.shape or a.dtype != b.dtype:
            return False
        if a.dtype.kind == 'f':
            return bool(np.allclose(a, b, rtol=1e-12, atol=0, equal_nan=True))
        return bool((a == b).all())
    if isinstance(a, float) and isinstance(b, float):
        if a != a and b != b:
            return True
        return a == b or abs(a - b) <= 1e-12 * max(abs(a), abs(b))
    return type(a) is type(b) and a == b


def main():
    if len(sys.argv) > 2 and sys.argv[1] == '--worker':
        worker(sys.argv[2])
        return 0
    outs = []
    with tempfile.TemporaryDirectory() as td:
        for name, src in (('orig', ORIG), ('new', NEW)):
            out = os.path.join(td, name + '.pkl')
            env = dict(os.environ, PYTHONPATH=src)
            subprocess.run([sys.executable, os.path.abspath(__file__), '--worker', out], env=env, check=True, cwd=td)
            outs.append(pickle.load(open(out, 'rb')))
    a, b = outs
    bad = [k for k in sorted(set(a) | set(b)) if k not in a or k not in b or not same(a[k], b[k])]
    n_ok = sum(1 for k in a if a[k][0] == 'ok')
    print(f'compared {len(a)} results ({n_ok} ok-values, {len(a) - n_ok} identical-exception cases); differing: {len(bad)}')
    for k in bad[:20]:
        print('  DIFF', k, a.get(k), b.get(k))
    return 1 if bad else 0


if __name__ == '__main__':
    sys.exit(main())
