"""Differential test for twin C03/3.

Refactoring: `gemdat.utils.ffill` / `bfill` (used by Transitions.states_prev /
states_next): dimension check moved before the axis==0 recursion, `np.where(a != v, cols, 0)`
-> `np.where(a == v, 0, cols)`, in-place `np.maximum.accumulate(..., out=idx)` -> new array,
fancy indexing `arr[rows[:, None], idx]` -> `np.take_along_axis`, `np.fliplr` -> `[:, ::-1]`.

The script re-runs itself as a worker twice, once with PYTHONPATH=/repo/src
(original) and once with PYTHONPATH=/tmp/wtt_C03/src (refactored), on the same
seeded inputs, and compares the pickled results bit for bit.
"""

import os
import pickle
import subprocess
import sys

ORIG = '/repo/src'
TWIN = '/tmp/wtt_C03/src'
SEED = 20261001


def _pack(obj):
    """Turn a result into something comparable with ==."""
    import numpy as np
    import pandas as pd

    if isinstance(obj, pd.DataFrame):
        return (
            'DF',
            list(obj.columns),
            [str(t) for t in obj.dtypes],
            obj.index.tolist(),
            obj.to_numpy().tolist(),
            obj.shape,
        )
    if isinstance(obj, np.ndarray):
        return ('ND', str(obj.dtype), obj.shape, obj.tobytes())
    if isinstance(obj, (list, tuple)):
        return [_pack(o) for o in obj]
    if isinstance(obj, dict):
        return {k: _pack(v) for k, v in obj.items()}
    return obj


def _call(fn, *args, **kwargs):
    try:
        return _pack(fn(*args, **kwargs))
    except Exception as exc:  # exceptions are part of the observable behaviour
        return ('EXC', type(exc).__name__)


def histories(rng):
    """Yield (name, states, inner_states) covering the C03 quantifier."""
    import itertools

    import numpy as np

    # exhaustive: 1 atom, up to 5 frames, sites {-1, 0, 1}; inner in {-1, site}
    for n in range(1, 6):
        for st in itertools.product((-1, 0, 1), repeat=n):
            st = np.array(st)
            for mask in itertools.product((0, 1), repeat=n) if n <= 4 else [(1,) * n, (0,) * n]:
                inner = np.where(np.array(mask, dtype=bool), st, -1)
                yield f'exh{n}', st[:, None], inner[:, None]

    # exhaustive 2 atoms x 3 frames over 2 sites
    for flat in itertools.product((-1, 0, 1), repeat=6):
        st = np.array(flat).reshape(3, 2)
        yield 'exh2x3', st, st.copy()
        yield 'exh2x3-noinner', st, np.full_like(st, -1)

    # random long multi-atom histories
    for k in range(60):
        n_frames = int(rng.integers(2, 400))
        n_atoms = int(rng.integers(1, 9))
        n_sites = int(rng.integers(1, 7))
        p_stay = rng.choice([0.5, 0.9, 0.99])
        st = np.empty((n_frames, n_atoms), dtype=int)
        st[0] = rng.integers(-1, n_sites, n_atoms)
        for t in range(1, n_frames):
            stay = rng.random(n_atoms) < p_stay
            st[t] = np.where(stay, st[t - 1], rng.integers(-1, n_sites, n_atoms))
        kind = k % 6
        if kind == 0:  # an atom that never moves
            st[:, 0] = st[0, 0]
        if kind == 1:  # change at first and at last frame
            st[1, 0] = (st[0, 0] + 2) % (n_sites + 1) - 1
            st[-1, 0] = (st[-2, 0] + 2) % (n_sites + 1) - 1
        if kind == 2:  # last frame equals first frame (wrap-around quiet)
            st[-1] = st[0]
        if kind == 3:  # last frame differs from first but not from previous
            st[-1] = st[-2]
        inner = np.where(rng.random(st.shape) < rng.choice([0.0, 0.3, 1.0]), st, -1)
        if kind == 4:  # an atom never inside any inner site
            inner[:, 0] = -1
        if kind == 5:  # nobody is ever in an inner site
            inner[:] = -1
        dt = [int, np.int32, np.int64][k % 3]
        yield f'rand{k}', st.astype(dt), inner.astype(dt)
        if k % 10 == 0:
            yield f'rand{k}-F', np.asfortranarray(st), np.asfortranarray(inner)

    # degenerate shapes
    yield 'nochange', np.zeros((7, 3), dtype=int), np.zeros((7, 3), dtype=int)
    yield 'nochange-innerflip', np.zeros((7, 2), dtype=int), np.array([[0, -1]] * 3 + [[-1, 0]] * 4)
    yield 'oneframe', np.array([[0, 1, -1]]), np.array([[0, -1, -1]])
    yield 'noframes', np.zeros((0, 2), dtype=int), np.zeros((0, 2), dtype=int)
    yield 'noatoms', np.zeros((5, 0), dtype=int), np.zeros((5, 0), dtype=int)


def worker():
    import numpy as np
    from pymatgen.core import Lattice, Structure

    import gemdat
    from gemdat import transitions as tr
    from gemdat import utils

    assert os.path.dirname(gemdat.__file__).startswith(os.environ['EXPECT_SRC']), gemdat.__file__

    rng = np.random.default_rng(SEED)
    out = []

    def both(name, arr, **kw):
        out.append((name + ':f', _call(utils.ffill, arr, **kw)))
        out.append((name + ':b', _call(utils.bfill, arr, **kw)))

    # direct calls: random shapes / dtypes / fill values / axes / memory layouts
    for k in range(200):
        shape = (int(rng.integers(0, 8)), int(rng.integers(0, 12)))
        p_fill = rng.choice([0.0, 0.3, 0.8, 1.0])
        fill_val = [-1, -1, 0, 7, -3][k % 5]
        arr = rng.integers(-1, 5, shape)
        arr = np.where(rng.random(shape) < p_fill, fill_val, arr)
        arr = arr.astype([int, np.int32, np.int8, float][k % 4])
        if k % 3 == 1:
            arr = np.asfortranarray(arr)
        if k % 7 == 3:
            arr = arr[::-1, ::2]  # non-contiguous view
        for axis in (-1, 0, 1):
            both(f'u{k}/ax{axis}/fv', arr, fill_val=fill_val, axis=axis)
            both(f'u{k}/ax{axis}', arr, axis=axis)
        both(f'u{k}/default', arr)
        # inputs must not be modified
        before = arr.copy()
        _call(utils.ffill, arr, fill_val=fill_val)
        _call(utils.bfill, arr, fill_val=fill_val, axis=0)
        out.append((f'u{k}/untouched', bool((arr == before).all())))

    # float NaN as a value and as fill value
    nanarr = np.array([[np.nan, 1.0, -1.0, np.nan, -1.0], [-1.0, -1.0, np.nan, 2.0, -1.0]])
    both('nan', nanarr)
    both('nan/ax0', nanarr, axis=0)
    both('nan/fvnan', nanarr, fill_val=np.nan)

    # invalid dimensionalities
    for nd_name, a in [
        ('0d', np.array(3)),
        ('1d', np.array([0, -1, -1, 2])),
        ('1d-empty', np.array([], dtype=int)),
        ('3d', rng.integers(-1, 2, (2, 3, 4))),
    ]:
        for axis in (-1, 0, 1):
            both(f'{nd_name}/ax{axis}', a, axis=axis)

    # through the Transitions views, exhaustive small + random long histories
    sites = Structure(
        Lattice.from_parameters(6.1, 7.3, 8.2, 78.0, 95.0, 104.0),
        ['Li'] * 3,
        [[0.1, 0.1, 0.1], [0.5, 0.5, 0.5], [0.9, 0.4, 0.2]],
    )
    for name, st, inner in histories(rng):
        if name.startswith('exh') and not name.startswith(('exh4', 'exh2x3')):
            continue

        def views():
            t = tr.Transitions(
                trajectory=None, diff_trajectory=None, sites=sites, events=None, states=st, inner_states=inner
            )
            return [t.states_prev(), t.states_next()]

        out.append((name + ':views', _call(views)))

    sys.stdout.buffer.write(pickle.dumps(out))


def run_side(src):
    env = dict(os.environ, PYTHONPATH=src, EXPECT_SRC=src, PYTHONWARNINGS='ignore')
    res = subprocess.run(
        ['/venv/bin/python', os.path.abspath(__file__), '--worker'],
        env=env,
        stdout=subprocess.PIPE,
        check=True,
    )
    return pickle.loads(res.stdout)


def main():
    a = run_side(ORIG)
    b = run_side(TWIN)
    assert len(a) == len(b) and len(a) >= 20
    bad = [na for (na, ra), (nb, rb) in zip(a, b) if na != nb or ra != rb]
    n_exc = sum(1 for _, r in a if isinstance(r, tuple) and r and r[0] == 'EXC')
    print(f'cases={len(a)} raising_in_both={n_exc} differing={len(bad)}')
    if bad:
        print('DIFFERENT:', bad[:20])
        sys.exit(1)
    print('EQUIVALENT')


if __name__ == '__main__':
    if '--worker' in sys.argv:
        worker()
    else:
        main()
