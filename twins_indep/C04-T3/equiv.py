"""Differential test for refactoring C04/3.

`gemdat.transitions._calculate_atom_states` (nearest-site / inner-site assignment that produces the
`states` and `inner_states` from which jumps are derived) was restructured: the label -> sites selection was
extracted into `_select_sites`, the generator became a list comprehension, `if empty: warn; continue` became
`if non-empty: ... else: warn`, `.T` unpacking became column slicing, temporaries were introduced/inlined.

The script runs itself twice as a worker, once with PYTHONPATH=/repo/src (original implementation) and
once with PYTHONPATH=/tmp/wtt_C04/src (refactored implementation), on identical seeded inputs, and
compares the pickled results exactly.  Exit code 0 <=> all results identical.
"""

from __future__ import annotations

import itertools
import os
import pickle
import subprocess
import sys
import tempfile

ORIG_SRC = '/repo/src'
NEW_SRC = '/tmp/wtt_C04/src'
RESIDENCES = (0, 1, 2, 3, 5, 10, 1000)


# --------------------------------------------------------------------------- worker
def frame_repr(df):
    """Exact, picklable description of a DataFrame."""
    return {
        'columns': [str(c) for c in df.columns],
        'dtypes': [str(t) for t in df.dtypes],
        'index': [repr(i) for i in df.index],
        'values': [[repr(v) for v in row] for row in df.to_numpy().tolist()],
    }


def call(fn, *args, **kwargs):
    import warnings

    import numpy as np
    import pandas as pd

    try:
        with warnings.catch_warnings(record=True) as caught:
            warnings.simplefilter('always')
            out = fn(*args, **kwargs)
        warns = sorted((w.category.__name__, str(w.message), os.path.basename(w.filename)) for w in caught)
        if isinstance(out, pd.DataFrame):
            return ('frame', frame_repr(out), warns)
        if isinstance(out, np.ndarray):
            return ('array', str(out.dtype), out.shape, out.tolist(), warns)
        return ('value', repr(out), warns)
    except Exception as exc:  # noqa: BLE001
        return ('raised', type(exc).__name__, str(exc))


def random_history(rng, n_steps, n_atoms, n_sites, p_stay, p_nosite):
    import numpy as np

    states = np.empty((n_steps, n_atoms), dtype=int)
    for a in range(n_atoms):
        cur = int(rng.integers(-1, n_sites))
        for t in range(n_steps):
            if rng.random() > p_stay:
                cur = -1 if rng.random() < p_nosite else int(rng.integers(0, n_sites))
            states[t, a] = cur
    return states


def inner_of(rng, states, p_inner):
    """Inner states: equal to the state or NOSITE (as produced by a smaller radius)."""
    import numpy as np

    if p_inner >= 1:
        return states.copy()
    mask = rng.random(states.shape) < p_inner
    return np.where(mask, states, -1)


def worker(out_path):
    from types import SimpleNamespace

    import numpy as np
    import pandas as pd
    from pymatgen.core import Element, Lattice, Structure

    import gemdat
    from gemdat import jumps as J
    from gemdat import transitions as T

    assert os.path.dirname(os.path.dirname(gemdat.__file__)) == os.environ['EQUIV_EXPECT_SRC'], gemdat.__file__

    results = []

    site_frac = np.array(
        [[0.02, 0.03, 0.97], [0.5, 0.03, 0.02], [0.5, 0.52, 0.5], [0.98, 0.5, 0.5], [0.25, 0.75, 0.1], [0.26, 0.9, 0.6]]
    )
    labels = ['A', 'A', 'B', 'C', 'B', 'A']

    def make_lattice(rng, case):
        kind = case % 4
        if kind == 0:
            return Lattice.cubic(float(rng.uniform(5, 12)))
        if kind == 1:
            return Lattice.from_parameters(*rng.uniform(5, 11, 3), *rng.uniform(65, 115, 3))
        if kind == 2:
            # general triclinic cell in an arbitrary orientation (not the a||x convention)
            base = Lattice.from_parameters(*rng.uniform(5, 11, 3), *rng.uniform(70, 110, 3))
            q, _ = np.linalg.qr(rng.normal(size=(3, 3)))
            return Lattice(base.matrix @ q)
        return Lattice.orthorhombic(*rng.uniform(4, 10, 3))

    def make_traj(rng, lattice, n_steps, n_li, n_other, outside):
        hist = random_history(rng, n_steps, n_li, len(site_frac), 0.7, 0.35)
        coords = rng.random((n_steps, n_li + n_other, 3))
        for t in range(n_steps):
            for a in range(n_li):
                s_ = hist[t, a]
                centre = site_frac[s_] if s_ >= 0 else rng.random(3)
                noise = lattice.get_fractional_coords(rng.normal(scale=rng.uniform(0.05, 0.5), size=3))
                coords[t, a] = centre + noise
        if outside:
            # atoms leaving the cell through its faces (unwrapped coordinates, also negative)
            coords[:, :n_li] += rng.integers(-2, 3, size=(n_steps, n_li, 3))
        return gemdat.Trajectory(
            species=[Element('Li')] * n_li + [Element('S')] * n_other,
            coords=coords,
            lattice=lattice,
            time_step=1e-15,
            metadata={'temperature': 300},
        )

    rng = np.random.default_rng(303)
    for case in range(32):
        lattice = make_lattice(rng, case)
        sites = Structure(lattice, ['Li'] * len(site_frac), site_frac, labels=labels)
        n_steps, n_li = int(rng.integers(1, 60)), int(rng.integers(1, 5))
        traj = make_traj(rng, lattice, n_steps, n_li, int(rng.integers(0, 3)), outside=case % 2 == 1)
        diff = traj.filter('Li')
        radii = [
            {'': float(rng.uniform(0.3, 1.2))},
            {'A': float(rng.uniform(0.3, 1.2)), 'B': float(rng.uniform(0.3, 1.2)), 'C': float(rng.uniform(0.3, 1.2))},
            {'B': 0.9, 'A': 0.5},  # only some labels, other insertion order
            {'A': 1e-6, 'C': 0.8},  # nothing in range of A -> warning
            {'': 0.6, 'B': 1.0},  # mixed: all sites, then overwritten for B
            {'': 2.5},  # overlapping spheres: the last pair found wins
        ]
        for r, site_radius in enumerate(radii):
            for frac in (1.0, 0.5, 0.0):
                results.append(
                    (f'S{case}/r{r}/f={frac}', call(T._calculate_atom_states, sites, diff, site_radius, frac))
                )
        results.append((f'S{case}/default-fraction', call(T._calculate_atom_states, sites=sites, trajectory=diff, site_radius={'': 0.7})))
        # invalid / empty selections
        results.append((f'S{case}/unknown-label', call(T._calculate_atom_states, sites, diff, {'Z': 0.7})))
        results.append((f'S{case}/no-radius', call(T._calculate_atom_states, sites, diff, {})))
        if case < 4:
            results.append((f'S{case}/no-floating', call(T._calculate_atom_states, sites, traj.filter('Na'), {'': 0.7})))

        # full pipeline down to the jumps
        for site_radius in (0.8, {'A': 0.9, 'B': 0.7, 'C': 0.8}, {'A': 1e-6, 'B': 0.8, 'C': 0.8}):
            for frac in (1.0, 0.6):
                def run(site_radius=site_radius, frac=frac):
                    tr = gemdat.Transitions.from_trajectory(
                        trajectory=traj, sites=sites, floating_specie='Li', site_radius=site_radius, site_inner_fraction=frac
                    )
                    out = [tr.states.tolist(), tr.inner_states.tolist(), frame_repr(tr.events)]
                    for m in (0, 2, 6):
                        try:
                            out.append(frame_repr(tr.jumps(minimal_residence=m).data))
                        except ValueError as exc:
                            out.append(str(exc))
                    return out
                results.append((f'S{case}/pipeline/{site_radius}/f={frac}', call(run)))

    with open(out_path, 'wb') as fh:
        pickle.dump(results, fh)


# --------------------------------------------------------------------------- driver
def run_worker(src, out_path):
    env = dict(os.environ)
    env['PYTHONPATH'] = src
    env['EQUIV_EXPECT_SRC'] = src
    env['PYTHONHASHSEED'] = '0'
    subprocess.run([sys.executable, os.path.abspath(__file__), '--worker', out_path], env=env, check=True)
    with open(out_path, 'rb') as fh:
        return pickle.load(fh)


def main():
    with tempfile.TemporaryDirectory() as td:
        orig = run_worker(ORIG_SRC, os.path.join(td, 'orig.pkl'))
        new = run_worker(NEW_SRC, os.path.join(td, 'new.pkl'))

    bad = 0
    if len(orig) != len(new):
        print(f'different number of results: {len(orig)} vs {len(new)}')
        bad += 1
    for (tag_o, res_o), (tag_n, res_n) in zip(orig, new):
        if tag_o != tag_n or res_o != res_n:
            bad += 1
            if bad <= 10:
                print(f'DIFF {tag_o} / {tag_n}\n  orig: {str(res_o)[:400]}\n  new : {str(res_n)[:400]}')
    kinds = {}
    for _, res in orig:
        k = res[0] if isinstance(res, tuple) else 'data'
        kinds[k] = kinds.get(k, 0) + 1
    print(f'compared {len(orig)} results ({kinds}); differences: {bad}')
    return 1 if bad else 0


if __name__ == '__main__':
    if len(sys.argv) == 3 and sys.argv[1] == '--worker':
        worker(sys.argv[2])
    else:
        sys.exit(main())
