"""Differential test: original (/repo/src) vs refactored (/tmp/wtw_C13/src) drift / drift-correction / filter.

Runs the same randomised scenario generator in two subprocesses (one per PYTHONPATH), pickles
all results, and compares them bit-for-bit.  Exits non-zero on any difference.
"""
import os
import pickle
import subprocess
import sys
import tempfile

ORIG = '/repo/src'
NEW = '/tmp/wtw_C13/src'
N_CASES = 36


def worker(out_path):
    import numpy as np
    from pymatgen.core import Element, Lattice, Species

    import gemdat
    from gemdat import Trajectory

    assert os.environ['EXPECT_SRC'] in gemdat.__file__, gemdat.__file__

    def rot(rng):
        q, r = np.linalg.qr(rng.normal(size=(3, 3)))
        q = q * np.sign(np.diag(r))
        if np.linalg.det(q) < 0:
            q[:, 0] = -q[:, 0]
        return q

    def make_lattice(rng, kind):
        if kind == 0:
            return Lattice.cubic(rng.uniform(3, 9))
        if kind == 1:
            return Lattice.from_parameters(*rng.uniform(3, 9, 3), *rng.uniform(60, 120, 3))
        if kind == 2:
            return Lattice(Lattice.orthorhombic(*rng.uniform(3, 9, 3)).matrix @ rot(rng))
        return Lattice(Lattice.from_parameters(*rng.uniform(4, 8, 3), 75, 100, 110).matrix @ rot(rng))

    pool = ['Li', 'Na', 'S', 'P', 'O', 'Cl']

    def snapshot(t):
        return {
            'coords': np.array(t.coords),
            'base': np.array(t.base_positions),
            'cad': bool(t.coords_are_displacement),
            'lattice': np.array(t.lattice),
            'const': bool(t.constant_lattice),
            'species': [str(s) for s in t.species],
            'time_step': t.time_step,
            'metadata': dict(t.metadata),
            'cls': type(t).__name__,
        }

    def guarded(fn):
        try:
            return fn()
        except Exception as exc:  # noqa: BLE001
            return ('EXC', type(exc).__name__, str(exc))

    results = []
    for case in range(N_CASES):
        rng = np.random.default_rng(1000 + case)
        n_sp = int(rng.integers(1, 5))
        symbols = list(rng.choice(pool, size=n_sp, replace=False))
        counts = rng.integers(1, 5, size=n_sp)
        names = [s for s, c in zip(symbols, counts) for _ in range(c)]
        order = rng.permutation(len(names))
        names = [names[i] for i in order]
        use_species_objects = case % 5 == 0
        if use_species_objects:
            species = [Species(n, 1) if n in ('Li', 'Na') else Element(n) for n in names]
        else:
            species = [Element(n) for n in names]
        n_frames = int(rng.integers(1, 12))
        n = len(names)
        lattice = make_lattice(rng, case % 4)

        base = rng.uniform(0, 1, size=(n, 3))
        if case % 3 == 0:
            # atoms sitting on / next to cell faces
            base[rng.integers(0, n)] = rng.choice([0.0, 1.0 - 1e-16, 1e-17, 0.5, 0.999999999], size=3)
        steps = rng.normal(scale=0.15, size=(n_frames, n, 3))
        steps[0] = 0
        # rigid time dependent translation
        steps += rng.normal(scale=0.2, size=(n_frames, 1, 3)) * (case % 2)
        coords = base[None] + np.cumsum(steps, axis=0)
        if case % 6 == 1:
            coords = np.mod(coords, 1)

        kwargs = dict(species=species, lattice=lattice, time_step=float(rng.uniform(1e-15, 3e-15)),
                      metadata={'temperature': float(rng.integers(200, 900)), 'tag': case})
        if case % 7 == 3:
            kwargs['metadata'] = None

        def build():
            if case % 4 == 2:
                disp = steps.copy()
                disp = np.clip(disp, -0.45, 0.45)
                return Trajectory(coords=disp, coords_are_displacement=True, base_positions=np.mod(base, 1), **kwargs)
            return Trajectory(coords=coords.copy(), **kwargs)

        present = symbols
        absent = [p for p in pool if p not in symbols]
        selections = [
            {},
            {'fixed_species': present[0]},
            {'fixed_species': list(present[:2])},
            {'fixed_species': tuple(present[-1:])},
            {'fixed_species': set(present)},
            {'floating_species': present[0]},
            {'floating_species': [present[0]]},
            {'floating_species': set(present[:2])},
            {'floating_species': 'LiNa'},          # substring semantics of `in` on str
            {'floating_species': absent[0]},
            {'fixed_species': '', 'floating_species': present[-1]},
            {'fixed_species': [], 'floating_species': None},
            {'fixed_species': present[0], 'floating_species': present[-1]},
            {'fixed_species': absent[0]},          # empty selection
            {'floating_species': list(present)},   # everything floating -> nothing fixed
        ]

        rec = {'case': case, 'names': names}
        for j, sel in enumerate(selections):
            def run_drift():
                t = build()
                d = t.drift(**sel)
                return {'drift': np.array(d), 'self': snapshot(t)}

            def run_corr():
                t = build()
                c = t.apply_drift_correction(**sel)
                c2 = c.apply_drift_correction(**sel)
                return {'corr': snapshot(c), 'corr2': snapshot(c2), 'self': snapshot(t),
                        'pos': np.array(c.positions), 'cum': np.array(c.cumulative_displacements)}

            def run_corr_from_positions():
                t = build()
                t.to_positions()
                c = t.apply_drift_correction(**sel)
                return {'corr': snapshot(c), 'self': snapshot(t)}

            with np.errstate(all='ignore'):
                import warnings
                with warnings.catch_warnings():
                    warnings.simplefilter('ignore')
                    rec[f'drift{j}'] = guarded(run_drift)
                    rec[f'corr{j}'] = guarded(run_corr)
                    rec[f'corrp{j}'] = guarded(run_corr_from_positions)

        filters = [present[0], [present[0]], tuple(present), set(present[:2]), absent[0], [], '', 'LiNa',
                   present[::-1], [present[0], absent[0]]]
        for j, f in enumerate(filters):
            def run_filter():
                t = build()
                ft = t.filter(f)
                return {'filt': snapshot(ft), 'self': snapshot(t), 'disp': np.array(ft.displacements)}

            def run_filter_species_kw():
                t = build()
                t.to_displacements()
                ft = t.filter(species=f)
                return {'filt': snapshot(ft), 'self': snapshot(t)}

            rec[f'filter{j}'] = guarded(run_filter)
            rec[f'filterk{j}'] = guarded(run_filter_species_kw)

        # variable lattice trajectory
        if case % 9 == 4 and n_frames > 1:
            def run_varlat():
                mats = np.array([lattice.matrix * (1 + 0.01 * i) for i in range(n_frames)])
                t = Trajectory(species=species, coords=np.mod(coords, 1), lattice=mats, constant_lattice=False,
                               time_step=1e-15, metadata={'temperature': 300})
                c = t.apply_drift_correction(fixed_species=present[0])
                return {'corr': snapshot(c), 'drift': np.array(t.drift(floating_species=present[0]))}
            rec['varlat'] = guarded(run_varlat)

        results.append(rec)

    with open(out_path, 'wb') as fh:
        pickle.dump(results, fh)


def same(a, b, path, problems):
    import numpy as np

    if isinstance(a, dict) and isinstance(b, dict):
        if a.keys() != b.keys():
            problems.append(f'{path}: keys differ {sorted(a)} vs {sorted(b)}')
            return
        for k in a:
            same(a[k], b[k], f'{path}/{k}', problems)
    elif isinstance(a, np.ndarray) or isinstance(b, np.ndarray):
        if not (isinstance(a, np.ndarray) and isinstance(b, np.ndarray)):
            problems.append(f'{path}: type differs {type(a)} vs {type(b)}')
        elif a.shape != b.shape or a.dtype != b.dtype:
            problems.append(f'{path}: shape/dtype {a.shape}{a.dtype} vs {b.shape}{b.dtype}')
        elif not np.array_equal(a, b, equal_nan=True):
            problems.append(f'{path}: values differ, max abs diff {np.nanmax(np.abs(a - b))}')
    elif isinstance(a, (list, tuple)) and isinstance(b, (list, tuple)) and len(a) == len(b) and type(a) is type(b):
        for i, (x, y) in enumerate(zip(a, b)):
            same(x, y, f'{path}[{i}]', problems)
    else:
        if type(a) is not type(b) or a != b:
            problems.append(f'{path}: {a!r} vs {b!r}')


def main():
    outs = {}
    with tempfile.TemporaryDirectory() as td:
        for label, src in (('orig', ORIG), ('new', NEW)):
            out = os.path.join(td, label + '.pkl')
            env = dict(os.environ, PYTHONPATH=src, EXPECT_SRC=src)
            proc = subprocess.run([sys.executable, os.path.abspath(__file__), '--worker', out], env=env, cwd=td)
            if proc.returncode != 0:
                print(f'worker {label} failed')
                sys.exit(2)
            with open(out, 'rb') as fh:
                outs[label] = pickle.load(fh)

    problems = []
    same(outs['orig'], outs['new'], '', problems)
    n_ok = n_exc = 0
    for rec in outs['orig']:
        for k, v in rec.items():
            if isinstance(v, tuple) and v and v[0] == 'EXC':
                n_exc += 1
            elif isinstance(v, dict):
                n_ok += 1
    print(f'cases={len(outs["orig"])} scenario_results={n_ok} raised_in_both={n_exc} differences={len(problems)}')
    for p in problems[:20]:
        print('  DIFF', p)
    sys.exit(1 if problems else 0)


if __name__ == '__main__':
    if len(sys.argv) > 2 and sys.argv[1] == '--worker':
        worker(sys.argv[2])
    else:
        main()
