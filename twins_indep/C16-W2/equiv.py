"""Differential test for C16 refactorings (trajectory caching).

Runs the same randomised scenario script twice in subprocesses, once with
PYTHONPATH=/repo/src (original) and once with PYTHONPATH=/tmp/wtw_C16/src
(refactored), and compares everything observable: returned trajectories,
names and contents of the cache files that are left behind, printed output and
raised exceptions.  Exits non-zero on any difference.
"""
import hashlib
import os
import pickle
import subprocess
import sys
import tempfile

ORIG = '/repo/src'
NEW = '/tmp/wtw_C16/src'
N_CASES = 24

WORKER = r'''
import contextlib, hashlib, io, os, pickle, sys, types
import numpy as np
from pathlib import Path
from pymatgen.core import Lattice, Structure
import gemdat.trajectory as T
from gemdat import Trajectory

out_file, workdir, n_cases = sys.argv[1], sys.argv[2], int(sys.argv[3])
os.chdir(workdir)
assert T.__file__.startswith(os.environ['EXPECT_SRC']), T.__file__

CALLS = []


def rand_lattice(rng, kind):
    if kind == 0:
        return Lattice.cubic(rng.uniform(3, 8))
    if kind == 1:
        return Lattice.from_parameters(*rng.uniform(3, 9, 3), *rng.uniform(60, 120, 3))
    if kind == 2:  # rotated triclinic
        m = Lattice.from_parameters(*rng.uniform(3, 9, 3), *rng.uniform(70, 110, 3)).matrix
        q, _ = np.linalg.qr(rng.normal(size=(3, 3)))
        return Lattice(m @ q)
    return Lattice.orthorhombic(*rng.uniform(3, 9, 3))


class FakeVasprun:
    """Stand-in for pymatgen's Vasprun (no vasprun.xml test data available)."""

    def __init__(self, filename, **kwargs):
        CALLS.append(('Vasprun', str(filename), sorted(kwargs.items())))
        text = Path(filename).read_text()
        if text.startswith('BAD'):
            raise T.ET.ParseError('bad xml')
        seed = int(text.split()[0])
        rng = np.random.default_rng(seed)
        lat = rand_lattice(rng, seed % 4)
        n_at, n_t = int(rng.integers(1, 5)), int(rng.integers(1, 6))
        species = list(rng.choice(['Li', 'S', 'P', 'Na'], size=n_at))
        base = rng.uniform(-0.2, 1.2, (n_at, 3))
        self.structures = []
        for i in range(n_t):
            # atoms cross the cell faces; exact 0 / 1 / tiny negatives included
            c = base + rng.normal(scale=0.3, size=(n_at, 3)) * i
            if i == 0 and n_at > 1:
                c[0] = [0.0, 1.0, -1e-18]
            l_i = lat if not kwargs.get('_npt') else lat
            self.structures.append(Structure(l_i, species, c))
        self.parameters = {'TEBEG': float(rng.integers(100, 900)), 'POTIM': float(rng.uniform(0.5, 3))}


T.vasp = types.SimpleNamespace(Vasprun=FakeVasprun)


def describe(obj):
    if not isinstance(obj, Trajectory):
        return ('other', repr(obj))
    lat = np.asarray(obj.lattice)
    return ('traj', type(obj).__name__, np.asarray(obj.coords).tobytes(), np.asarray(obj.coords).shape,
            lat.tobytes(), lat.shape, [str(s) for s in obj.species], obj.time_step, obj.constant_lattice,
            obj.coords_are_displacement, repr(sorted(obj.metadata.items())), repr(obj.base_positions))


def listing():
    res = {}
    for p in sorted(Path('.').rglob('*')):
        if p.is_file():
            data = p.read_bytes()
            ok = None
            if p.name.endswith('.cache') or 'cache' in p.name:
                try:
                    ok = describe(pickle.loads(data))
                except Exception as e:
                    ok = ('unreadable', type(e).__name__)
            res[str(p)] = (len(data), hashlib.sha1(data).hexdigest(), ok)
    return res


def call(fn, *a, **kw):
    buf = io.StringIO()
    n0 = len(CALLS)
    try:
        with contextlib.redirect_stdout(buf):
            r = describe(fn(*a, **kw))
    except BaseException as e:
        r = ('raised', type(e).__name__, str(e), type(e.__cause__).__name__)
    return (r, buf.getvalue(), CALLS[n0:], listing())


def write_lammps(rng, stem, kind):
    lat = rand_lattice(rng, 0 if kind % 2 == 0 else 3)
    a, b, c = lat.abc
    n_at, n_t = int(rng.integers(1, 5)), int(rng.integers(1, 5))
    types_ = rng.integers(1, 3, n_at)
    frac = rng.uniform(-0.3, 1.3, (n_t, n_at, 3))
    cart = frac * np.array([a, b, c])
    data = [f'LAMMPS data', '', f'{n_at} atoms', '2 atom types', '',
            f'0.0 {a:.8f} xlo xhi', f'0.0 {b:.8f} ylo yhi', f'0.0 {c:.8f} zlo zhi', '',
            'Masses', '', '1 6.94', '2 32.06', '', 'Atoms', '']
    for i in range(n_at):
        x, y, z = np.mod(cart[0, i], [a, b, c])
        data.append(f'{i + 1} {types_[i]} {x:.8f} {y:.8f} {z:.8f}')
    Path(f'{stem}.data').write_text('\n'.join(data) + '\n')
    names = {1: 'Li', 2: 'S'}
    lines = []
    for t in range(n_t):
        lines += [str(n_at), f'frame {t}']
        for i in range(n_at):
            lines.append(f'{names[int(types_[i])]} ' + ' '.join(f'{v:.8f}' for v in cart[t, i]))
    Path(f'{stem}.xyz').write_text('\n'.join(lines) + '\n')


results = []
master = np.random.default_rng(20261002)
for case in range(n_cases):
    rng = np.random.default_rng(int(master.integers(1 << 30)))
    d = Path(f'case{case}')
    d.mkdir()
    rec = [case]
    kind = case % 6
    if kind in (0, 1, 2, 3):
        xml = d / ('vasprun.xml' if kind != 3 else 'run.v2.xml')
        xml.write_text(f'{int(rng.integers(1, 10**6))} seed\n')
        opt_sets = [
            {},
            {'constant_lattice': False},
            {'constant_lattice': True},
            {'parse_dos': True},
            {'parse_dos': False},
            {'exception_on_bad_xml': False, 'parse_eigen': False},
            {'ionic_step_skip': int(rng.integers(1, 4))},
            {'constant_lattice': False, 'parse_potcar_file': False, 'ionic_step_offset': 0},
        ]
        rng.shuffle(opt_sets)
        for opts in opt_sets[: 3 + kind]:
            arg = xml if rng.random() < 0.5 else str(xml)
            rec.append(('parse', call(Trajectory.from_vasprun, arg, **opts)))
            rec.append(('cached', call(Trajectory.from_vasprun, arg, **opts)))
        # damage every cache that exists: truncate at a random byte / garbage / empty / foreign pickle
        opts = opt_sets[0]
        caches = sorted(d.glob('*.cache'))
        for j, cfile in enumerate(caches):
            data = cfile.read_bytes()
            mode = (case + j) % 5
            if mode == 0:
                cfile.write_bytes(data[: int(rng.integers(0, len(data)))])
            elif mode == 1:
                cfile.write_bytes(b'')
            elif mode == 2:
                cfile.write_bytes(rng.bytes(int(rng.integers(1, 200))))
            elif mode == 3:
                cfile.write_bytes(pickle.dumps(None))
            else:
                cfile.write_bytes(data[: len(data) - 1])
        for opts in opt_sets[: 3 + kind]:
            rec.append(('after-damage', call(Trajectory.from_vasprun, xml, **opts)))
            rec.append(('after-damage-2', call(Trajectory.from_vasprun, xml, **opts)))
        # explicit cache names, str and Path, existing / truncated / directory / empty string
        explicit = d / 'explicit.bin'
        rec.append(('explicit', call(Trajectory.from_vasprun, xml, cache=explicit)))
        rec.append(('explicit', call(Trajectory.from_vasprun, xml, cache=str(explicit), constant_lattice=False)))
        data = explicit.read_bytes()
        for cut in sorted(set(int(x) for x in rng.integers(0, len(data), 4)) | {0, 1, len(data) - 1}):
            explicit.write_bytes(data[:cut])
            rec.append(('explicit-trunc', cut, call(Trajectory.from_vasprun, str(xml), cache=explicit)))
        rec.append(('explicit-empty', call(Trajectory.from_vasprun, xml, cache='')))
        (d / 'adir').mkdir()
        rec.append(('explicit-dir', call(Trajectory.from_vasprun, xml, cache=d / 'adir')))
        rec.append(('missing-parent', call(Trajectory.from_vasprun, xml, cache=d / 'nodir' / 'c.cache')))
        # unparsable source, with and without a usable cache
        bad = d / 'bad.xml'
        bad.write_text('BAD')
        rec.append(('bad', call(Trajectory.from_vasprun, bad)))
        rec.append(('bad-with-cache', call(Trajectory.from_vasprun, bad, cache=explicit)))
        rec.append(('nofile', call(Trajectory.from_vasprun, d / 'absent.xml')))
        # plain round trip
        t = Trajectory.from_cache(explicit)
        rec.append(('roundtrip', call(t.to_cache, d / 'rt.cache'), call(Trajectory.from_cache, str(d / 'rt.cache'))))
        rec.append(('from_cache-missing', call(Trajectory.from_cache, d / 'nope.cache')))
    elif kind == 4:
        stem = d / 'lmp'
        write_lammps(rng, stem, case)
        base = dict(coords_file=f'{stem}.xyz', data_file=Path(f'{stem}.data'), temperature=float(rng.integers(100, 900)),
                    time_step=float(rng.uniform(0.5, 3)))
        variants = [dict(base), dict(base, temperature=base['temperature'] + 1), dict(base, time_step=1.0),
                    dict(base, type_mapping=None), dict(base, atom_style='atomic', coords_format='xyz'),
                    dict(base, constant_lattice=False), dict(base, cache=d / 'mine.cache'),
                    dict(base, cache=str(d / 'mine.cache'), temperature=1.0)]
        for v in variants:
            rec.append(('parse', call(Trajectory.from_lammps, **v)))
            rec.append(('cached', call(Trajectory.from_lammps, **v)))
        for j, cfile in enumerate(sorted(d.glob('*.cache'))):
            data = cfile.read_bytes()
            cfile.write_bytes(data[: int(rng.integers(0, len(data)))] if j % 2 == 0 else b'\x80garbage')
        for v in variants:
            rec.append(('after-damage', call(Trajectory.from_lammps, **v)))
            rec.append(('after-damage-2', call(Trajectory.from_lammps, **v)))
        Path(f'{stem}.data').write_text('not a data file\n1 2 3 4 5 6 7\n')
        rec.append(('bad-data', call(Trajectory.from_lammps, **dict(base, temperature=-5.0))))
        rec.append(('bad-data-cached', call(Trajectory.from_lammps, **base)))
    else:
        # gromacs loader: cache hit / damaged cache / missing sources (no MD files are written,
        # so the fall-back path raises inside MDAnalysis; hits must still come from the cache)
        rng2 = np.random.default_rng(case)
        lat = rand_lattice(rng2, case % 4)
        traj = Trajectory(species=['Li', 'S'], coords=rng2.uniform(-0.5, 1.5, (4, 2, 3)), lattice=lat, time_step=1e-15,
                          metadata={'temperature': 300})
        base = dict(topology_file=d / 'topol.tpr', coords_file=d / 'traj.xtc', temperature=300.0)
        variants = [dict(base), dict(base, constant_lattice=False), dict(base, edr_file='x.edr'),
                    dict(base, temperature=301.0), dict(base, extract_edr=True)]
        for v in variants:
            rec.append(('nofiles', type(call(Trajectory.from_gromacs, **v)[0][1]).__name__, listing()))
        import hashlib as _h, json as _j
        for v in variants:
            kw = {'topology_file': str(v['topology_file']), 'coords_file': str(v['coords_file']),
                  'edr_file': v.get('edr_file'), 'temperature': v['temperature'],
                  'constant_lattice': v.get('constant_lattice', True)}
            hid = _h.sha1(_j.dumps(kw, sort_keys=True).encode()).hexdigest()[:8]
            traj.to_cache(d / f'traj.{hid}.cache')
            rec.append(('hit', call(Trajectory.from_gromacs, **v)))
        for j, cfile in enumerate(sorted(d.glob('*.cache'))):
            data = cfile.read_bytes()
            cfile.write_bytes(data[: int(rng.integers(0, len(data)))])
        for v in variants:
            r = call(Trajectory.from_gromacs, **v)
            rec.append(('damaged', r[0][:2], r[1], r[3]))
        traj.to_cache(d / 'g.cache')
        rec.append(('explicit-hit', call(Trajectory.from_gromacs, cache=d / 'g.cache', **base)))
        rec.append(('explicit-hit', call(Trajectory.from_gromacs, cache=str(d / 'g.cache'), **base)))
    results.append(rec)

with open(out_file, 'wb') as f:
    pickle.dump(results, f)
'''


def run(src, tag, tmp):
    workdir = os.path.join(tmp, tag)
    os.makedirs(workdir)
    script = os.path.join(tmp, 'worker.py')
    with open(script, 'w') as f:
        f.write(WORKER)
    out = os.path.join(tmp, f'{tag}.pkl')
    env = dict(os.environ, PYTHONPATH=src, EXPECT_SRC=src, PYTHONHASHSEED='0')
    proc = subprocess.run([sys.executable, '-W', 'ignore', script, out, workdir, str(N_CASES)], env=env, cwd=workdir,
                          capture_output=True, text=True)
    if proc.returncode != 0:
        print(proc.stdout[-3000:])
        print(proc.stderr[-3000:])
        raise SystemExit(f'worker for {src} failed')
    with open(out, 'rb') as f:
        return pickle.load(f)


def main():
    with tempfile.TemporaryDirectory() as tmp:
        a = run(ORIG, 'orig', tmp)
        b = run(NEW, 'new', tmp)
    assert len(a) == len(b) == N_CASES
    n_obs = 0
    bad = 0
    for ra, rb in zip(a, b):
        if len(ra) != len(rb):
            print(f'case {ra[0]}: different number of observations')
            bad += 1
            continue
        for oa, ob in zip(ra[1:], rb[1:]):
            n_obs += 1
            if pickle.dumps(oa) != pickle.dumps(ob) and oa != ob:
                bad += 1
                print(f'case {ra[0]}: DIFFERENCE in {oa[0]!r}')
                print('   orig:', repr(oa)[:600])
                print('   new :', repr(ob)[:600])
    # sanity: the scenario script really exercised hits, fall-backs and distinct cache names
    kinds = {}
    for ra in a:
        for o in ra[1:]:
            kinds[o[0]] = kinds.get(o[0], 0) + 1
    digest = hashlib.sha1(pickle.dumps(a)).hexdigest()[:12]
    print(f'cases={N_CASES} observations={n_obs} differing={bad} kinds={kinds} digest={digest}')
    sys.exit(1 if bad else 0)


if __name__ == '__main__':
    main()
