"""Differential test for the C19 refactorings (time-partitioning of trajectories / transitions / jumps).

The script runs itself twice as a worker process, once with PYTHONPATH=/repo/src (ORIGINAL code, read-only)
and once with PYTHONPATH=/tmp/wtu_C19/src (REFACTORED code).  Every worker builds the same seeded random
inputs, runs the split functions and pickles a plain-python/numpy description of every result (or of the
exception that was raised).  The parent compares both dumps and exits non-zero on any difference.
"""
from __future__ import annotations

import os
import pickle
import subprocess
import sys
import tempfile

ORIG = '/repo/src'
TWIN = '/tmp/wtu_C19/src'
N_SEEDS = 24


# --------------------------------------------------------------------------- worker side
def _worker(out_path: str) -> None:
    import warnings

    import numpy as np
    import pandas as pd
    from pymatgen.core import Lattice, Structure
    from pymatgen.core.periodic_table import Element

    import gemdat
    from gemdat import Trajectory
    from gemdat.jumps import Jumps
    from gemdat.transitions import (
        Transitions,
        _calculate_transition_events,
        _split_transitions_events,
    )

    assert os.path.abspath(gemdat.__file__).startswith(os.environ['EXPECT_ROOT']), gemdat.__file__
    warnings.simplefilter('ignore')

    def rand_lattice(rng, kind):
        if kind == 0:
            return Lattice.cubic(float(rng.uniform(4, 8)))
        if kind == 1:
            return Lattice.from_parameters(
                *rng.uniform(4, 9, 3), *rng.uniform(65, 115, 3)
            )
        # rotated triclinic cell
        lat = Lattice.from_parameters(*rng.uniform(4, 9, 3), *rng.uniform(70, 110, 3))
        q, _ = np.linalg.qr(rng.normal(size=(3, 3)))
        if np.linalg.det(q) < 0:
            q[:, 0] *= -1
        return Lattice(lat.matrix @ q)

    def rand_traj(rng, n_steps, n_li, n_fix, kind):
        lat = rand_lattice(rng, kind)
        species = [Element('Li')] * n_li + [Element('S')] * n_fix
        n = n_li + n_fix
        base = rng.uniform(0, 1, (n, 3))
        steps = rng.normal(scale=0.04, size=(n_steps, n, 3))
        steps[:, n_li:] *= 0.05
        coords = base[None] + np.cumsum(steps, axis=0)  # atoms cross cell faces freely
        coords = np.mod(coords, 1) if rng.random() < 0.5 else coords
        return Trajectory(
            species=species,
            coords=coords,
            lattice=lat,
            time_step=float(rng.uniform(0.5, 3)) * 1e-15,
            metadata={'temperature': float(rng.uniform(200, 900))},
        )

    def d_traj(t):
        return {
            'len': len(t),
            'cls': type(t).__name__,
            'coords': np.array(t.coords),
            'base': None if t.base_positions is None else np.array(t.base_positions),
            'disp': bool(t.coords_are_displacement),
            'lat': np.array(t.get_lattice().matrix),
            'species': [str(s) for s in t.species],
            'time_step': t.time_step,
            'metadata': dict(t.metadata),
            'total_time': float(t.total_time) if len(t) else None,
        }

    def d_df(df):
        return {
            'cols': list(map(str, df.columns)),
            'index': np.array(df.index),
            'dtypes': [str(x) for x in df.dtypes],
            'values': df.to_numpy(),
        }

    def d_trans(tr):
        return {
            'cls': type(tr).__name__,
            'states': np.array(tr.states),
            'inner': np.array(tr.inner_states),
            'events': d_df(tr.events),
            'traj': d_traj(tr.trajectory),
            'diff': d_traj(tr.diff_trajectory),
            'sites_same': len(tr.sites),
        }

    def attempt(fn):
        try:
            return ('ok', fn())
        except Exception as exc:  # noqa: BLE001 - the exception itself is the observable
            return ('err', type(exc).__name__, str(exc))

    def synth_states(rng, n_steps, n_atoms, n_sites, p_move):
        states = np.empty((n_steps, n_atoms), dtype=int)
        cur = rng.integers(-1, n_sites, n_atoms)
        for t in range(n_steps):
            move = rng.random(n_atoms) < p_move
            cur = np.where(move, rng.integers(-1, n_sites, n_atoms), cur)
            states[t] = cur
        inner = np.where(rng.random(states.shape) < 0.7, states, -1)
        return states, inner

    class SubTransitions(Transitions):
        pass

    results = {}

    for seed in range(N_SEEDS):
        rng = np.random.default_rng(1000 + seed)
        res = {}

        # ---- 1. Trajectory.split on short/long, cubic/triclinic/rotated, both modes
        n_steps = int(rng.choice([1, 2, 3, 5, 11, 12, 37, 64, 100, 101]))
        traj = rand_traj(rng, n_steps, int(rng.integers(1, 4)), int(rng.integers(0, 3)), seed % 3)
        for n_parts in (1, 2, 3, 7, 10, max(1, n_steps - 1), n_steps, n_steps + 3):
            for equal in (False, True):
                res['traj', n_parts, equal] = attempt(
                    lambda: [d_traj(p) for p in traj.split(n_parts, equal_parts=equal)]
                )
        res['traj', 'default'] = attempt(lambda: [d_traj(p) for p in traj.split()])
        res['traj', 0] = attempt(lambda: [d_traj(p) for p in traj.split(0, equal_parts=True)])
        sub = traj[1:] if n_steps > 2 else traj
        res['traj', 'sliced'] = attempt(lambda: [d_traj(p) for p in sub.split(2, equal_parts=True)])
        disp = traj[:]
        disp.to_displacements()
        res['traj', 'disp'] = attempt(lambda: [d_traj(p) for p in disp.split(3)])

        # ---- 2. _split_transitions_events on raw tables
        n_states = int(rng.choice([1, 2, 4, 9, 50, 333]))
        n_ev = int(rng.integers(0, 60))
        ev = pd.DataFrame(
            {
                'atom index': rng.integers(0, 5, n_ev),
                'start site': rng.integers(-1, 6, n_ev),
                'destination site': rng.integers(-1, 6, n_ev),
                'start inner site': rng.integers(-1, 6, n_ev),
                'destination inner site': rng.integers(-1, 6, n_ev),
                # unsorted, may contain times outside [0, n_states]
                'time': rng.integers(-2, n_states + 4, n_ev),
            }
        )
        if seed % 4 == 0:
            ev.index = rng.permutation(n_ev) + 100
        for n_parts in (0, 1, 2, 3, 5, 10, 17):
            before = ev.copy()
            res['ev', n_parts] = attempt(
                lambda: [d_df(p) for p in _split_transitions_events(ev, n_states, n_parts)]
            )
            assert before.equals(ev), 'input table was mutated'
        ev2 = ev.rename(columns={'time': 'start time'})
        ev2['stop time'] = ev2['start time'] + 1
        res['ev', 'keys'] = attempt(
            lambda: [
                d_df(p)
                for p in _split_transitions_events(
                    ev2, n_states, 3, split_key='start time', dependent_keys=['start time', 'stop time']
                )
            ]
        )
        evf = ev.astype({'time': float})
        res['ev', 'float'] = attempt(
            lambda: [d_df(p) for p in _split_transitions_events(evf, n_states, n_parts=4)]
        )

        # ---- 3. Transitions.split / Jumps.split on synthetic state tables
        n_steps = int(rng.choice([12, 30, 61, 120]))
        n_li = int(rng.integers(1, 5))
        n_sites = int(rng.integers(2, 6))
        traj = rand_traj(rng, n_steps, n_li, int(rng.integers(0, 3)), (seed + 1) % 3)
        sites = Structure(
            traj.get_lattice(),
            ['Li'] * n_sites,
            rng.uniform(0, 1, (n_sites, 3)),
            labels=[f'L{i % 2}' for i in range(n_sites)],
        )
        states, inner = synth_states(rng, n_steps, n_li, n_sites, float(rng.choice([0.0, 0.05, 0.1, 0.2, 0.3])))
        events = attempt(
            lambda: _calculate_transition_events(atom_sites=states, atom_inner_sites=inner)
        )
        if events[0] == 'ok':
            cls = SubTransitions if seed % 2 else Transitions
            tr = cls(
                sites=sites,
                trajectory=traj,
                diff_trajectory=traj.filter('Li'),
                events=events[1],
                states=states,
                inner_states=inner,
            )
            for n_parts in (0, 1, 2, 3, 5, 10, 40):
                res['trans', n_parts] = attempt(lambda: [d_trans(p) for p in tr.split(n_parts)])
            res['trans', 'default'] = attempt(lambda: [d_trans(p) for p in tr.split()])

            jumps = attempt(lambda: Jumps(tr, minimal_residence=int(seed % 3)))
            res['jumps', 'ctor'] = jumps[:1] if jumps[0] == 'ok' else jumps
            if jumps[0] == 'ok':
                jp = jumps[1]
                for n_parts in (1, 2, 3, 5):

                    def run():
                        out = []
                        for p in jp.split(n_parts):
                            out.append(
                                {
                                    'data': d_df(p.data),
                                    'n': p.n_jumps,
                                    'counter': sorted(p.counter().items()),
                                    'mr': p.minimal_residence,
                                    'cm': p.conversion_method.__name__,
                                    'trans': d_trans(p.transitions),
                                    'traj': d_traj(p.trajectory),
                                }
                            )
                        return out

                    res['jumps', n_parts] = attempt(run)
                res['jumps', 'rates'] = attempt(lambda: d_df(jp.rates(n_parts=2)))
                res['jumps', 'eact'] = attempt(lambda: d_df(jp.activation_energies(n_parts=2)))
        else:
            res['trans', 'noevents'] = events

        # ---- 4. the whole chain from coordinates (sites in a non-cubic cell, atoms leaving sites)
        if seed % 3 == 0:
            traj = rand_traj(rng, 80, 3, 2, 1 + seed % 2)
            sites = Structure(traj.get_lattice(), ['Li'] * 4, rng.uniform(0, 1, (4, 3)))

            def chain():
                tr = Transitions.from_trajectory(
                    trajectory=traj, sites=sites, floating_specie='Li', site_radius=1.6,
                    site_inner_fraction=0.8,
                )
                return [[d_trans(p) for p in tr.split(n)] for n in (2, 4)]

            res['chain'] = attempt(chain)

        results[seed] = res

    with open(out_path, 'wb') as fh:
        pickle.dump(results, fh)


# --------------------------------------------------------------------------- parent side
def _same(a, b, path=''):
    import numpy as np

    if type(a) is not type(b):
        return f'{path}: type {type(a).__name__} != {type(b).__name__}'
    if isinstance(a, dict):
        if list(a.keys()) != list(b.keys()):
            return f'{path}: keys {list(a)} != {list(b)}'
        for k in a:
            msg = _same(a[k], b[k], f'{path}/{k}')
            if msg:
                return msg
        return None
    if isinstance(a, (list, tuple)):
        if len(a) != len(b):
            return f'{path}: len {len(a)} != {len(b)}'
        for i, (x, y) in enumerate(zip(a, b)):
            msg = _same(x, y, f'{path}[{i}]')
            if msg:
                return msg
        return None
    if isinstance(a, np.ndarray):
        if a.shape != b.shape or a.dtype != b.dtype:
            return f'{path}: shape/dtype {a.shape}{a.dtype} != {b.shape}{b.dtype}'
        if a.dtype == object:
            return _same(a.tolist(), b.tolist(), path)
        if not np.array_equal(a, b, equal_nan=a.dtype.kind in 'fc'):
            return f'{path}: array values differ'
        return None
    if isinstance(a, float):
        if a != b and not (a != a and b != b) and abs(a - b) > 1e-12 * max(1.0, abs(a)):
            return f'{path}: {a!r} != {b!r}'
        return None
    if a != b:
        return f'{path}: {a!r} != {b!r}'
    return None


def main() -> int:
    dumps = []
    with tempfile.TemporaryDirectory() as td:
        for tag, root in (('orig', ORIG), ('twin', TWIN)):
            out = os.path.join(td, tag + '.pkl')
            env = dict(os.environ, PYTHONPATH=root, EXPECT_ROOT=root, PYTHONDONTWRITEBYTECODE='1')
            proc = subprocess.run([sys.executable, os.path.abspath(__file__), '--worker', out], env=env)
            if proc.returncode != 0:
                print(f'worker {tag} failed')
                return 2
            with open(out, 'rb') as fh:
                dumps.append(pickle.load(fh))
    orig, twin = dumps
    n_cmp = n_ok = n_err = 0
    bad = []
    for seed in orig:
        if list(orig[seed].keys()) != list(twin[seed].keys()):
            bad.append(f'seed {seed}: different result keys')
            continue
        for key in orig[seed]:
            n_cmp += 1
            n_ok += orig[seed][key][0] == 'ok'
            n_err += orig[seed][key][0] == 'err'
            msg = _same(orig[seed][key], twin[seed][key], f'seed{seed}/{key}')
            if msg:
                bad.append(msg)
    print(f'seeds={len(orig)} comparisons={n_cmp} (ok-results={n_ok}, matching-exceptions={n_err}) differences={len(bad)}')
    for msg in bad[:20]:
        print('  DIFF', msg)
    return 1 if bad else 0


if __name__ == '__main__':
    if len(sys.argv) == 3 and sys.argv[1] == '--worker':
        _worker(sys.argv[2])
    else:
        sys.exit(main())
