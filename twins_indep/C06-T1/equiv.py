"""Differential test for property C06 (MSD / distance from base position / tracer diffusivity).

Runs the SAME randomised workload twice in sub-processes:
  * once with PYTHONPATH=/repo/src          (original implementation, read-only)
  * once with PYTHONPATH=/tmp/wtt_C06/src   (refactored implementation)
and compares every recorded result.  Exit status is non-zero if any result differs by more than
1e-12 (absolute + relative); it also reports whether everything was bit-identical.

Usage:  /venv/bin/python equiv.py            (driver)
        /venv/bin/python equiv.py --worker OUT.pkl   (internal)
"""

from __future__ import annotations

import os
import pickle
import subprocess
import sys
import tempfile

ORIG = '/repo/src'
NEW = os.environ.get('TWIN_SRC', '/tmp/wtt_C06/src')
N_CASES = 40
TOL = 1e-12


# --------------------------------------------------------------------------- worker
def _random_lattice(rng, kind):
    import numpy as np
    from pymatgen.core import Lattice

    if kind == 'identity':
        return Lattice(np.eye(3))
    if kind == 'cubic':
        return Lattice.cubic(rng.uniform(2, 12))
    if kind == 'ortho':
        return Lattice.orthorhombic(*rng.uniform(2, 12, 3))
    if kind == 'hex':
        return Lattice.hexagonal(rng.uniform(2, 8), rng.uniform(3, 15))
    if kind == 'triclinic':
        return Lattice.from_parameters(*rng.uniform(3, 12, 3), *rng.uniform(55, 125, 3))
    if kind == 'sheared':
        m = np.diag(rng.uniform(3, 9, 3))
        m[1, 0] = rng.uniform(-6, 6)
        m[2, 0] = rng.uniform(-6, 6)
        m[2, 1] = rng.uniform(-6, 6)
        return Lattice(m)
    if kind == 'rotated':
        base = Lattice.from_parameters(*rng.uniform(3, 12, 3), *rng.uniform(60, 120, 3)).matrix
        q, _ = np.linalg.qr(rng.normal(size=(3, 3)))
        return Lattice(base @ q)
    if kind == 'lefthanded':
        m = rng.normal(size=(3, 3)) * 4 + np.eye(3) * 6
        if np.linalg.det(m) > 0:
            m[0] *= -1
        return Lattice(m)
    raise ValueError(kind)


KINDS = ['identity', 'cubic', 'ortho', 'hex', 'triclinic', 'sheared', 'rotated', 'lefthanded']
ELEMENTS = ['Li', 'Na', 'S', 'P', 'O', 'Si']


def _record(results, key, fn):
    """Store the outcome of fn() (array / float / exception name) under key."""
    import warnings

    import numpy as np

    try:
        with warnings.catch_warnings():
            warnings.simplefilter('ignore')
            val = fn()
        if isinstance(val, np.ndarray):
            results[key] = ('array', str(val.dtype), val.shape, np.ascontiguousarray(val).tobytes())
        elif isinstance(val, (list, tuple)):
            arr = np.asarray(val, dtype=float)
            results[key] = ('array', str(arr.dtype), arr.shape, arr.tobytes())
        else:
            unit = str(getattr(val, 'unit', ''))
            results[key] = ('scalar', type(val).__name__, unit, float(val))
    except Exception as exc:  # noqa: BLE001  - exceptions must match as well
        results[key] = ('exception', type(exc).__name__)


def worker(out_path):
    import numpy as np
    from pymatgen.core import Element, Lattice

    import gemdat
    from gemdat import Trajectory
    from gemdat import trajectory as trajmod
    from gemdat.metrics import TrajectoryMetrics

    assert os.path.realpath(gemdat.__file__).startswith(os.path.realpath(os.environ['EXPECT_SRC'])), (
        gemdat.__file__
    )

    results: dict = {}

    for case in range(N_CASES):
        rng = np.random.default_rng(1000 + case)
        kind = KINDS[case % len(KINDS)]
        lattice = _random_lattice(rng, kind)
        n_frames = [2, 3, 5, 17, 64, 101][case % 6] if case % 5 else int(rng.integers(2, 40))
        n_atoms = int(rng.integers(1, 7))
        species = [Element(ELEMENTS[i]) for i in rng.integers(0, len(ELEMENTS), n_atoms)]
        if case % 7 == 3:
            species = [Element('Li')] * n_atoms

        # random walk in fractional coordinates; steps up to ~0.45 of a cell so faces are crossed
        step_scale = [0.02, 0.15, 0.45, 0.3][case % 4]
        steps = rng.uniform(-step_scale, step_scale, size=(n_frames, n_atoms, 3))
        steps[0] = 0
        if case % 6 == 1:
            steps[:, 0, :] = 0  # a static atom
        if case % 6 == 2:
            steps[1:, -1, :] = [0.4, -0.3, 0.25]  # a ballistic atom, crosses faces every few frames
        if case % 9 == 4:
            steps[1:, 0, 0] = 0.5  # exactly half a cell -> rounding tie in the unwrapping
        start = rng.uniform(0, 1, size=(1, n_atoms, 3))
        if case % 8 == 5:
            start[0, 0] = [0.0, 1.0 - 1e-17, 0.5]  # sits on a cell face
        unwrapped = start + np.cumsum(steps, axis=0)
        mode = case % 3
        time_step = float(rng.choice([1e-15, 2e-15, 5e-16, 1.0]))
        kwargs = dict(species=species, lattice=lattice, time_step=time_step, metadata={'temperature': 300})
        if mode == 0:
            traj = Trajectory(coords=np.mod(unwrapped, 1), **kwargs)  # wrapped positions
        elif mode == 1:
            traj = Trajectory(coords=unwrapped, **kwargs)  # positions that were never wrapped
        else:
            traj = Trajectory(
                coords=steps, coords_are_displacement=True, base_positions=start[0], **kwargs
            )

        tag = f'case{case:02d}[{kind},T={n_frames},N={n_atoms},mode={mode}]'

        def run_all(t, tag):
            _record(results, tag + ':cumdisp', lambda: t.cumulative_displacements)
            _record(results, tag + ':dist', lambda: t.distances_from_base_position())
            _record(results, tag + ':dist_flags', lambda: np.array(
                [t.distances_from_base_position().flags['C_CONTIGUOUS'],
                 t.distances_from_base_position().flags['F_CONTIGUOUS']], dtype=float))
            _record(results, tag + ':msd', lambda: t.mean_squared_displacement())
            _record(results, tag + ':total_time', lambda: t.total_time)
            _record(results, tag + ':lattice', lambda: t.get_lattice().matrix)
            _record(results, tag + ':lattice0', lambda: t.get_lattice(0).matrix)
            m = TrajectoryMetrics(t)
            for dim in (1, 2, 3):
                _record(results, tag + f':D{dim}', lambda: m.tracer_diffusivity(dimensions=dim))
            _record(results, tag + ':Ddefault', lambda: m.tracer_diffusivity())
            _record(results, tag + ':Dcom', lambda: m.tracer_diffusivity_center_of_mass(dimensions=3))
            _record(results, tag + ':Dcom_default', lambda: m.tracer_diffusivity_center_of_mass())
            _record(results, tag + ':haven', lambda: m.haven_ratio(dimensions=2))
            _record(results, tag + ':speed', lambda: m.speed())
            _record(results, tag + ':com', lambda: t.center_of_mass().positions)
            # coords must be left in the same mode / same values afterwards
            _record(results, tag + ':coords_after', lambda: t.coords)
            _record(results, tag + ':positions_after', lambda: t.positions)

        run_all(traj, tag)
        # sub-selection, slices, empty selection, drift-corrected variant
        first = species[0].symbol
        try:
            run_all(traj.filter(first), tag + ':filter')
        except Exception as exc:  # noqa: BLE001
            results[tag + ':filter:EXC'] = ('exception', type(exc).__name__)
        try:
            run_all(traj.filter('Xe'), tag + ':emptysel')  # nothing selected
        except Exception as exc:  # noqa: BLE001
            results[tag + ':emptysel:EXC'] = ('exception', type(exc).__name__)
        try:
            run_all(traj[1:], tag + ':slice')
        except Exception as exc:  # noqa: BLE001
            results[tag + ':slice:EXC'] = ('exception', type(exc).__name__)
        try:
            run_all(traj.apply_drift_correction(), tag + ':drift')
        except Exception as exc:  # noqa: BLE001
            results[tag + ':drift:EXC'] = ('exception', type(exc).__name__)
        if case % 10 == 0:
            # lattice that changes per frame (constant_lattice False)
            lattices = np.array([lattice.matrix * (1 + 0.001 * i) for i in range(n_frames)])
            try:
                vt = Trajectory(species=species, coords=np.mod(unwrapped, 1), lattice=lattices,
                                constant_lattice=False, time_step=time_step, metadata={})
                run_all(vt, tag + ':varlat')
            except Exception as exc:  # noqa: BLE001
                results[tag + ':varlat:EXC'] = ('exception', type(exc).__name__)

        # unusual coordinate dtypes (result dtype must be preserved as well)
        for dt in (np.float32, np.longdouble, np.int64):
            try:
                dtraj = Trajectory(coords=(np.mod(unwrapped, 1) * (7 if dt is np.int64 else 1)).astype(dt), **kwargs)
                _record(results, tag + f':{np.dtype(dt).name}:dist', lambda: dtraj.distances_from_base_position())
                _record(results, tag + f':{np.dtype(dt).name}:msd', lambda: dtraj.mean_squared_displacement())
                _record(results, tag + f':{np.dtype(dt).name}:cumdisp', lambda: dtraj.cumulative_displacements)
                _record(results, tag + f':{np.dtype(dt).name}:D', lambda: TrajectoryMetrics(dtraj).tracer_diffusivity(dimensions=3))
            except Exception as exc:  # noqa: BLE001
                results[tag + f':{np.dtype(dt).name}:EXC'] = ('exception', type(exc).__name__)

        # the low-level length helper, directly
        vecs = rng.normal(size=(int(rng.integers(0, 9)), 3)) * rng.choice([1e-9, 1.0, 1e3])
        _record(results, tag + ':_lengths', lambda: trajmod._lengths(vecs, lattice))
        _record(results, tag + ':_lengths_kw', lambda: trajmod._lengths(vectors=vecs[::-1], lattice=lattice))
        _record(results, tag + ':_lengths_zero', lambda: trajmod._lengths(np.zeros((2, 3)), lattice))
        _record(results, tag + ':_lengths_1d', lambda: trajmod._lengths(vecs[:1].ravel(), lattice))
        _record(results, tag + ':_lengths_3d', lambda: trajmod._lengths(vecs[None], lattice))

    with open(out_path, 'wb') as fh:
        pickle.dump(results, fh)


# --------------------------------------------------------------------------- driver
def _run(src, out):
    env = dict(os.environ)
    env['PYTHONPATH'] = src
    env['EXPECT_SRC'] = src
    subprocess.run([sys.executable, os.path.abspath(__file__), '--worker', out], env=env, check=True)
    with open(out, 'rb') as fh:
        return pickle.load(fh)


def main():
    import numpy as np

    with tempfile.TemporaryDirectory() as td:
        ref = _run(ORIG, os.path.join(td, 'orig.pkl'))
        new = _run(NEW, os.path.join(td, 'new.pkl'))

    failures = []
    not_bitwise = []
    if ref.keys() != new.keys():
        failures.append(f'different result keys: {sorted(set(ref) ^ set(new))[:10]}')
    n_arrays = n_scalars = n_exc = 0
    for key in sorted(set(ref) & set(new)):
        a, b = ref[key], new[key]
        if a[0] != b[0]:
            failures.append(f'{key}: kind {a[0]} vs {b[0]} ({a[1]} vs {b[1]})')
            continue
        if a[0] == 'exception':
            n_exc += 1
            if a[1] != b[1]:
                failures.append(f'{key}: exception {a[1]} vs {b[1]}')
        elif a[0] == 'array':
            n_arrays += 1
            if a[1] != b[1] or a[2] != b[2]:
                failures.append(f'{key}: dtype/shape {a[1:3]} vs {b[1:3]}')
                continue
            if a[3] != b[3]:
                x = np.frombuffer(a[3], dtype=a[1]).reshape(a[2])
                y = np.frombuffer(b[3], dtype=b[1]).reshape(b[2])
                if a[1] == 'float128' and np.array_equal(x, y, equal_nan=True):
                    pass  # only the padding bytes of the 80-bit long doubles differ
                elif np.allclose(x, y, rtol=TOL, atol=TOL, equal_nan=True):
                    not_bitwise.append(key)
                else:
                    failures.append(f'{key}: max abs diff {np.nanmax(np.abs(x - y))}')
        else:
            n_scalars += 1
            if a[1:3] != b[1:3]:
                failures.append(f'{key}: type/unit {a[1:3]} vs {b[1:3]}')
            x, y = a[3], b[3]
            if x != y and not (x != x and y != y):
                if abs(x - y) <= TOL * max(abs(x), abs(y)):
                    not_bitwise.append(key)
                else:
                    failures.append(f'{key}: {x!r} vs {y!r}')

    print(f'cases={N_CASES} compared: arrays={n_arrays} scalars={n_scalars} exceptions={n_exc}')
    print(f'bit-identical: {not not_bitwise and not failures}  (within-tolerance-only: {len(not_bitwise)})')
    for key in not_bitwise[:10]:
        print('  tol-only', key)
    if failures:
        print(f'FAILURES: {len(failures)}')
        for f in failures[:40]:
            print('  ', f)
        return 1
    print('EQUIVALENT')
    return 0


if __name__ == '__main__':
    if len(sys.argv) == 3 and sys.argv[1] == '--worker':
        worker(sys.argv[2])
    else:
        sys.exit(main())
