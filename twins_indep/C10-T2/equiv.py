"""Differential test: original gemdat.path (from /repo/src, read-only) vs. the refactored one in the worktree.

Run as:  PYTHONPATH=/tmp/wtt_C10/src /venv/bin/python equiv.py
Exits non-zero when any observable result differs (values, element types, ordering, exception type/message).
"""

import importlib.util
import os
import sys
import warnings

WT = os.environ.get('TWIN_WORKTREE', '/tmp/wtt_C10')
sys.path.insert(0, os.path.join(WT, 'src'))
warnings.filterwarnings('ignore')

import networkx as nx  # noqa: E402
import numpy as np  # noqa: E402
from pymatgen.core import Lattice, Structure  # noqa: E402

import gemdat  # noqa: E402,F401
import gemdat.path as new  # noqa: E402
from gemdat.volume import FreeEnergyVolume  # noqa: E402

assert os.path.realpath(new.__file__).startswith(os.path.realpath(WT)), new.__file__

# original implementation, loaded under another name inside the gemdat package so that the relative imports resolve
_spec = importlib.util.spec_from_file_location('gemdat._orig_path', '/repo/src/gemdat/path.py')
old = importlib.util.module_from_spec(_spec)
sys.modules['gemdat._orig_path'] = old
_spec.loader.exec_module(old)

FAILS = []
NCHECK = 0


def canon(x):
    """Canonical, type-aware, bit-exact representation."""
    if isinstance(x, (old.Pathway, new.Pathway)):
        return ('Pathway', canon(x.sites), canon(x.energy), canon(x.dims))
    if isinstance(x, nx.Graph):
        return (
            'Graph',
            [(canon(n), canon(d)) for n, d in x.nodes(data=True)],
            [(canon(u), [(canon(v), canon(d)) for v, d in x.adj[u].items()]) for u in x.adj],
        )
    if isinstance(x, np.ndarray):
        return ('ndarray', str(x.dtype), x.shape, x.tobytes())
    if isinstance(x, dict):
        return ('dict', [(canon(k), canon(v)) for k, v in x.items()])
    if isinstance(x, (list, tuple)):
        return (type(x).__name__, [canon(i) for i in x])
    if isinstance(x, (bool, np.bool_)):
        return (type(x).__name__, bool(x))
    if isinstance(x, (float, np.floating)):
        return (type(x).__name__, float(x).hex())
    if isinstance(x, (int, np.integer)):
        return (type(x).__name__, int(x))
    if x is None or isinstance(x, str):
        return x
    if hasattr(x, 'frac_coords') and hasattr(x, 'species'):  # PeriodicSite
        return ('site', str(x.species), canon(np.asarray(x.frac_coords)), getattr(x, 'label', None))
    return (type(x).__name__, repr(x))


def run(f, *a, **k):
    try:
        return ('ok', canon(f(*a, **k)))
    except Exception as e:  # noqa: BLE001
        return ('exc', type(e).__name__, str(e))


def check(label, fo, fn, *a, **k):
    """Call old and new callables with (copies of) the same arguments and compare."""
    global NCHECK
    NCHECK += 1
    ro = run(fo, *a, **k)
    rn = run(fn, *a, **k)
    if ro != rn:
        FAILS.append(label)
        print('DIFF', label, '\n   old:', str(ro)[:300], '\n   new:', str(rn)[:300])
    return ro


def rand_grid(rng, shape, kind):
    F = rng.random(shape) * rng.choice([0.5, 3.0, 12.0])
    if kind == 'blocked':
        F[rng.random(shape) < 0.25] = 1e9
    elif kind == 'walls':
        ax = rng.integers(0, 3)
        sl = [slice(None)] * 3
        sl[ax] = rng.integers(0, shape[ax])
        F[tuple(sl)] = np.inf
    elif kind == 'nan-neg':
        F[rng.random(shape) < 0.1] = np.nan
        F[rng.random(shape) < 0.1] = -0.3
        F[rng.random(shape) < 0.1] = np.inf
    elif kind == 'ties':
        F = np.round(F * 2) / 2  # many equal-cost paths -> tie-breaking must be preserved
    elif kind == 'flat':
        F = np.full(shape, 0.25)
    elif kind == 'big':
        F = F * 3  # exp() exceeds small thresholds
    return F


SHAPES = [(4, 5, 6), (3, 3, 3), (6, 3, 4), (2, 5, 3), (1, 4, 5), (5, 1, 1), (7, 2, 3), (3, 6, 2), (2, 2, 2), (4, 4, 7)]
KINDS = ['plain', 'blocked', 'walls', 'nan-neg', 'ties', 'flat', 'big']
METHODS = ['dijkstra', 'bellman-ford', 'minmax-energy', 'dijkstra-exp', 'simple']
LATTICES = [
    Lattice.cubic(4.0),
    Lattice.from_parameters(5.1, 6.2, 7.3, 90, 90, 90),
    Lattice.from_parameters(5.0, 6.5, 8.0, 72.0, 101.0, 64.0),  # triclinic
    Lattice(np.array([[3.9, 0.3, -0.2], [1.1, 4.4, 0.5], [-0.7, 0.9, 6.1]])),  # rotated / general
    Lattice.hexagonal(4.2, 9.1),
]


def main(n_cases=28, seed=20261001):
    rng = np.random.default_rng(seed)
    for case in range(n_cases):
        shape = SHAPES[case % len(SHAPES)]
        kind = KINDS[case % len(KINDS)]
        F = rand_grid(rng, shape, kind)
        lattice = LATTICES[case % len(LATTICES)]
        vol = FreeEnergyVolume(data=F, lattice=lattice)
        tag = f'case{case}:{shape}:{kind}'

        # ---- free_energy_graph ----
        graphs = {}
        for diagonal in (True, False):
            for thr in (1e20, 1e7, 2.0, float(np.exp(0.9))):
                check(f'{tag}:graph:d{diagonal}:t{thr}', old.free_energy_graph, new.free_energy_graph,
                      F, max_energy_threshold=thr, diagonal=diagonal)
            graphs[diagonal] = (old.free_energy_graph(F, max_energy_threshold=1e7, diagonal=diagonal),
                                new.free_energy_graph(F, max_energy_threshold=1e7, diagonal=diagonal))
        check(f'{tag}:graph:volume', old.free_energy_graph, new.free_energy_graph, vol)
        check(f'{tag}:graph:defaults', old.free_energy_graph, new.free_energy_graph, F)

        # ---- optimal_path / optimal_n_paths ----
        for diagonal in (True, False):
            Go, Gn = graphs[diagonal]
            nodes = list(Go.nodes)
            for rep in range(3):
                if len(nodes) >= 2 and rep < 2:
                    i, j = rng.choice(len(nodes), 2, replace=False)
                    start, stop = nodes[i], nodes[j]
                elif nodes and rep == 2 and case % 2:
                    start = stop = nodes[rng.integers(len(nodes))]  # zero-length path
                else:  # arbitrary voxels: may be blocked -> NodeNotFound
                    start = tuple(int(rng.integers(0, s)) for s in shape)
                    stop = tuple(int(rng.integers(0, s)) for s in shape)
                for conv in (tuple, list, np.array):
                    meths = METHODS if conv is tuple else METHODS[:1]
                    for method in meths + (['bogus', None, ['dijkstra'], 'Dijkstra'] if rep == 0 and conv is tuple else []):
                        label = f'{tag}:path:d{diagonal}:{start}->{stop}:{method}:{conv.__name__}'
                        ro = run(old.optimal_path, Go, start=conv(start), stop=conv(stop), method=method)
                        rn = run(new.optimal_path, Gn, start=conv(start), stop=conv(stop), method=method)
                        global NCHECK
                        NCHECK += 1
                        if ro != rn:
                            FAILS.append(label)
                            print('DIFF', label, '\n   old:', str(ro)[:300], '\n   new:', str(rn)[:300])
                check(f'{tag}:minmax:d{diagonal}:{start}->{stop}',
                      lambda: _minmax(old, Go, start, stop), lambda: _minmax(new, Gn, start, stop))
                if rep == 0:
                    # exhaustive enumeration is only affordable on tiny graphs; otherwise accept every path
                    tiny = len(Go) <= (9 if diagonal else 12)
                    for method, md in (('dijkstra', 0.15 if tiny else 0.0), ('simple', 0.4 if tiny else -1.0)):
                        ro = run(old.optimal_n_paths, Go, start=start, stop=stop, method=method, n_paths=3,
                                 min_diff=md)
                        rn = run(new.optimal_n_paths, Gn, start=start, stop=stop, method=method, n_paths=3,
                                 min_diff=md)
                        NCHECK += 1
                        if ro != rn:
                            FAILS.append(f'{tag}:npaths')
                            print('DIFF', f'{tag}:npaths:{method}', str(ro)[:300], str(rn)[:300])
            # graphs must not have been mutated differently
            check(f'{tag}:graph-after:d{diagonal}', lambda: Go, lambda: Gn)

        # ---- volume wrappers ----
        if len(graphs[True][0]) >= 2:
            nodes = list(graphs[True][0].nodes)
            s, t = nodes[0], nodes[-1]
            for method in METHODS:
                po = run(lambda: _wrapper(old, vol, s, t, method))
                pn = run(lambda: _wrapper(new, vol, s, t, method))
                NCHECK += 1
                if po != pn:
                    FAILS.append(f'{tag}:wrapper:{method}')
                    print('DIFF wrapper', tag, method, str(po)[:300], str(pn)[:300])

        # ---- optimal_percolating_path ----
        for percolate in ('x', 'y', 'z', 'xy', 'xz', 'yz', 'xyz', 'zx', '', 'q', 'xq'):
            npk = int(rng.integers(0, 5))
            peaks = np.array([[int(rng.integers(0, s)) for s in shape] for _ in range(npk)], dtype=int).reshape(npk, 3)
            if case % 5 == 0 and npk:
                peaks = np.vstack([peaks, peaks[:1]])  # duplicate peak -> equal cost, first must win
            ro = run(old.optimal_percolating_path, vol, peaks=peaks, percolate=percolate)
            rn = run(new.optimal_percolating_path, vol, peaks=peaks, percolate=percolate)
            NCHECK += 1
            if ro != rn:
                FAILS.append(f'{tag}:perc:{percolate}')
                print('DIFF perc', tag, percolate, peaks.tolist(), '\n   old:', str(ro)[:300], '\n   new:', str(rn)[:300])
            # derived quantities of the returned pathway
            po = _try(old.optimal_percolating_path, vol, peaks=peaks, percolate=percolate)
            pn = _try(new.optimal_percolating_path, vol, peaks=peaks, percolate=percolate)
            if po is not None and pn is not None:
                _pathway_checks(f'{tag}:perc:{percolate}', po, pn, lattice, rng)
        check(f'{tag}:perc:listpeaks', old.optimal_percolating_path, new.optimal_percolating_path, vol,
              peaks=[np.array([0, 0, 0]), np.array([s - 1 for s in shape])], percolate='xyz')
        check(f'{tag}:perc:empty', old.optimal_percolating_path, new.optimal_percolating_path, vol,
              peaks=np.zeros((0, 3), dtype=int), percolate='x')

        # ---- Pathway methods on synthetic (also out-of-box / negative) voxel lists ----
        n = int(rng.integers(0, 7))
        sites = [tuple(int(v) for v in rng.integers(-2 * max(shape), 3 * max(shape), 3)) for _ in range(n)]
        if case % 4 == 0 and n >= 2:
            sites[1] = sites[0]  # repeated voxel -> zero distance -> assert in total_length
        energy = [float(e) for e in rng.random(n)]
        for dims in (shape, None, tuple(np.int64(s) for s in shape)):
            po = old.Pathway(sites=list(sites), energy=list(energy), dims=dims)
            pn = new.Pathway(sites=list(sites), energy=list(energy), dims=dims)
            _pathway_checks(f'{tag}:pathway:{dims}', po, pn, lattice, rng)
        npsites = [tuple(np.int64(v) for v in s) for s in sites]
        _pathway_checks(f'{tag}:pathway:np', old.Pathway(sites=npsites, energy=energy, dims=shape),
                        new.Pathway(sites=npsites, energy=energy, dims=shape), lattice, rng)

        # ---- path difference helpers ----
        for _ in range(4):
            a = [tuple(int(v) for v in rng.integers(0, 3, 3)) for _ in range(int(rng.integers(0, 6)))]
            b = [tuple(int(v) for v in rng.integers(0, 3, 3)) for _ in range(int(rng.integers(0, 6)))]
            check(f'{tag}:diff', old.calculate_path_difference, new.calculate_path_difference, a, b)
            others_o = [old.Pathway(sites=b, energy=[0.0] * len(b)), old.Pathway(sites=a[::-1], energy=[0.0] * len(a))]
            others_n = [new.Pathway(sites=b, energy=[0.0] * len(b)), new.Pathway(sites=a[::-1], energy=[0.0] * len(a))]
            for md in (0.0, 0.15, 0.5, 1.0, 1.5):
                ro = run(old._paths_too_similar, a, others_o, md)
                rn = run(new._paths_too_similar, a, others_n, md)
                NCHECK += 1
                if ro != rn:
                    FAILS.append(f'{tag}:similar')
                    print('DIFF similar', a, b, md, ro, rn)
            check(f'{tag}:similar-empty', old._paths_too_similar, new._paths_too_similar, a, [], 0.15)

    print(f'checks={NCHECK} failures={len(FAILS)}')
    return 1 if FAILS else 0


def _try(f, *a, **k):
    try:
        return f(*a, **k)
    except Exception:  # noqa: BLE001
        return None


def _minmax(mod, G, start, stop):
    """Exercise the private min-max helper directly (it is not reachable through optimal_path)."""
    n_before = len(G)
    p0 = nx.shortest_path(G, source=start, target=stop, weight='weight')
    out = mod._optimal_path_minmax_energy(G, start=start, stop=stop, optimal_path=p0)
    return out, n_before, len(G)


def _wrapper(mod, vol, s, t, method):
    G = mod.free_energy_graph(vol.data, max_energy_threshold=1e7)
    path = mod.optimal_path(G, start=s, stop=t, method=method)
    path.dims = vol.dims
    return path, repr(path), path.total_energy, path.wrapped_sites(), path.frac_sites()


def _pathway_checks(label, po, pn, lattice, rng):
    check(label + ':repr', lambda: repr(po), lambda: repr(pn))
    check(label + ':total_energy', lambda: po.total_energy, lambda: pn.total_energy)
    check(label + ':wrapped', po.wrapped_sites, pn.wrapped_sites)
    check(label + ':frac', po.frac_sites, pn.frac_sites)
    check(label + ':length', lambda: _length(po, lattice), lambda: _length(pn, lattice))
    check(label + ':start', lambda: po.start_site, lambda: pn.start_site)
    check(label + ':stop', lambda: po.stop_site, lambda: pn.stop_site)
    structure = Structure(lattice, ['Li', 'Li', 'S', 'P'],
                          [[0.0, 0.0, 0.0], [0.5, 0.5, 0.5], [0.25, 0.75, 0.1], [0.9, 0.1, 0.6]],
                          labels=['A', 'B', 'C', 'D'])
    check(label + ':over_structure', po.path_over_structure, pn.path_over_structure, structure)
    check(label + ':pathway-after', lambda: po, lambda: pn)


def _length(p, lattice):
    v = p.total_length(lattice)
    return (type(v).__name__, float(v), str(v.unit))


if __name__ == '__main__':
    sys.exit(main())
