"""Differential test for refactoring 4 of property C11 (radial distributions).

Refactoring 4: the fill helpers behind Transitions.states_prev() / states_next() (they decide between which sites an
'X->Y' frame lies) and the species-column lookup of the RDF.  gemdat.utils.ffill: `np.where(arr != v, cols, 0)` became
`np.where(arr == v, 0, cols)`, the in-place `np.maximum.accumulate(..., out=idx)` became an out-of-place call, the
fancy index `arr[np.arange(n)[:, None], idx]` became `np.take_along_axis(arr, idx, axis=1)`, temporaries introduced
(the axis == 0 branch still ignores fill_val exactly like the original).  gemdat.utils.bfill: the nested
`np.fliplr(ffill(np.fliplr(arr), ...))` was unrolled into temporaries and the outer flip written as `[:, ::-1]`.
gemdat.rdf._get_symbol_indices: the per-symbol `np.argwhere([... list of bools ...]).flatten()` became one array of
site symbols compared per symbol with `np.flatnonzero(site_symbols == symbol)`.
The 'fill' section below calls ffill / bfill directly (both axes, non-default fill values, float arrays with NaN,
Fortran order, empty and 1x1 arrays, 1-D and 3-D inputs that must raise the same exception type, input not mutated),
the 'helpers' section calls _get_symbol_indices (plain, charged and disordered structures) and the 'rdf' section runs
the full state-resolved RDF, which depends on all of them.

Runs the ORIGINAL gemdat (/repo/src, read-only) and the REFACTORED gemdat (worktree, default /tmp/wtt_C11/src,
override with env GEMDAT_REFACTORED_SRC) in separate subprocesses (same PYTHONHASHSEED, because the state codes of
gemdat.rdf depend on the iteration order of `set(labels)`) on identical randomised inputs and compares every result:
names, ordering of dict keys / collections, dtypes, shapes and values (integers bit-identical, floats |diff| <= 1e-12,
NaN == NaN), and - where a call raises - the exception type.
Exit status 0 = everything equal, 1 = a difference was found.
"""
import os
import pickle
import subprocess
import sys
import tempfile

ORIG_SRC = '/repo/src'
NEW_SRC = os.environ.get('GEMDAT_REFACTORED_SRC', '/tmp/wtt_C11/src')
HASH_SEEDS = ('0', '1', '4242')
N_RDF_CASES = 36
N_PAIR_CASES = 30
N_HELPER_CASES = 40
N_FILL_CASES = 40
TOL = 1e-12


# --------------------------------------------------------------------------- worker side
def random_lattice(rng, kind):
    import numpy as np
    from pymatgen.core import Lattice

    if kind == 0:
        return Lattice.cubic(rng.uniform(3.0, 9.0))
    if kind == 1:
        return Lattice.orthorhombic(*rng.uniform(3.0, 10.0, 3))
    if kind == 2:  # strongly triclinic
        return Lattice.from_parameters(
            *rng.uniform(4, 9, 3), rng.uniform(55, 75), rng.uniform(95, 120), rng.uniform(62, 115)
        )
    if kind == 3:
        return Lattice.hexagonal(rng.uniform(3, 7), rng.uniform(4, 10))
    # arbitrarily oriented (rotated) skewed cell straight from a random matrix
    while True:
        m = rng.normal(size=(3, 3)) * rng.uniform(2, 5)
        if abs(np.linalg.det(m)) > 20.0:
            return Lattice(m)


BOUNDARY = [0.0, 1.0, -1e-17, 1 - 1e-16, -0.0, -1.0, 2.0, 0.5, -0.5, 1.5, 0.9999999999999999, 0.25, 0.75]
SPECIES_POOL = ['Li', 'S', 'P', 'Cl', 'O', 'Na']
LABEL_SETS = [
    ['A'],
    ['A', 'B'],
    ['Li1', 'Li2', 'Li3'],
    ['48h', '16e', '48h', '4c'],
    ['x', 'x', 'x'],
    ['b', 'a', 'b', 'a', 'c'],
    ['tet', 'oct', 'tet', 'oct', 'tri', 'lin'],
]


def make_coords(rng, n_frames, n_atoms, mode):
    import numpy as np

    start = rng.uniform(0, 1, (1, n_atoms, 3))
    steps = rng.normal(scale=rng.choice([0.01, 0.05, 0.2]), size=(n_frames, n_atoms, 3))
    steps[0] = 0
    coords = start + np.cumsum(steps, axis=0)
    if mode in (1, 3):  # whole-lattice shifts: atoms far outside the home cell
        coords = coords + rng.integers(-2, 3, coords.shape)
    if mode in (2, 3):  # sprinkle face-adjacent / boundary values (also gives coincident atoms, distance 0)
        mask = rng.uniform(size=coords.shape) < 0.3
        coords[mask] = rng.choice(BOUNDARY, size=int(mask.sum()))
    return coords


def make_trajectory(rng, case):
    import numpy as np
    from pymatgen.core import Element

    from gemdat import Trajectory

    lattice = random_lattice(rng, case % 5)
    n_other_kinds = int(rng.integers(1, 4))
    symbols = ['Li'] * int(rng.integers(1, 5))
    for sym in rng.choice(SPECIES_POOL[1:], size=n_other_kinds, replace=False):
        symbols += [str(sym)] * int(rng.integers(1, 4))
    symbols = [symbols[i] for i in rng.permutation(len(symbols))]  # interleave the species
    n_frames = int(rng.integers(1, 9))
    coords = make_coords(rng, n_frames, len(symbols), case % 4)
    traj = Trajectory(
        species=[Element(s) for s in symbols],
        coords=coords,
        lattice=lattice,
        time_step=1.0,
        metadata={'temperature': 300},
    )
    return traj, symbols


def run(call):
    """Return ('ok', result) or ('err', exception type name)."""
    import warnings

    try:
        with warnings.catch_warnings():
            warnings.simplefilter('ignore')
            return ('ok', call())
    except Exception as exc:  # noqa: BLE001
        return ('err', type(exc).__name__)


def dump_rdfdata(d):
    return {'x': d.x, 'y': d.y, 'label': d.label, 'state': d.state, 'cls': type(d).__name__}


def rdf_cases():
    import numpy as np
    import pandas as pd
    from pymatgen.core import Structure

    from gemdat.rdf import radial_distribution
    from gemdat.transitions import Transitions, _calculate_atom_states

    rng = np.random.default_rng(1111)
    out = []
    for case in range(N_RDF_CASES):
        traj, symbols = make_trajectory(rng, case)
        lattice = traj.get_lattice()
        labels = LABEL_SETS[case % len(LABEL_SETS)]
        n_sites = len(labels)
        n_li = symbols.count('Li')
        n_frames = len(traj)
        sites = Structure(lattice, ['Li'] * n_sites, rng.uniform(0, 1, (n_sites, 3)), labels=labels)

        mode = case % 6
        if mode in (0, 1):
            # states from the real pipeline
            radius = float(rng.uniform(0.8, 2.5))
            site_radius = radius if mode == 0 else {lab: float(rng.uniform(0.8, 2.5)) for lab in set(labels)}
            status, tr = run(
                lambda: Transitions.from_trajectory(
                    trajectory=traj, sites=sites, floating_specie='Li', site_radius=site_radius
                )
            )
            if status == 'err':
                # no transition event at all (np.vstack of nothing): build the object from the real atom states
                radii = site_radius if isinstance(site_radius, dict) else {'': site_radius}
                _, states = run(
                    lambda: _calculate_atom_states(sites=sites, trajectory=traj.filter('Li'), site_radius=radii)
                )
                tr = Transitions(
                    trajectory=traj,
                    diff_trajectory=traj.filter('Li'),
                    sites=sites,
                    events=pd.DataFrame(),
                    states=states,
                    inner_states=states.copy(),
                )
        else:
            if mode == 2:
                states = rng.integers(-1, n_sites, (n_frames, n_li))
            elif mode == 3:  # long stays and long transits: exercises previous/next filling
                states = np.repeat(rng.integers(-1, n_sites, (1, n_li)), n_frames, axis=0)
                holes = rng.uniform(size=states.shape) < 0.6
                states[holes] = -1
            elif mode == 4:
                states = np.full((n_frames, n_li), -1)  # never at a site: only 'no site' states
            else:
                states = rng.integers(0, n_sites, (n_frames, n_li))  # always at a site
            tr = Transitions(
                trajectory=traj,
                diff_trajectory=traj.filter('Li'),
                sites=sites,
                events=pd.DataFrame(),
                states=states,
                inner_states=states.copy(),
            )

        max_dist = float(rng.choice([0.05, 1.0, 2.5, 4.0, 5.0, 7.3]))
        resolution = float(rng.choice([0.1, 0.25, 0.3, 0.5, 1.0, 1.7]))
        kwargs = [
            {},
            {'max_dist': max_dist},
            {'max_dist': max_dist, 'resolution': resolution},
            {'resolution': resolution},
        ][case % 4]

        status, res = run(lambda: radial_distribution(transitions=tr, floating_specie='Li', **kwargs))
        if status == 'ok':
            res = {
                'type': type(res).__name__,
                'items': [
                    (state, type(coll).__name__, [dump_rdfdata(d) for d in coll]) for state, coll in res.items()
                ],
            }
        # the method on Transitions must give the same thing
        status2, res2 = run(lambda: tr.radial_distribution(floating_specie='Li', **kwargs))
        if status2 == 'ok':
            res2 = [(state, [dump_rdfdata(d) for d in coll]) for state, coll in res2.items()]
        # misuse: a floating specie other than the one the states belong to (row count mismatch)
        other = [s for s in sorted(set(symbols)) if s != 'Li'][case % (len(set(symbols)) - 1)]
        status3, res3 = run(lambda: radial_distribution(transitions=tr, floating_specie=other, **kwargs))
        if status3 == 'ok':
            res3 = [(state, [dump_rdfdata(d) for d in coll]) for state, coll in res3.items()]
        status4, res4 = run(lambda: radial_distribution(transitions=tr, floating_specie='Xe', **kwargs))
        if status4 == 'ok':
            res4 = [(state, [dump_rdfdata(d) for d in coll]) for state, coll in res4.items()]
        out.append(
            {
                'rdf_other_specie': (status3, res3),
                'rdf_absent_specie': (status4, res4),
                'states': np.asarray(tr.states),
                'prev': run(lambda: np.asarray(tr.states_prev())),
                'next': run(lambda: np.asarray(tr.states_next())),
                'rdf': (status, res),
                'rdf_method': (status2, res2),
            }
        )
    return out


def pair_cases():
    import numpy as np

    from gemdat.rdf import radial_distribution_between_species

    rng = np.random.default_rng(2222)
    out = []
    for case in range(N_PAIR_CASES):
        traj, symbols = make_trajectory(rng, case)
        kinds = sorted(set(symbols))
        a = str(rng.choice(kinds))
        b = str(rng.choice(kinds))
        selector = case % 7
        if selector == 0:
            sp1, sp2 = a, b
        elif selector == 1:
            sp1, sp2 = [a], [b, a]
        elif selector == 2:
            sp1, sp2 = tuple(kinds), b
        elif selector == 3:
            sp1, sp2 = a, a  # same species: includes the zero self-distances
        elif selector == 4:
            sp1, sp2 = a, 'Xe'  # empty second selection
        elif selector == 5:
            sp1, sp2 = ['Xe'], b  # empty first selection
        else:
            sp1, sp2 = kinds[:2], kinds[-2:]
        max_dist = float(rng.choice([0.05, 1.0, 2.5, 4.0, 5.0, 7.3]))
        resolution = float(rng.choice([0.1, 0.25, 0.3, 0.5, 1.0, 1.7]))
        kwargs = [
            {},
            {'max_dist': max_dist},
            {'max_dist': max_dist, 'resolution': resolution},
            {'resolution': resolution},
        ][case % 4]
        for first, second in ((sp1, sp2), (sp2, sp1)):
            status, res = run(
                lambda: radial_distribution_between_species(
                    trajectory=traj, specie_1=first, specie_2=second, **kwargs
                )
            )
            if status == 'ok':
                res = dump_rdfdata(res)
            status2, res2 = run(
                lambda: traj.radial_distribution_between_species(specie_1=first, specie_2=second, **kwargs)
            )
            if status2 == 'ok':
                res2 = dump_rdfdata(res2)
            out.append({'function': (status, res), 'method': (status2, res2)})
    return out


def helper_cases():
    import numpy as np
    from pymatgen.core import Lattice, Structure

    from gemdat import rdf as rdfmod
    from gemdat.transitions import Transitions

    rng = np.random.default_rng(3333)
    out = []
    for case in range(N_HELPER_CASES):
        labels = list(LABEL_SETS[case % len(LABEL_SETS)])
        if case % 5 == 4:
            labels = [str(x) for x in rng.choice(['p', 'q', 'r', 's', 't', 'u', 'v'], size=int(rng.integers(1, 9)))]
        n_sites = len(labels)
        shape = (int(rng.integers(1, 8)), int(rng.integers(1, 5)))
        arr = rng.integers(-1, n_sites, shape)
        if case % 6 == 0:
            arr[:] = -1
        rec = {
            'labels': labels,
            'get_states': run(lambda: list(rdfmod._get_states(labels).items())),
            'uniqify_2d': run(lambda: rdfmod._uniqify_labels(arr, labels)),
            'uniqify_1d': run(lambda: rdfmod._uniqify_labels(arr[0], labels)),
            'uniqify_list': run(lambda: rdfmod._uniqify_labels(arr.tolist(), labels)),
            'uniqify_empty': run(lambda: rdfmod._uniqify_labels(np.zeros((0, 3), dtype=int), labels)),
            'uniqify_out_of_range': run(lambda: rdfmod._uniqify_labels(arr + n_sites, labels)),
        }

        lattice = Lattice.cubic(5.0)
        sites = Structure(lattice, ['Li'] * n_sites, rng.uniform(0, 1, (n_sites, 3)), labels=labels)

        class _Stub:  # only what _get_states_array needs
            def __init__(self, states):
                self.states = states
                self._t = Transitions.__new__(Transitions)
                self._t.states = states

            def states_prev(self):
                return self._t.states_prev()

            def states_next(self):
                return self._t.states_next()

        rec['states_array'] = run(lambda: rdfmod._get_states_array(_Stub(arr), labels))
        rec['states_array_empty'] = run(lambda: rdfmod._get_states_array(_Stub(arr[:0]), labels))
        if case == 0:
            many = [f'site{n % 12}' for n in range(30)]
            big = rng.integers(-1, len(many), (6, 5))
            rec['get_states_no_labels'] = run(lambda: list(rdfmod._get_states([]).items()))
            rec['uniqify_no_labels'] = run(lambda: rdfmod._uniqify_labels(np.full((2, 2), -1), []))
            rec['get_states_many'] = run(lambda: list(rdfmod._get_states(many).items()))
            rec['uniqify_many'] = run(lambda: rdfmod._uniqify_labels(big, many))
            rec['states_array_many'] = run(lambda: rdfmod._get_states_array(_Stub(big), many))

        n_atoms = int(rng.integers(1, 9))
        syms = [str(s) for s in rng.choice(SPECIES_POOL, size=n_atoms)]
        structure = Structure(lattice, syms, rng.uniform(0, 1, (n_atoms, 3)))
        rec['symbol_indices'] = run(lambda: list(rdfmod._get_symbol_indices(structure).items()))
        charged = Structure(lattice, [{'Li': 'Li+', 'S': 'S2-', 'O': 'O2-'}.get(s, s) for s in syms], structure.frac_coords)
        rec['symbol_indices_charged'] = run(lambda: list(rdfmod._get_symbol_indices(charged).items()))
        if case == 1:
            mixed = Structure(lattice, [{'Li': 0.5, 'Na': 0.5}, 'S'], [[0, 0, 0], [0.5, 0.5, 0.5]])
            rec['symbol_indices_disordered'] = run(lambda: list(rdfmod._get_symbol_indices(mixed).items()))
        out.append(rec)
    return out


def fill_cases():
    import numpy as np

    from gemdat.utils import bfill, ffill

    rng = np.random.default_rng(4444)
    out = []
    for case in range(N_FILL_CASES):
        shape = (int(rng.integers(1, 7)), int(rng.integers(1, 9)))
        if case % 10 == 9:
            shape = [(0, 4), (3, 0), (1, 1), (0, 0)][(case // 10) % 4]
        arr = rng.integers(-1, 4, shape)
        if case % 7 == 0:
            arr[:] = -1
        if case % 7 == 1:
            arr[arr == -1] = 2
        farr = arr.astype(float)
        farr[rng.uniform(size=shape) < 0.2] = np.nan
        rec = {'arr': arr}
        for name, fn in (('ffill', ffill), ('bfill', bfill)):
            rec[name] = run(lambda: fn(arr))
            rec[name + '_ax0'] = run(lambda: fn(arr, axis=0))
            rec[name + '_ax1'] = run(lambda: fn(arr, axis=1))
            rec[name + '_val2'] = run(lambda: fn(arr, fill_val=2))
            rec[name + '_val2_ax0'] = run(lambda: fn(arr, fill_val=2, axis=0))
            rec[name + '_fortran'] = run(lambda: fn(np.asfortranarray(arr)))
            rec[name + '_float_nan'] = run(lambda: fn(farr, fill_val=-1))
            rec[name + '_1d'] = run(lambda: fn(arr[0] if arr.shape[0] else arr.ravel()))
            rec[name + '_3d'] = run(lambda: fn(arr[None]))
            rec[name + '_3d_ax0'] = run(lambda: fn(arr[None], axis=0))
            before = arr.copy()
            run(lambda: fn(arr))
            rec[name + '_input_untouched'] = bool(np.array_equal(before, arr))
        out.append(rec)
    return out


def worker(path):
    import gemdat

    result = {
        'source': os.path.dirname(os.path.dirname(os.path.abspath(gemdat.__file__))),
        'rdf': rdf_cases(),
        'pair': pair_cases(),
        'helpers': helper_cases(),
        'fill': fill_cases(),
    }
    with open(path, 'wb') as fh:
        pickle.dump(result, fh)


# --------------------------------------------------------------------------- driver side
def compare(a, b, where, problems):
    import numpy as np

    if type(a) is not type(b):
        problems.append(f'{where}: type {type(a).__name__} != {type(b).__name__}')
        return
    if isinstance(a, dict):
        if list(a.keys()) != list(b.keys()):
            problems.append(f'{where}: keys/order {list(a.keys())} != {list(b.keys())}')
            return
        for k in a:
            compare(a[k], b[k], f'{where}[{k!r}]', problems)
    elif isinstance(a, (list, tuple)):
        if len(a) != len(b):
            problems.append(f'{where}: len {len(a)} != {len(b)}')
            return
        for i, (x, y) in enumerate(zip(a, b)):
            compare(x, y, f'{where}[{i}]', problems)
    elif isinstance(a, np.ndarray):
        if a.dtype != b.dtype or a.shape != b.shape:
            problems.append(f'{where}: dtype/shape {a.dtype}{a.shape} != {b.dtype}{b.shape}')
        elif a.dtype.kind == 'f':
            same = (a == b) | (np.isnan(a) & np.isnan(b))
            close = np.abs(np.where(same, 0.0, a - b)) <= TOL
            if not np.all(same | close):
                problems.append(f'{where}: float values differ (max {np.nanmax(np.abs(a - b))})')
        elif not np.array_equal(a, b):
            problems.append(f'{where}: values differ')
    elif isinstance(a, float):
        if not (a == b or (a != a and b != b) or abs(a - b) <= TOL):
            problems.append(f'{where}: {a} != {b}')
    elif a != b:
        problems.append(f'{where}: {a!r} != {b!r}')


def run_worker(src, hash_seed, path):
    env = dict(os.environ)
    env['PYTHONPATH'] = src
    env['PYTHONHASHSEED'] = hash_seed
    proc = subprocess.run(
        ['/venv/bin/python', os.path.abspath(__file__), '--worker', path],
        env=env,
        stdout=subprocess.PIPE,
        stderr=subprocess.PIPE,
        text=True,
    )
    if proc.returncode != 0:
        print(proc.stdout)
        print(proc.stderr)
        raise SystemExit(f'worker failed for {src}')
    with open(path, 'rb') as fh:
        return pickle.load(fh)


def main():
    problems = []
    total = 0
    for hash_seed in HASH_SEEDS:
        with tempfile.TemporaryDirectory() as td:
            orig = run_worker(ORIG_SRC, hash_seed, os.path.join(td, 'orig.pkl'))
            new = run_worker(NEW_SRC, hash_seed, os.path.join(td, 'new.pkl'))
        if os.path.realpath(orig['source']) != os.path.realpath(ORIG_SRC):
            raise SystemExit(f'original imported from {orig["source"]}')
        if os.path.realpath(new['source']) != os.path.realpath(NEW_SRC):
            raise SystemExit(f'refactored imported from {new["source"]}')
        for section in ('rdf', 'pair', 'helpers', 'fill'):
            compare(orig[section], new[section], f'seed{hash_seed}:{section}', problems)
            total += len(orig[section])
        n_ok = sum(1 for c in orig['rdf'] if isinstance(c, dict) and c['rdf'][0] == 'ok')
        n_pair_ok = sum(1 for c in orig['pair'] if c['function'][0] == 'ok')
        print(
            f'PYTHONHASHSEED={hash_seed}: rdf cases={len(orig["rdf"])} (ok={n_ok}) pair calls={len(orig["pair"])} '
            f'(ok={n_pair_ok}) helper cases={len(orig["helpers"])} fill cases={len(orig["fill"])}'
        )
    if problems:
        print(f'DIFFERENCES FOUND: {len(problems)}')
        for p in problems[:40]:
            print('  ', p)
        return 1
    print(f'all {total} cases identical between {ORIG_SRC} and {NEW_SRC}')
    return 0


if __name__ == '__main__':
    if len(sys.argv) == 3 and sys.argv[1] == '--worker':
        worker(sys.argv[2])
    else:
        sys.exit(main())
