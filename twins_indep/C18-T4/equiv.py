"""Differential test for refactoring C18/4.

Refactored: gemdat.utils.fft_autocorrelation (src/gemdat/utils.py), which implements
Orientations.autocorrelation.

The script runs itself twice as a worker, once with PYTHONPATH=/repo/src (original)
and once with PYTHONPATH=/tmp/wtt_C18/src (refactored), on identical seeded random
inputs, and compares every produced array bit for bit (TOL = 0) and every raised
exception by type.  Exit code 0 = equivalent, 1 = difference found.
"""

from __future__ import annotations

import os
import pickle
import subprocess
import sys
import tempfile
import warnings

ORIG = '/repo/src'
NEW = '/tmp/wtt_C18/src'
TOL = 0.0  # 0.0 -> bit-identical comparison (NaNs in the same places count as equal)
N_TRAJ = 40
SEED = 18004

GROUPS = ['1', '-1', '2', 'm', '2/m', '222', 'mm2', 'mmm', '4', '-4', '4/m', '422', '4mm',
          '-42m', '4/mmm', '23', 'm-3', '432', '-43m', 'm-3m', '3', '-3m', '6/mmm']


# --------------------------------------------------------------------------- inputs
def random_rotation(rng):
    import numpy as np
    q, r = np.linalg.qr(rng.normal(size=(3, 3)))
    q = q * np.sign(np.diag(r))
    if np.linalg.det(q) < 0:
        q[:, 0] = -q[:, 0]
    return q


def random_lattice(rng, kind):
    import numpy as np
    from pymatgen.core import Lattice
    a, b, c = rng.uniform(8.0, 12.0, size=3)
    if kind == 'cubic':
        latt = Lattice.cubic(a)
    elif kind == 'tetragonal':
        latt = Lattice.tetragonal(a, c)
    elif kind == 'orthorhombic':
        latt = Lattice.orthorhombic(a, b, c)
    elif kind == 'monoclinic':
        latt = Lattice.monoclinic(a, b, c, rng.uniform(95, 115))
    elif kind == 'hexagonal':
        latt = Lattice.hexagonal(a, c)
    else:
        latt = Lattice.from_parameters(a, b, c, *rng.uniform(72, 108, size=3))
    matrix = np.array(latt.matrix)
    if rng.random() < 0.5:  # rotated, non-standard cell orientation
        matrix = matrix @ random_rotation(rng).T
    return matrix


TETRA = [[1, 1, 1], [1, -1, -1], [-1, 1, -1], [-1, -1, 1]]


def random_trajectory(rng, idx):
    """Tetrahedral centre/satellite clusters, random orientation, bonds crossing faces."""
    import numpy as np
    from pymatgen.core import Element
    from gemdat import Trajectory

    kinds = ['cubic', 'tetragonal', 'orthorhombic', 'monoclinic', 'triclinic', 'hexagonal']
    matrix = random_lattice(rng, kinds[idx % len(kinds)])
    inv = np.linalg.inv(matrix)
    n_frames = int(rng.choice([1, 2, 3, 5, 8, 13, 20, 31]))
    n_clusters = int(rng.integers(1, 4))
    n_spectators = int(rng.integers(0, 3))
    bond = rng.uniform(0.9, 1.2)

    # well separated cluster centres, many of them next to a cell face
    corners = [(0.0, 0.0, 0.0), (0.5, 0.5, 0.0), (0.5, 0.0, 0.5), (0.0, 0.5, 0.5)]
    order = rng.permutation(len(corners))[:n_clusters]
    centres = np.array([corners[i] for i in order]) + rng.uniform(-0.03, 0.03, size=(n_clusters, 3))

    tetra = np.array(TETRA, dtype=float) / np.sqrt(3.0) * bond
    species = []
    frames = np.zeros((n_frames, 0, 3))
    columns = []
    for k in range(n_clusters):
        rot0 = random_rotation(rng)
        drift = np.cumsum(rng.normal(scale=0.004, size=(n_frames, 3)), axis=0)
        cent = centres[k] + drift  # fractional
        columns.append(('S', cent))
        for s in range(4):
            sat = np.zeros((n_frames, 3))
            for t in range(n_frames):
                # slow rigid rotation about z of the cluster frame + jitter
                ang = 0.05 * t * (k + 1)
                rz = np.array([[np.cos(ang), -np.sin(ang), 0], [np.sin(ang), np.cos(ang), 0], [0, 0, 1]])
                vec = rot0 @ rz @ tetra[s] + rng.normal(scale=0.02, size=3)
                sat[t] = cent[t] + vec @ inv
            columns.append(('O', sat))
    for _ in range(n_spectators):
        pos = np.array([0.25, 0.25, 0.25]) + rng.uniform(-0.02, 0.02, size=3)
        columns.append(('Li', pos + np.cumsum(rng.normal(scale=0.01, size=(n_frames, 3)), axis=0)))

    perm = rng.permutation(len(columns))  # interleave species
    species = [Element(columns[i][0]) for i in perm]
    coords = np.stack([columns[i][1] for i in perm], axis=1)
    if rng.random() < 0.5:
        coords = np.mod(coords, 1.0)
    return Trajectory(species=species, coords=coords, lattice=matrix, time_step=1e-15,
                      metadata={'temperature': 300})


# --------------------------------------------------------------------------- worker
def record(results, key, fn):
    import numpy as np
    try:
        with warnings.catch_warnings():
            warnings.simplefilter('ignore')
            val = fn()
        results[key] = ('OK', np.array(val))
    except Exception as exc:  # noqa: BLE001
        results[key] = ('EXC', type(exc).__name__)


def run_cases():
    import numpy as np
    import gemdat
    from gemdat.orientations import Orientations, calculate_spherical_areas
    from gemdat.utils import cartesian_to_spherical, fft_autocorrelation

    root = os.environ['PYTHONPATH'].split(os.pathsep)[0]
    assert os.path.abspath(gemdat.__file__).startswith(root), (gemdat.__file__, root)

    rng = np.random.default_rng(SEED)
    results: dict = {}

    # ---- full pipeline on synthetic molecular trajectories
    for i in range(N_TRAJ):
        traj = random_trajectory(rng, i)
        group = GROUPS[int(rng.integers(len(GROUPS)))]
        ops_many = rng.normal(size=(3, 3, int(rng.integers(1, 6))))
        op_single = rng.normal(size=(3, 3))
        matrix = rng.normal(size=(3, 3))
        pre = f'traj{i}'
        try:
            ori = Orientations(traj, 'S', 'O')
        except Exception as exc:  # noqa: BLE001
            results[f'{pre}/construct'] = ('EXC', type(exc).__name__)
            continue
        results[f'{pre}/construct'] = ('OK', np.array(ori.vectors))
        record(results, f'{pre}/distances', lambda: ori._distances)
        record(results, f'{pre}/matching',
               lambda: ori._matching_matrix(ori._distances, ori._trajectory_cent.positions))
        record(results, f'{pre}/combinations',
               lambda: ori._central_satellite_matrix(ori._distances, ori._trajectory_cent.positions))
        record(results, f'{pre}/fracdir', lambda: ori._fractional_directions(ori._distances))
        record(results, f'{pre}/normalize', lambda: ori.normalize().vectors)
        record(results, f'{pre}/sym_group_{group}', lambda: ori.symmetrize(sym_group=group).vectors)
        record(results, f'{pre}/sym_group_norm',
               lambda: ori.normalize().symmetrize(sym_group=group).vectors)
        record(results, f'{pre}/sym_ops_many', lambda: ori.symmetrize(sym_ops=ops_many).vectors)
        record(results, f'{pre}/sym_ops_single', lambda: ori.symmetrize(sym_ops=op_single).vectors)
        record(results, f'{pre}/sym_ops_over_group',
               lambda: ori.symmetrize(sym_group=group, sym_ops=ops_many).vectors)
        record(results, f'{pre}/sym_none', lambda: ori.symmetrize().vectors)
        record(results, f'{pre}/sym_empty', lambda: ori.symmetrize(sym_group='').vectors)
        record(results, f'{pre}/transform', lambda: ori.transform(matrix).vectors)
        record(results, f'{pre}/transform_bad', lambda: ori.transform(matrix[:2]).vectors)
        record(results, f'{pre}/spherical', lambda: ori.vectors_spherical)
        record(results, f'{pre}/spherical_rad',
               lambda: cartesian_to_spherical(ori.vectors, degrees=False))
        record(results, f'{pre}/autocorr', lambda: ori.autocorrelation())
        record(results, f'{pre}/autocorr_norm_sym',
               lambda: ori.normalize().symmetrize(sym_group=group).autocorrelation())
        # swapped roles / absent species (boundary: empty selection)
        record(results, f'{pre}/swapped', lambda: Orientations(traj, 'O', 'S').vectors)
        record(results, f'{pre}/no_centre', lambda: Orientations(traj, 'Na', 'O').vectors)
        record(results, f'{pre}/no_satellite', lambda: Orientations(traj, 'S', 'Na').vectors)

    # ---- direct calls of the index-matching helpers with hand-made distance tables
    base = random_trajectory(rng, 0)
    shell = Orientations(base, 'S', 'O', in_vectors=np.zeros((1, 1, 3)))
    for j in range(40):
        n_c = int(rng.integers(1, 5))
        n_s = int(rng.integers(4, 12))
        n_t = int(rng.integers(1, 4))
        frac_cent = rng.random((n_t, n_c, 3))
        frac_sat = rng.random((n_t, n_s, 3))
        # quantise some coordinates so differences of exactly +-0.5 occur
        if j % 2:
            frac_cent = np.round(frac_cent * 4) / 4 % 1
            frac_sat = np.round(frac_sat * 4) / 4 % 1
        dist = rng.uniform(3.0, 6.0, size=(n_c, n_s))
        mode = j % 5
        for k in range(n_c):
            n_close = {0: 4, 1: 4, 2: 6, 3: 3, 4: 4}[mode]
            close = rng.permutation(n_s)[:n_close]
            dist[k, close] = rng.uniform(1.0, 1.4, size=len(close))
        if mode == 4:
            dist[0, int(rng.integers(n_s))] = 0.0  # coincident atoms are never matched
            if j % 10 == 9:
                dist[-1, int(rng.integers(n_s))] = np.nan
        for shape_tag, d in (('2d', dist), ('4d', dist[:, :, None, None])):
            pre = f'direct{j}/{shape_tag}'
            record(results, f'{pre}/matching', lambda: shell._matching_matrix(d, frac_cent))
            record(results, f'{pre}/combinations',
                   lambda: shell._central_satellite_matrix(d, frac_cent))

            def via_fracdir():
                # _fractional_directions reads positions through the filtered trajectories
                from pymatgen.core import Element
                from gemdat import Trajectory
                sp = [Element('S')] * n_c + [Element('O')] * n_s
                tr = Trajectory(species=sp, coords=np.concatenate([frac_cent, frac_sat], axis=1),
                                lattice=np.array(base.get_lattice().matrix), time_step=1e-15,
                                metadata={'temperature': 300})
                o = Orientations(tr, 'S', 'O', in_vectors=np.zeros((1, 1, 3)))
                return o._fractional_directions(d)

            record(results, f'{pre}/fracdir', via_fracdir)

    # ---- tiny cells on a quarter grid: fractional differences of exactly +-0.5, +-0.75
    for j in range(40):
        from pymatgen.core import Element
        from gemdat import Trajectory
        kinds = ['cubic', 'tetragonal', 'orthorhombic', 'monoclinic', 'triclinic', 'hexagonal']
        matrix = random_lattice(rng, kinds[j % len(kinds)]) / 4.0
        n_t = int(rng.integers(1, 6))
        n_s = int(rng.integers(4, 8))
        coords = rng.integers(0, 4, size=(n_t, 1 + n_s, 3)) / 4.0
        if j % 3 == 0:
            coords = coords + rng.normal(scale=0.01, size=coords.shape)
        coords[1:] = coords[0] + (coords[1:] - coords[0]) * (j % 2)  # odd j: atoms hop around
        if j % 2 == 0:
            coords[1:, 1:] = np.mod(coords[1:, 1:] + rng.integers(0, 4, size=(n_t - 1, n_s, 3)) / 4.0, 1)
        sp = [Element('S')] + [Element('O')] * n_s
        tr = Trajectory(species=sp, coords=coords, lattice=matrix, time_step=1e-15,
                        metadata={'temperature': 300})
        record(results, f'grid{j}/vectors', lambda: Orientations(tr, 'S', 'O').vectors)
        record(results, f'grid{j}/norm', lambda: Orientations(tr, 'S', 'O').normalize().vectors)

    # ---- direct calls of the array utilities
    for j in range(30):
        n_t = int(rng.choice([1, 2, 3, 4, 7, 16, 33]))
        n_p = int(rng.integers(0, 6))
        n_c = int(rng.integers(1, 5))
        sig = rng.normal(size=(n_t, n_p, n_c))
        if j % 6 == 1:
            sig = sig.astype(np.float32)
        if j % 6 == 2:
            sig = (sig * 5).astype(int)
        if j % 6 == 3 and n_p:
            sig[:, 0, :] = 0.0  # zero signal -> 0/0
        if j % 6 == 4:
            sig = np.asfortranarray(sig)
        record(results, f'fft{j}', lambda: fft_autocorrelation(sig))
        if n_c >= 3:
            record(results, f'sph{j}', lambda: cartesian_to_spherical(sig.astype(float)))
    # ---- fft_autocorrelation: dtypes, layouts and degenerate shapes
    for j in range(60):
        n_t = int(rng.choice([0, 1, 2, 3, 4, 5, 8, 9, 16, 17, 50, 101]))
        n_p = int(rng.integers(0, 5))
        n_c = int(rng.integers(0, 5))
        sig = rng.normal(size=(n_t, n_p, n_c)) * 10 ** rng.uniform(-3, 3)
        dt = ['f8', 'f4', 'f2', 'i8', 'i4', 'u1', 'g', 'c16', 'b1', 'f8'][j % 10]
        with warnings.catch_warnings():
            warnings.simplefilter('ignore')
            sig = sig.astype(dt)
        layout = j % 4
        if layout == 1:
            sig = np.asfortranarray(sig)
        elif layout == 2:
            sig = np.ascontiguousarray(sig.transpose(2, 0, 1)).transpose(1, 2, 0)
        elif layout == 3:
            sig = np.repeat(sig, 2, axis=0)[::2]
        record(results, f'fftx{j}/{dt}', lambda: fft_autocorrelation(sig))
        record(results, f'fftx{j}/{dt}/readonly_input_unchanged', lambda: sig)
    record(results, 'fft_2d', lambda: fft_autocorrelation(rng.normal(size=(5, 3))))
    record(results, 'fft_4d', lambda: fft_autocorrelation(rng.normal(size=(5, 3, 3, 2))))
    record(results, 'fft_list', lambda: fft_autocorrelation(rng.normal(size=(5, 3, 3)).tolist()))
    const = np.ones((12, 2, 3))
    record(results, 'fft_const', lambda: fft_autocorrelation(const))
    # unit vectors rotating uniformly: the textbook check input
    tt = np.arange(64)[:, None] * np.array([0.05, 0.3])
    rot = np.stack([np.cos(tt), np.sin(tt), np.zeros_like(tt)], axis=-1)
    record(results, 'fft_rot', lambda: fft_autocorrelation(rot))
    record(results, 'areas', lambda: calculate_spherical_areas((30, 40), radius=2.0))
    return results


# --------------------------------------------------------------------------- driver
def compare(a, b):
    import numpy as np
    bad = []
    worst = 0.0
    if set(a) != set(b):
        bad.append(f'key sets differ: {sorted(set(a) ^ set(b))[:5]}')
    for key in sorted(set(a) & set(b)):
        ra, rb = a[key], b[key]
        if ra[0] != rb[0]:
            bad.append(f'{key}: {ra[0]} vs {rb[0]} ({ra[1] if ra[0] == "EXC" else ""}{rb[1] if rb[0] == "EXC" else ""})')
            continue
        if ra[0] == 'EXC':
            if ra[1] != rb[1]:
                bad.append(f'{key}: exception {ra[1]} vs {rb[1]}')
            continue
        x, y = ra[1], rb[1]
        if x.shape != y.shape or x.dtype != y.dtype:
            bad.append(f'{key}: shape/dtype {x.shape}/{x.dtype} vs {y.shape}/{y.dtype}')
            continue
        if np.array_equal(x, y, equal_nan=True):
            continue
        if not np.array_equal(np.isnan(x), np.isnan(y)):
            bad.append(f'{key}: NaN pattern differs')
            continue
        with np.errstate(invalid='ignore'):
            diff = float(np.nanmax(np.abs(x.astype(float) - y.astype(float)))) if x.size else 0.0
        worst = max(worst, diff)
        if not diff <= TOL:
            bad.append(f'{key}: max abs diff {diff:.3e} > {TOL}')
    return bad, worst


def main():
    outs = []
    with tempfile.TemporaryDirectory() as td:
        for tag, root in (('orig', ORIG), ('new', NEW)):
            out = os.path.join(td, f'{tag}.pkl')
            env = dict(os.environ, PYTHONPATH=root, PYTHONHASHSEED='0')
            subprocess.run([sys.executable, os.path.abspath(__file__), '--worker', out],
                           env=env, check=True, cwd=td)
            with open(out, 'rb') as fh:
                outs.append(pickle.load(fh))
    a, b = outs
    n_ok = sum(1 for k, v in a.items() if k.endswith('/construct') and v[0] == 'OK')
    n_arr = sum(1 for v in a.values() if v[0] == 'OK')
    n_exc = sum(1 for v in a.values() if v[0] == 'EXC')
    bad, worst = compare(a, b)
    print(f'trajectories built={n_ok}/{N_TRAJ} results={len(a)} arrays={n_arr} exceptions={n_exc} '
          f'max_abs_diff={worst:.3e} tol={TOL}')
    if n_ok < 20:
        bad.append(f'only {n_ok} valid randomised trajectories (<20)')
    for line in bad[:40]:
        print('DIFF', line)
    print('EQUIVALENT' if not bad else f'NOT EQUIVALENT ({len(bad)} differences)')
    return 1 if bad else 0


if __name__ == '__main__':
    if len(sys.argv) == 3 and sys.argv[1] == '--worker':
        res = run_cases()
        with open(sys.argv[2], 'wb') as fh:
            pickle.dump(res, fh)
        sys.exit(0)
    sys.exit(main())
