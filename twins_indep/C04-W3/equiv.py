"""Differential test: original GEMDAT (/repo/src) vs refactored worktree (/tmp/wtw_C04/src).

The same worker is run twice in a subprocess, once with each PYTHONPATH; the
pickled results (states, events, jumps, exception types/messages) must be identical.
"""
import os
import pickle
import subprocess
import sys
import tempfile

ORIG = '/repo/src'
NEW = '/tmp/wtw_C04/src'


def _df(df):
    return (
        df.to_numpy().tolist(),
        list(df.columns),
        [str(t) for t in df.dtypes],
        list(df.index),
        df.to_numpy().dtype.str,
    )


def _random_states(rng, n_t, n_a, n_s, p_nosite):
    import numpy as np

    states = np.empty((n_t, n_a), dtype=int)
    for a in range(n_a):
        col = []
        while len(col) < n_t:
            length = int(rng.integers(1, 8))
            val = -1 if rng.random() < p_nosite else int(rng.integers(0, n_s))
            col.extend([val] * length)
        states[:, a] = col[:n_t]
    return states


def worker(out):
    import types
    import warnings

    warnings.simplefilter('ignore')
    import numpy as np
    import gemdat
    from gemdat import Trajectory
    from gemdat.jumps import Jumps, _generic_transitions_to_jumps
    from gemdat.transitions import Transitions, _calculate_transition_events
    from pymatgen.core import Element, Lattice, Structure

    assert gemdat.__file__.startswith(os.environ['EXPECT_ROOT']), gemdat.__file__
    results = {}

    def call(f, *a, **k):
        try:
            return ('ok', f(*a, **k))
        except Exception as e:  # noqa
            return ('err', type(e).__name__, str(e))

    # ---- Part A: synthetic state arrays fed directly to the event / jump code
    for seed in range(60):
        rng = np.random.default_rng(seed)
        n_t = int(rng.integers(1, 70))
        n_a = int(rng.integers(1, 6))
        n_s = int(rng.integers(1, 5))
        states = _random_states(rng, n_t, n_a, n_s, rng.choice([0.0, 0.3, 0.6]))
        mode = seed % 4
        if mode == 0:
            inner = states.copy()
        elif mode in (1, 2):
            inner = np.where(rng.random(states.shape) < 0.6, states, -1)
        else:  # inner unrelated to outer (unusual, but must behave the same)
            inner = _random_states(rng, n_t, n_a, n_s, 0.5)
        if seed % 7 == 0:  # some atoms never move
            states[:, 0] = states[0, 0]
        if seed % 11 == 0:  # nobody moves -> error path
            states[:] = 0
        r = call(_calculate_transition_events, atom_sites=states, atom_inner_sites=inner)
        if r[0] == 'ok':
            ev = r[1]
            results[('A-ev', seed)] = _df(ev)
            for mr in (0, 1, 2, 3, 6):
                fake = types.SimpleNamespace(events=ev)
                j = call(_generic_transitions_to_jumps, fake, minimal_residence=mr)
                results[('A-j', seed, mr)] = _df(j[1]) if j[0] == 'ok' else j
            assert list(fake.events.columns) == list(ev.columns)
            results[('A-ev-after', seed)] = _df(ev)  # input must not be mutated
        else:
            results[('A-ev', seed)] = r

    # ---- Part B: full pipeline from synthetic trajectories
    for seed in range(30):
        rng = np.random.default_rng(1000 + seed)
        kind = seed % 3
        if kind == 0:
            lat = Lattice.cubic(float(rng.uniform(7, 9)))
        elif kind == 1:
            lat = Lattice.from_parameters(
                rng.uniform(7, 9), rng.uniform(7, 9), rng.uniform(7, 9),
                rng.uniform(75, 105), rng.uniform(75, 105), rng.uniform(75, 105),
            )
        else:  # rotated triclinic cell
            base = Lattice.from_parameters(8.0, 7.5, 9.0, 80, 95, 100).matrix
            q, _ = np.linalg.qr(rng.normal(size=(3, 3)))
            lat = Lattice(base @ q)
        grid = np.array([[x, y, z] for x in (0.02, 0.5) for y in (0.01, 0.49) for z in (0.98, 0.52)])
        n_sites = int(rng.integers(3, 9))
        site_frac = grid[rng.permutation(len(grid))[:n_sites]]
        labels = [('A' if i % 2 == 0 else 'B') for i in range(n_sites)]
        sites = Structure(lat, ['Li'] * n_sites, site_frac, labels=labels)

        n_t = int(rng.integers(20, 80))
        n_li = int(rng.integers(1, 4))
        n_fix = 2
        coords = np.zeros((n_t, n_li + n_fix, 3))
        for a in range(n_li):
            cur = int(rng.integers(0, n_sites))
            pos = site_frac[cur].copy()
            for t in range(n_t):
                if rng.random() < 0.15:
                    cur = int(rng.integers(0, n_sites))
                target = site_frac[cur]
                d = target - pos
                d -= np.round(d)
                pos = pos + 0.45 * d + rng.normal(scale=0.012, size=3)
                coords[t, a] = pos
        for a in range(n_fix):
            coords[:, n_li + a] = rng.random(3) + rng.normal(scale=0.004, size=(n_t, 3))
        coords = coords % 1.0
        species = [Element('Li')] * n_li + [Element('S')] * n_fix
        traj = Trajectory(species=species, coords=coords, lattice=lat, time_step=1e-15,
                          metadata={'temperature': 300})
        rsel = seed % 5
        if rsel in (0, 1):
            radius = float(rng.uniform(0.6, 1.1))
        elif rsel in (2, 3):
            radius = {'A': float(rng.uniform(0.6, 1.1)), 'B': float(rng.uniform(0.5, 1.0))}
            if seed % 2:
                radius['Z'] = 0.7  # label without sites -> error path
        else:
            radius = None
        for frac in (1.0, 0.7, 0.4):
            r = call(Transitions.from_trajectory, trajectory=traj, sites=sites,
                     floating_specie='Li', site_radius=radius, site_inner_fraction=frac)
            if r[0] != 'ok':
                results[('B', seed, frac)] = r
                continue
            tr = r[1]
            results[('B-states', seed, frac)] = (tr.states.tolist(), tr.states.dtype.str,
                                                 tr.inner_states.tolist(), tr.inner_states.dtype.str)
            results[('B-ev', seed, frac)] = _df(tr.events)
            results[('B-mat', seed, frac)] = tr.matrix().tolist()
            for mr in (0, 2, 5):
                j = call(Jumps, tr, minimal_residence=mr)
                results[('B-j', seed, frac, mr)] = _df(j[1].data) if j[0] == 'ok' else j

    # empty selection
    r = call(Transitions.from_trajectory, trajectory=traj, sites=sites, floating_specie='Na',
             site_radius=0.8)
    results['empty'] = r if r[0] == 'err' else 'ok'

    with open(out, 'wb') as f:
        pickle.dump(results, f)


def main():
    outs = []
    with tempfile.TemporaryDirectory() as td:
        for name, root in (('orig', ORIG), ('new', NEW)):
            out = os.path.join(td, name + '.pkl')
            env = dict(os.environ, PYTHONPATH=root, EXPECT_ROOT=root)
            subprocess.run([sys.executable, os.path.abspath(__file__), '--worker', out],
                           env=env, check=True, cwd=td)
            with open(out, 'rb') as f:
                outs.append(pickle.load(f))
    a, b = outs
    bad = [k for k in sorted(set(a) | set(b), key=str) if a.get(k, '<missing>') != b.get(k, '<missing>')]
    n_ok = sum(1 for v in a.values() if not (isinstance(v, tuple) and v and v[0] == 'err'))
    n_err = len(a) - n_ok
    print(f'compared {len(a)} results ({n_ok} values, {n_err} error paths); differing: {len(bad)}')
    for k in bad[:10]:
        print('DIFF', k, '\n  orig:', str(a.get(k))[:300], '\n  new: ', str(b.get(k))[:300])
    sys.exit(1 if bad or not a else 0)


if __name__ == '__main__':
    if len(sys.argv) > 2 and sys.argv[1] == '--worker':
        worker(sys.argv[2])
    else:
        main()
