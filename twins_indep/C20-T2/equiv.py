"""Differential test for refactoring 2 (src/gemdat/metrics.py: bodies of the @weak_lru_cache methods
of TrajectoryMetrics rewritten with temporaries / np.square / .mean() / nested helper + comprehension).

The same scenario is executed in two subprocesses, one with PYTHONPATH=/repo/src (ORIGINAL) and one
with PYTHONPATH=/tmp/wtt_C20/src (refactored); the pickled results (values, dtypes, shapes,
exception types+messages, liveness flags) must be identical
(floats: equal to within 1e-12 relative, in practice bit-identical or 1 ulp apart).

Scenario: 36 random trajectories (general triclinic, rotated triclinic, cubic, tiny/large cells;
1..5 atoms, mixed species, atoms that cross cell faces, frozen atoms, 1- and 2-frame trajectories),
three TrajectoryMetrics objects per trajectory (more than one object alive, re-queried twice with
varying `dimensions` / `z_ion`), then dropped and garbage collected.  Every cached result is also
compared with the result of a freshly created object (uncached recomputation).
"""
import gc
import os
import pickle
import subprocess
import sys
import warnings
import weakref

ORIG_SRC = '/repo/src'
NEW_SRC = '/tmp/wtt_C20/src'
N_CASES = 36


def call(fn, *args, **kwargs):
    import numpy as np

    try:
        with warnings.catch_warnings():
            warnings.simplefilter('ignore')
            res = fn(*args, **kwargs)
    except Exception as exc:  # noqa: BLE001
        return ('EXC', type(exc).__name__, str(exc))
    if isinstance(res, tuple):
        return tuple(plain(x) for x in res)
    return plain(res)


def plain(x):
    import numpy as np

    if isinstance(x, np.ndarray):
        return np.array(x)
    if hasattr(x, 'unit') and isinstance(x, float):
        return ('FWU', float(x), str(x.unit))
    if hasattr(x, 'nominal_value'):
        return ('UF', float(x.nominal_value), float(x.std_dev))
    if isinstance(x, (float, np.floating)):
        return float(x)
    return x


def make_case(seed):
    import numpy as np
    from pymatgen.core import Element, Lattice

    rng = np.random.default_rng(seed)
    kind = seed % 4
    if kind == 0:
        lattice = Lattice.from_parameters(*rng.uniform(3, 10, 3), *rng.uniform(60, 120, 3))
    elif kind == 1:
        m = Lattice.from_parameters(*rng.uniform(4, 8, 3), 75, 100, 110).matrix
        q, _ = np.linalg.qr(rng.normal(size=(3, 3)))
        lattice = Lattice(m @ q)  # rotated cell, not lower triangular
    elif kind == 2:
        lattice = Lattice.cubic(rng.uniform(1, 6))
    else:
        lattice = Lattice.hexagonal(rng.uniform(3, 5), rng.uniform(5, 12))
    if seed in (5, 6):
        n_t = 1 if seed == 5 else 2
    else:
        n_t = int(rng.integers(3, 60))
    n_at = int(rng.integers(1, 6))
    scale = rng.choice([0.0, 0.01, 0.1, 0.3])  # 0.0 -> frozen atoms; 0.3 -> many face crossings
    steps = rng.normal(scale=scale, size=(n_t, n_at, 3))
    start = rng.uniform(0, 1, (1, n_at, 3))
    if seed % 5 == 0:
        start[0, 0] = [0.0, 0.999999, 0.5]  # sits on / next to a face
    coords = (start + np.cumsum(steps, axis=0)) % 1.0
    pool = [Element('Li'), Element('Na'), Element('O'), Element('S')]
    species = [pool[int(i)] for i in rng.integers(0, len(pool), n_at)]
    kw = dict(
        species=species,
        lattice=lattice,
        time_step=float(rng.uniform(0.5e-15, 3e-15)),
        metadata={'temperature': float(rng.uniform(100, 1200))},
    )
    return coords, kw


def child():
    import numpy as np

    import gemdat
    from gemdat.metrics import TrajectoryMetrics, TrajectoryMetricsStd

    assert gemdat.__file__.startswith(os.environ['EXPECT_SRC']), gemdat.__file__

    def query(m, rnd):
        rec = [
            call(m.speed),
            call(m.particle_density),
            call(m.mol_per_liter),
            call(m.attempt_frequency),
            call(m.vibration_amplitude),
            call(m.amplitudes),
            call(m.tracer_diffusivity),
            call(m.tracer_diffusivity_center_of_mass),
            call(m.haven_ratio),
        ]
        for d in (1, 2, 3)[:: 1 if rnd == 0 else -1]:
            rec.append(call(m.tracer_diffusivity, dimensions=d))
            rec.append(call(m.tracer_diffusivity_center_of_mass, dimensions=d))
            rec.append(call(m.haven_ratio, dimensions=d))
            for z in (1, 2, -1):
                rec.append(call(m.tracer_conductivity, z_ion=z, dimensions=d))
            rec.append(call(m.tracer_conductivity, z_ion=d))
        rec.append(call(m.tracer_conductivity))  # missing z_ion -> TypeError
        return rec

    out = []
    for seed in range(N_CASES):
        coords, kw = make_case(seed)
        variants = [coords, coords[::-1].copy(), np.roll(coords, 1, axis=1)]
        trajs = [gemdat.Trajectory(coords=c, **kw) for c in variants]
        objs = [TrajectoryMetrics(t) for t in trajs]
        rec = []
        for rnd in range(2):
            for m in objs:
                rec.append(query(m, rnd))
        # transparency: cached == fresh recomputation
        for t, m in zip(trajs, objs):
            fresh = query(TrajectoryMetrics(t), 0)
            cached = query(m, 0)
            assert same(fresh, cached), f'cache not transparent, seed {seed}'
        std = TrajectoryMetricsStd(trajs)
        rec.append(call(std.speed))
        rec.append(call(std.tracer_diffusivity, dimensions=3))
        rec.append(call(std.tracer_conductivity, z_ion=1, dimensions=3))
        rec.append(call(std.vibration_amplitude))
        refs = [weakref.ref(m) for m in objs]
        del objs, m, std
        rec.append([r() is None for r in refs])
        gc.collect()
        rec.append([r() is None for r in refs])
        out.append(rec)
    sys.stdout.buffer.write(pickle.dumps(out))


RTOL = 1e-12  # numpy SIMD transcendental loops (np.log) jitter by 1 ulp with buffer alignment, even
# between two runs of the ORIGINAL code, so floats are compared to 1e-12 relative instead of bitwise
MAXDEV = [0.0]


def same(a, b):
    import numpy as np

    if isinstance(a, (list, tuple)):
        return type(a) is type(b) and len(a) == len(b) and all(same(x, y) for x, y in zip(a, b))
    if isinstance(a, np.ndarray):
        if not (isinstance(b, np.ndarray) and a.shape == b.shape and a.dtype == b.dtype):
            return False
        if a.dtype.kind != 'f':
            return bool(np.array_equal(a, b))
        if np.array_equal(a, b, equal_nan=True):
            return True
        if not np.array_equal(np.isnan(a), np.isnan(b)) or not np.array_equal(np.isinf(a), np.isinf(b)):
            return False
        fin = np.isfinite(a)
        if not np.array_equal(a[~fin & ~np.isnan(a)], b[~fin & ~np.isnan(b)]):
            return False
        scale = max(np.abs(a[fin]).max(), np.abs(b[fin]).max())
        dev = np.abs(a[fin] - b[fin]).max() / scale
        MAXDEV[0] = max(MAXDEV[0], float(dev))
        return bool(dev <= RTOL)
    if isinstance(a, float):
        if not isinstance(b, float):
            return False
        if a == b or (a != a and b != b):
            return True
        if a != a or b != b or abs(a) == float('inf') or abs(b) == float('inf'):
            return False
        dev = abs(a - b) / max(abs(a), abs(b))
        MAXDEV[0] = max(MAXDEV[0], dev)
        return dev <= RTOL
    return type(a) is type(b) and a == b


def first_diff(a, b, path=''):
    if isinstance(a, (list, tuple)) and isinstance(b, (list, tuple)) and len(a) == len(b):
        for i, (x, y) in enumerate(zip(a, b)):
            if not same(x, y):
                return first_diff(x, y, f'{path}[{i}]')
    return f'{path}: {a!r} != {b!r}'


def main():
    results = []
    for src in (ORIG_SRC, NEW_SRC):
        env = dict(os.environ, PYTHONPATH=src, EXPECT_SRC=src, PYTHONHASHSEED='0')
        proc = subprocess.run(
            [sys.executable, os.path.abspath(__file__), '--child'],
            env=env, stdout=subprocess.PIPE, stderr=subprocess.PIPE, cwd='/tmp',
        )
        if proc.returncode != 0:
            print(proc.stderr.decode()[-3000:])
            return 1
        results.append(pickle.loads(proc.stdout))
    if not same(results[0], results[1]):
        print('results differ:', first_diff(results[0], results[1]))
        return 1
    n_values = sum(len(q) for case in results[0] for q in case if isinstance(q, list))
    n_exc = sum(
        1 for case in results[0] for q in case if isinstance(q, list)
        for v in q if isinstance(v, tuple) and v[:1] == ('EXC',)
    )
    print(f'{len(results[0])} random cases, {n_values} compared values ({n_exc} exceptions) identical')
    return 0


if __name__ == '__main__':
    if '--child' in sys.argv:
        child()
        sys.exit(0)
    rc = main()
    print(f'max relative float deviation seen: {MAXDEV[0]:.3g} (tolerance {RTOL})')
    print('EQUIVALENT' if rc == 0 else 'DIFFERENT')
    sys.exit(rc)
