"""Differential test: original GEMDAT (/repo/src) vs refactored worktree (/tmp/wtu_C04/src).

The same worker program is executed twice in a subprocess, once with
PYTHONPATH=/repo/src and once with PYTHONPATH=/tmp/wtu_C04/src.  Each run
produces a pickled list of canonicalised results (arrays as dtype/shape/bytes,
data frames as columns/dtypes/index/values, exceptions as type+message,
warnings as category+message).  The parent compares both lists and exits
non-zero on any difference.

Exercised code: transitions._calculate_transition_events (directly, on random
state arrays), transitions._calculate_atom_states / Transitions.from_trajectory
(on random triclinic / rotated cells, unwrapped coordinates, label dependent
radii, inner fractions), jumps._generic_transitions_to_jumps (directly on
synthetic events and through Transitions.jumps with several minimal
residences), transition matrices and splitting.
"""

import os
import pickle
import subprocess
import sys
import tempfile

ORIG = '/repo/src'
NEW = '/tmp/wtu_C04/src'
PY = '/venv/bin/python'

WORKER = r'''
import sys, pickle, warnings, types
import numpy as np
import pandas as pd

expected_root, out_path = sys.argv[1], sys.argv[2]
import gemdat
assert gemdat.__file__.startswith(expected_root), (gemdat.__file__, expected_root)
from gemdat import Trajectory
from gemdat import transitions as T
from gemdat import jumps as J
from pymatgen.core import Element, Lattice, Structure


def canon(obj):
    if isinstance(obj, pd.DataFrame):
        return ('DF', [str(c) for c in obj.columns], [str(d) for d in obj.dtypes],
                canon(np.asarray(obj.index)), canon(obj.to_numpy()))
    if isinstance(obj, np.ndarray):
        arr = np.ascontiguousarray(obj)
        if arr.dtype == object:
            return ('OARR', arr.shape, [canon(x) for x in arr.ravel().tolist()])
        return ('ARR', str(arr.dtype), arr.shape, arr.tobytes())
    if isinstance(obj, (list, tuple)):
        return ('SEQ', [canon(x) for x in obj])
    if isinstance(obj, dict):
        return ('MAP', [(canon(k), canon(v)) for k, v in obj.items()])
    if isinstance(obj, (np.integer,)):
        return ('I', int(obj))
    if isinstance(obj, (float, np.floating)):
        return ('F', float(obj).hex())
    return ('O', repr(obj))


def guarded(func):
    with warnings.catch_warnings(record=True) as caught:
        warnings.simplefilter('always')
        try:
            res = ('OK', canon(func()))
        except Exception as exc:  # noqa
            res = ('EXC', type(exc).__name__, str(exc))
    msgs = sorted((w.category.__name__, str(w.message)) for w in caught
                  if w.category.__name__ not in ('DeprecationWarning', 'FutureWarning'))
    return res, msgs


# ---------------------------------------------------------------- state arrays
def random_states(rng, n_frames, n_atoms, n_sites, p_nosite, dtype):
    out = np.empty((n_frames, n_atoms), dtype=dtype)
    for a in range(n_atoms):
        seq = []
        while len(seq) < n_frames:
            site = -1 if rng.random() < p_nosite else int(rng.integers(0, n_sites))
            seq.extend([site] * int(rng.integers(1, 7)))
        out[:, a] = seq[:n_frames]
    return out


def inner_from(rng, states, mode):
    if mode == 'same':
        return states.copy()
    if mode == 'subset':
        inner = states.copy()
        inner[rng.random(states.shape) < 0.4] = -1
        return inner
    if mode == 'never':
        return np.full_like(states, -1)
    # independent
    return random_states(rng, states.shape[0], states.shape[1], 4, 0.5, states.dtype)


results = []

rng = np.random.default_rng(20240404)
state_cases = []
shapes = [(1, 1), (2, 4), (3, 2), (8, 5), (17, 3), (40, 6), (64, 2), (120, 4), (30, 3), (200, 2)]
for k in range(70):
    n_frames, n_atoms = shapes[k % len(shapes)]
    n_sites = int(rng.integers(1, 6))
    dtype = [np.int64, np.int32, np.int64][k % 3]
    st = random_states(rng, n_frames, n_atoms, n_sites, [0.0, 0.3, 0.6][k % 3], dtype)
    if k % 11 == 0:
        st[:, 0] = st[0, 0]            # an atom that never moves
    if k % 13 == 0:
        st[:] = st[0]                  # nobody moves -> no events at all
    if k % 7 == 0 and n_frames > 1:
        st[-1] = (st[-2] + 1) % n_sites  # change on the very last step
    inner = inner_from(rng, st, ['same', 'subset', 'never', 'independent'][k % 4])
    state_cases.append((st, inner))

for st, inner in state_cases:
    res = guarded(lambda: T._calculate_transition_events(atom_sites=st, atom_inner_sites=inner))
    results.append(('events', res))

    def jumps_direct(mr):
        ev = T._calculate_transition_events(atom_sites=st, atom_inner_sites=inner)
        fake = types.SimpleNamespace(events=ev)
        return J._generic_transitions_to_jumps(fake, minimal_residence=mr)

    for mr in (0, 1, 2, 5, 2.5):
        results.append(('jumps_direct', mr, guarded(lambda: jumps_direct(mr))))

    def matrix():
        ev = T._calculate_transition_events(atom_sites=st, atom_inner_sites=inner)
        return T._calculate_transitions_matrix(ev, n_sites=6)

    results.append(('matrix', guarded(matrix)))


# ---------------------------------------------------------------- trajectories
def random_lattice(rng, kind):
    if kind == 'cubic':
        lat = Lattice.cubic(float(rng.uniform(6, 9)))
    elif kind == 'ortho':
        lat = Lattice.orthorhombic(*rng.uniform(5, 10, 3))
    else:
        a, b, c = rng.uniform(6, 10, 3)
        al, be, ga = rng.uniform(65, 115, 3)
        lat = Lattice.from_parameters(a, b, c, al, be, ga)
    if kind == 'rotated':
        q, _ = np.linalg.qr(rng.normal(size=(3, 3)))
        if np.linalg.det(q) < 0:
            q[:, 0] *= -1
        lat = Lattice(lat.matrix @ q)
    return lat


def random_sites(rng, lat, n_sites, min_dist):
    coords = []
    tries = 0
    while len(coords) < n_sites and tries < 2000:
        tries += 1
        c = rng.random(3)
        if coords:
            d = lat.get_all_distances([c], coords)
            if d.min() < min_dist:
                continue
        coords.append(c)
    return np.array(coords)


def random_trajectory(rng, lat, site_frac, n_frames, n_li, sigma, wrap):
    n_sites = len(site_frac)
    inv = np.linalg.inv(lat.matrix)
    pos = np.empty((n_frames, n_li + 2, 3))
    for a in range(n_li):
        t = 0
        cur = int(rng.integers(0, n_sites))
        shift = rng.integers(-1, 2, 3).astype(float)
        while t < n_frames:
            dwell = int(rng.integers(1, 25))
            stop = min(n_frames, t + dwell)
            noise = rng.normal(scale=sigma, size=(stop - t, 3)) @ inv
            pos[t:stop, a] = site_frac[cur] + noise + shift
            t = stop
            if t >= n_frames:
                break
            gap = int(rng.integers(0, 5))      # frames far from every site
            stop = min(n_frames, t + gap)
            nxt = int(rng.integers(0, n_sites))
            for u in range(t, stop):
                f = (u - t + 1) / (gap + 1)
                pos[u, a] = (1 - f) * site_frac[cur] + f * site_frac[nxt] + shift \
                    + rng.normal(scale=sigma, size=3) @ inv
            t = stop
            cur = nxt
            if rng.random() < 0.3:
                shift = shift + rng.integers(-1, 2, 3)
    frame = rng.random((2, 3))
    pos[:, n_li:] = frame[None] + rng.normal(scale=0.03, size=(n_frames, 2, 3)) @ inv
    if wrap:
        pos = pos % 1.0
    species = [Element('Li')] * n_li + [Element('S')] * 2
    return Trajectory(species=species, coords=pos, lattice=lat, time_step=2e-15,
                      metadata={'temperature': 300})


rng = np.random.default_rng(4404)
kinds = ['cubic', 'ortho', 'triclinic', 'rotated']
for k in range(32):
    kind = kinds[k % 4]
    lat = random_lattice(rng, kind)
    n_sites = int(rng.integers(2, 7))
    site_frac = random_sites(rng, lat, n_sites, 2.2)
    if k % 5 == 0:
        site_frac = site_frac.copy()
        site_frac[0] = [0.0, 0.999, 0.5]        # site on a cell face
    labels = ['A' if i % 2 == 0 else 'B' for i in range(len(site_frac))]
    sites = Structure(lattice=lat, species=['Li'] * len(site_frac), coords=site_frac, labels=labels)
    n_frames = [40, 90, 150, 12][k % 4] if k % 9 else 1
    traj = random_trajectory(rng, lat, site_frac, n_frames, int(rng.integers(1, 5)),
                             float(rng.uniform(0.1, 0.45)), wrap=bool(k % 2))
    radius_options = [0.9, {'A': 1.0, 'B': 0.7}, 0.5, None, {'A': 0.8}, {'Z': 1.0}, {'A': 0.01, 'B': 1.0}]
    site_radius = radius_options[k % len(radius_options)]
    fraction = [1.0, 0.5, 0.8, 0.3][(k // 2) % 4]

    floating = 'Na' if k == 30 else 'Li'     # k == 30: empty selection
    holder = {}

    def build():
        tr = T.Transitions.from_trajectory(trajectory=traj, sites=sites, floating_specie=floating,
                                           site_radius=site_radius, site_inner_fraction=fraction)
        holder['tr'] = tr
        return (tr.states, tr.inner_states, tr.events)

    results.append(('from_trajectory', k, guarded(build)))

    def direct_states():
        diff = traj.filter('Li')
        radii = site_radius if isinstance(site_radius, dict) else {'': 0.8, 'B': 1.1}
        return [T._calculate_atom_states(sites=sites, trajectory=diff, site_radius=radii,
                                         site_inner_fraction=f) for f in (1.0, 0.75, 0.2)]
    results.append(('atom_states', k, guarded(direct_states)))
    tr = holder.get('tr')
    if tr is None:
        continue
    results.append(('tmatrix', k, guarded(lambda: tr.matrix())))
    results.append(('next_prev', k, guarded(lambda: (tr.states_next(), tr.states_prev()))))
    results.append(('occupancy', k, guarded(lambda: (tr.occupancy_by_site_type(), tr.atom_locations()))))
    for mr in (0, 1, 3, 10):
        def jmp():
            j = tr.jumps(minimal_residence=mr)
            return (j.data, j.matrix(), sorted(j._counter().items()))
        results.append(('jumps', k, mr, guarded(jmp)))

    def split():
        parts = tr.split(3)
        out = []
        for p in parts:
            out.append((p.states, p.inner_states, p.events))
        return out
    results.append(('split', k, guarded(split)))

    def split_jumps():
        return [p.data for p in tr.jumps(minimal_residence=1).split(2)]
    results.append(('split_jumps', k, guarded(split_jumps)))

with open(out_path, 'wb') as fh:
    pickle.dump(results, fh)
'''


def run(src_root: str, workdir: str, tag: str):
    worker = os.path.join(workdir, 'worker.py')
    with open(worker, 'w') as fh:
        fh.write(WORKER)
    out = os.path.join(workdir, f'{tag}.pkl')
    env = dict(os.environ)
    env['PYTHONPATH'] = src_root
    env['PYTHONHASHSEED'] = '0'
    proc = subprocess.run([PY, worker, src_root, out], env=env, cwd=workdir,
                          capture_output=True, text=True)
    if proc.returncode != 0:
        print(proc.stdout)
        print(proc.stderr)
        raise SystemExit(f'worker for {src_root} failed')
    with open(out, 'rb') as fh:
        return pickle.load(fh)


def main() -> int:
    with tempfile.TemporaryDirectory() as td:
        ref = run(ORIG, td, 'orig')
        new = run(NEW, td, 'new')

    if len(ref) != len(new):
        print(f'different number of results: {len(ref)} vs {len(new)}')
        return 1

    n_ok = sum(1 for r in ref if r[-1][0][0] == 'OK')
    n_exc = len(ref) - n_ok
    bad = 0
    for r, n in zip(ref, new):
        if r != n:
            bad += 1
            if bad <= 10:
                print('DIFFERENCE in case', r[:-1])
                print('  original  :', str(r[-1])[:600])
                print('  refactored:', str(n[-1])[:600])
    print(f'compared {len(ref)} results ({n_ok} values, {n_exc} exceptions): {bad} differ')
    return 1 if bad else 0


if __name__ == '__main__':
    sys.exit(main())
