"""Differential test: trajectory_to_volume, Trajectory.to_positions / positions / get_lattice / to_volume
(original /repo/src vs refactored worktree).

Each implementation is run in its own subprocess (PYTHONPATH selects the tree); the
results for identical seeded random inputs are pickled and compared bit-for-bit.
"""
import os
import pickle
import subprocess
import sys

WORKER = r'''
import pickle, sys, warnings
import numpy as np
warnings.filterwarnings('ignore')
from pymatgen.core import Element, Lattice
import gemdat
from gemdat.volume import trajectory_to_volume

assert gemdat.__file__.startswith(sys.argv[1]), (gemdat.__file__, sys.argv[1])

def make_lattice(rng, kind):
    if kind == 0:
        a = rng.uniform(1.0, 9.0)
        return Lattice.cubic(a)
    if kind == 1:
        return Lattice.orthorhombic(*rng.uniform(1.0, 9.0, 3))
    if kind == 2:
        return Lattice.from_parameters(*rng.uniform(2.0, 9.0, 3), *rng.uniform(60, 120, 3))
    if kind == 3:
        # rotated / general triclinic matrix
        m = rng.normal(size=(3, 3)) * 3 + np.eye(3) * 4
        return Lattice(m)
    return Lattice.hexagonal(rng.uniform(2, 6), rng.uniform(2, 9))

def make_traj(rng, case):
    n_frames = int(rng.integers(1, 12))
    n_atoms = int(rng.integers(1, 7))
    lat = make_lattice(rng, case % 5)
    coords = rng.uniform(-1.5, 2.5, size=(n_frames, n_atoms, 3))
    mode = case % 4
    if mode == 1:
        # atoms exactly on cell faces / voxel boundaries
        coords = rng.integers(-8, 9, size=coords.shape) / 4.0
    elif mode == 2:
        # tiny negatives (np.mod rounds up to 1.0) and values just below 1
        coords[..., 0] = -1e-18
        coords[..., 1] = np.nextafter(1.0, 0.0)
        coords[..., 2] = 0.0
    species = [Element('Li')] * n_atoms
    return gemdat.Trajectory(species=species, coords=coords, lattice=lat.matrix,
                             time_step=1e-15, metadata={'temperature': 300}), lat

def run(fn):
    try:
        v = fn()
        return ('ok', v.data.dtype.str, v.data.shape, v.data.tobytes(), v.lattice.matrix.tobytes(),
                v.label, str(v.units), tuple(v.dims))
    except BaseException as e:  # compare exception type as well
        return ('exc', type(e).__name__)

out = []
rng = np.random.default_rng(20260801)
for case in range(60):
    traj, lat = make_traj(rng, case)
    lmin = min(lat.lengths)
    choices = [0.2, rng.uniform(0.05, lmin), lmin, lmin / 3, lat.lengths[0] / 7, 0.5]
    res = float(choices[case % len(choices)])
    out.append(run(lambda: trajectory_to_volume(traj, resolution=res)))
    out.append(run(lambda: traj.to_volume(resolution=res)))
# heavy voxel re-use: many samples, few voxels (counts >> 1), incl. a single-voxel grid
for case in range(12):
    lat = make_lattice(rng, case % 5)
    n_frames, n_atoms = int(rng.integers(50, 300)), int(rng.integers(2, 12))
    coords = rng.normal(0.5, 0.4, size=(n_frames, n_atoms, 3))
    if case % 3 == 0:
        coords = np.round(coords * 4) / 4  # pile up on voxel boundaries
    traj = gemdat.Trajectory(species=[Element('Na')] * n_atoms, coords=coords, lattice=lat.matrix,
                             time_step=2e-15, metadata={'temperature': 300})
    lmin = min(lat.lengths)
    res = float([lmin, lmin / 2, lmin / 3.5, max(lat.lengths)][case % 4])
    r = run(lambda: trajectory_to_volume(traj, resolution=res))
    if r[0] == 'ok':
        total = int(np.frombuffer(r[3], dtype=r[1]).sum())
        assert total == n_frames * n_atoms, (total, n_frames * n_atoms)
    out.append(r)
# Trajectory.to_positions / positions / get_lattice, incl. displacement mode and varying lattices
def enc(fn):
    try:
        v = np.asarray(fn())
        return ('ok', v.dtype.str, v.shape, v.tobytes())
    except BaseException as e:
        return ('exc', type(e).__name__)

for case in range(30):
    traj, lat = make_traj(rng, case)
    out.append(enc(lambda: traj.get_lattice().matrix))
    out.append(enc(lambda: traj.get_lattice(0).matrix))
    out.append(enc(lambda: traj.positions))
    out.append(enc(lambda: traj.coords))
    out.append(enc(lambda: traj.displacements))
    out.append(enc(lambda: traj.positions))       # displacement mode -> positions again
    out.append(('flag', bool(traj.coords_are_displacement)))
    traj.to_displacements()
    res = float(min(lat.lengths) / (1 + case % 4))
    out.append(run(lambda: traj.to_volume(res)))   # called while in displacement mode
    out.append(('flag', bool(traj.coords_are_displacement)))
    out.append(enc(lambda: traj.coords))
    sub = traj[::2]
    out.append(enc(lambda: sub.positions))
    out.append(run(lambda: sub.to_volume(resolution=res)))
# integer coordinates, all atoms on the origin
ti = gemdat.Trajectory(species=[Element('Li')] * 2, coords=np.array([[[0, 1, -1], [2, 0, 1]]] * 3),
                       lattice=np.eye(3) * 3.3, time_step=1e-15, metadata={'temperature': 300})
out.append(enc(lambda: ti.positions))
out.append(run(lambda: ti.to_volume(1.0)))
# lattice that varies per frame (constant_lattice False)
for case in range(4):
    n_frames = 4
    lats = np.array([np.eye(3) * (4 + 0.1 * f) + rng.normal(size=(3, 3)) * 0.05 * case for f in range(n_frames)])
    tv = gemdat.Trajectory(species=[Element('Li')] * 2, coords=rng.uniform(-1, 2, (n_frames, 2, 3)), lattice=lats,
                           constant_lattice=False, time_step=1e-15, metadata={'temperature': 300})
    out.append(('flag', bool(tv.constant_lattice)))
    for idx in (None, 0, 2, -1, 99):
        out.append(enc(lambda: tv.get_lattice(idx).matrix))
    out.append(run(lambda: trajectory_to_volume(tv, resolution=0.5)))
    out.append(('flag', bool(tv.coords_are_displacement)))
    out.append(enc(lambda: tv.coords))
    out.append(enc(lambda: tv.positions))
out.append(run(lambda: trajectory_to_volume(traj, resolution=-50.0)))
# unusual inputs: resolution larger than cell, zero / negative / nan resolution, default
for res in [50.0, 0.0, -0.3, float('nan'), float('inf')]:
    traj, lat = make_traj(rng, 3)
    out.append(run(lambda: trajectory_to_volume(traj, resolution=res)))
traj, lat = make_traj(rng, 7)
out.append(run(lambda: trajectory_to_volume(traj)))
# no atoms selected (empty trajectory after filtering is not constructible; use empty coords)
try:
    empty = gemdat.Trajectory(species=[], coords=np.zeros((3, 0, 3)), lattice=np.eye(3) * 4,
                              time_step=1e-15, metadata={'temperature': 300})
    out.append(run(lambda: trajectory_to_volume(empty, resolution=0.5)))
except BaseException as e:
    out.append(('ctor-exc', type(e).__name__))
pickle.dump(out, sys.stdout.buffer)
'''


def collect(root):
    env = dict(os.environ, PYTHONPATH=root)
    p = subprocess.run(['/venv/bin/python', '-c', WORKER, root], env=env, capture_output=True)
    if p.returncode != 0:
        sys.stderr.write(p.stderr.decode())
        sys.exit(2)
    return pickle.loads(p.stdout)


orig = collect('/repo/src')
new = collect('/tmp/wtt_C08/src')
assert len(orig) == len(new) and len(orig) >= 20
bad = [i for i, (a, b) in enumerate(zip(orig, new)) if a != b]
n_ok = sum(1 for r in orig if r[0] == 'ok')
n_exc = sum(1 for r in orig if r[0] == 'exc')
print(f'cases={len(orig)} ok_results={n_ok} exceptions={n_exc} state_flags={len(orig) - n_ok - n_exc} differing={len(bad)}')
for i in bad[:10]:
    print('DIFF case', i, orig[i][:3], new[i][:3])
sys.exit(1 if bad else 0)
