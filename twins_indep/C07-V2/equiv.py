"""Differential test for refactoring 2 (C07): _calculate_transition_events with 2-D change masks.

Same randomised cases are run in two subprocesses (PYTHONPATH=/repo/src = original,
PYTHONPATH=/tmp/wtu_C07/src = refactored); the pickled results are compared exactly.
"""
import os
import pickle
import subprocess
import sys
import tempfile

ORIG = '/repo/src'
NEW = '/tmp/wtu_C07/src'
N_SYNTH = 60
N_TRAJ = 24


def synth_states(seed):
    """Random state arrays; inner states are the outer state or NOSITE, like the real ones."""
    import numpy as np

    rng = np.random.default_rng(1000 + seed)
    n_steps = [0, 1, 2, 3][seed] if seed < 4 else int(rng.integers(2, 80))
    n_atoms = int(rng.integers(1, 7))
    n_sites = int(rng.integers(1, 6))
    # piecewise-constant walks with dwell, including NOSITE stretches
    states = np.empty((n_steps, n_atoms), dtype=int)
    for a in range(n_atoms):
        t = 0
        mode = rng.integers(0, 4)
        while t < n_steps:
            dwell = int(rng.integers(1, 12)) if mode else n_steps
            states[t : t + dwell, a] = rng.integers(-1, n_sites)
            t += dwell
    if seed % 7 == 0 and n_steps > 1:
        states[-1] = (states[-2] + 1) % n_sites  # change on the very last step
    if seed % 9 == 0 and n_steps > 1:
        states[-1] = states[0]  # periodic in time: np.roll wrap sees no change
    if seed % 11 == 0:
        states[:, 0] = 0  # atom that never moves
    inner = np.where(rng.random(states.shape) < 0.6, states, -1)
    if seed % 5 == 0:
        inner = states.copy()
    if seed % 13 == 0:
        states[:] = -1 if n_sites < 3 else 2  # nobody moves -> error path
        inner = np.where(rng.random(states.shape) < 0.5, states, -1)
    if seed % 6 == 1:
        states = states.astype(np.int32)
    if seed % 6 == 2:
        states = np.asfortranarray(states)
    return states, inner


def make_traj(seed):
    import numpy as np
    from pymatgen.core import Element, Lattice, Structure
    from scipy.spatial.transform import Rotation

    from gemdat import Trajectory

    rng = np.random.default_rng(seed)
    if seed % 3 == 0:
        lattice = Lattice.cubic(rng.uniform(5, 7))
    else:
        lattice = Lattice.from_parameters(*rng.uniform(5, 8, 3), *rng.uniform(65, 115, 3))
        if seed % 3 == 2:
            lattice = Lattice(lattice.matrix @ Rotation.random(random_state=seed).as_matrix().T)
    n_sites = int(rng.integers(3, 8))
    site_frac = []
    while len(site_frac) < n_sites:
        c = rng.random(3)
        if all(lattice.get_all_distances(c, s)[0, 0] > 1.6 for s in site_frac):
            site_frac.append(c)
    site_frac = np.array(site_frac)
    sites = Structure(lattice, ['Li'] * n_sites, site_frac, labels=[f'L{i % 2}' for i in range(n_sites)])
    n_steps = int(rng.integers(20, 120))
    n_li = int(rng.integers(1, 5))
    start = site_frac[rng.integers(0, n_sites, n_li)]
    li = start[None] + np.cumsum(rng.normal(0, 0.04, (n_steps, n_li, 3)), axis=0)
    fix = rng.random((1, 2, 3)) + rng.normal(0, 0.004, (n_steps, 2, 3))
    coords = np.concatenate([fix, li], axis=1) + rng.integers(-1, 2, 3)
    traj = Trajectory(
        species=[Element('O')] * 2 + [Element('Li')] * n_li,
        coords=coords,
        lattice=lattice,
        time_step=1e-15,
        metadata={'temperature': 300},
    )
    return traj, sites


def frame(df):
    return (list(df.columns), [str(t) for t in df.dtypes], list(df.index), df.to_numpy().tolist())


def worker(path):
    import warnings

    warnings.simplefilter('ignore')
    from gemdat import Transitions
    from gemdat.transitions import _calculate_transition_events

    out = {}
    for seed in range(N_SYNTH):
        states, inner = synth_states(seed)
        try:
            res = frame(_calculate_transition_events(atom_sites=states, atom_inner_sites=inner))
        except Exception as exc:
            res = ('EXC', type(exc).__name__, str(exc))
        out['synth', seed] = res
    for seed in range(N_TRAJ):
        traj, sites = make_traj(seed)
        try:
            tr = Transitions.from_trajectory(
                trajectory=traj,
                sites=sites,
                floating_specie='Li',
                site_radius=0.9 if seed % 2 else {'L0': 1.0, 'L1': 0.7},
                site_inner_fraction=0.6,
            )
            res = [frame(tr.events), tr.matrix().tolist()]
            try:
                jumps = tr.jumps()
                res += [frame(jumps.data), jumps.matrix().tolist(), float(jumps.jump_diffusivity(3))]
            except ValueError as exc:
                res.append(str(exc))
            try:
                res.append([frame(p.events) for p in tr.split(3)])
            except ValueError as exc:
                res.append(str(exc))
        except Exception as exc:
            res = ('EXC', type(exc).__name__, str(exc))
        out['traj', seed] = res
    with open(path, 'wb') as fh:
        pickle.dump(out, fh)


def main():
    outs = []
    with tempfile.TemporaryDirectory() as td:
        for tag, src in (('orig', ORIG), ('new', NEW)):
            path = os.path.join(td, tag + '.pkl')
            env = dict(os.environ, PYTHONPATH=src, PYTHONHASHSEED='0')
            subprocess.run([sys.executable, __file__, '--worker', path], env=env, check=True)
            with open(path, 'rb') as fh:
                outs.append(pickle.load(fh))
    orig, new = outs
    bad = 0
    n_exc = 0
    n_rows = 0
    for key in orig:
        if orig[key] != new[key]:
            bad += 1
            print('DIFF', key, orig[key], new[key])
        if orig[key][0] == 'EXC':
            n_exc += 1
        elif key[0] == 'synth':
            n_rows += len(orig[key][3])
        else:
            n_rows += len(orig[key][0][3])
    print(f'cases={len(orig)} error_cases={n_exc} event_rows={n_rows} differences={bad}')
    sys.exit(1 if bad else 0)


if __name__ == '__main__':
    if len(sys.argv) > 2 and sys.argv[1] == '--worker':
        import gemdat

        assert gemdat.__file__.startswith(os.environ['PYTHONPATH']), gemdat.__file__
        worker(sys.argv[2])
    else:
        main()
