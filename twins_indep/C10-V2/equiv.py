"""Differential test for refactoring 2 (optimal_path method table, energy helper, any()/sum() similarity helpers).

Loads the ORIGINAL gemdat/path.py from /repo/src (read-only) under another module name and compares it
with the refactored module of the worktree on randomised inputs.  Exits non-zero on any difference.
"""
import importlib.util
import struct
import sys

sys.path.insert(0, '/tmp/wtu_C10/src')

import networkx as nx
import numpy as np
from pymatgen.core import Lattice

import gemdat.path as new
from gemdat.volume import FreeEnergyVolume

assert new.__file__.startswith('/tmp/wtu_C10/'), new.__file__
spec = importlib.util.spec_from_file_location('gemdat._orig_path', '/repo/src/gemdat/path.py')
old = importlib.util.module_from_spec(spec)
sys.modules['gemdat._orig_path'] = old
spec.loader.exec_module(old)

failures = []


def bits(x):
    return struct.pack('<d', float(x))


def same_scalar(a, b):
    return type(a) is type(b) and bits(a) == bits(b)


def same_key(a, b):
    return a == b and [type(i) for i in a] == [type(i) for i in b]


def call(f, *a, **k):
    try:
        return ('ok', f(*a, **k))
    except Exception as e:  # noqa: BLE001
        return ('exc', type(e).__name__, str(e))


def same_pathway(a, b):
    if a is None or b is None:
        return a is None and b is None
    if type(a.sites) is not type(b.sites) or a.sites != b.sites or a.dims != b.dims:
        return False
    if len(a.energy) != len(b.energy) or type(a.energy) is not type(b.energy):
        return False
    if not all(same_key(x, y) for x, y in zip(a.sites, b.sites)):
        return False
    return all(same_scalar(x, y) for x, y in zip(a.energy, b.energy)) and repr(a) == repr(b)


def same_result(po, pn, many=False):
    if po[0] != pn[0]:
        return False
    if po[0] == 'exc':
        return po == pn
    if many:
        return len(po[1]) == len(pn[1]) and all(same_pathway(a, b) for a, b in zip(po[1], pn[1]))
    return same_pathway(po[1], pn[1])


LATTICES = [
    Lattice.cubic(5.0),
    Lattice.from_parameters(4.0, 5.5, 7.1, 72, 95, 110),
    Lattice([[3.1, 0.4, -0.2], [0.9, 4.2, 0.3], [-0.5, 0.8, 5.0]]),
    Lattice.hexagonal(4.2, 6.6),
]
METHODS = ['dijkstra', 'bellman-ford', 'minmax-energy', 'dijkstra-exp', 'simple',
           'bogus', '', None, 'Dijkstra', ['simple'], 7]

rng = np.random.default_rng(1010)
n_cases = 0
for case in range(30):
    shape = tuple(int(i) for i in rng.integers(1, 6, size=3))
    data = rng.random(shape) * [2.0, 15.0, 40.0][case % 3]
    flat = data.reshape(-1)
    # walls that cut the grid into pieces (-> NetworkXNoPath) and ties (equal energies)
    for val in (-1.0, np.nan, 1e9, 0.0, 0.5, 0.5, 0.5):
        if flat.size > 3 and rng.random() < 0.7:
            flat[rng.integers(flat.size)] = val
    if case % 5 == 0:
        data[...] = 1.0  # fully degenerate: everything depends on tie breaking
    if case % 10 == 3 and shape[0] > 2:
        data[1, :, :] = -1.0  # a wall; still connected through the periodic boundary unless shape[0]==2
    diagonal = bool(case % 2)
    thr = [1e7, 1e20, 10.0][case % 3]
    with np.errstate(all='ignore'):
        G = old.free_energy_graph(data, max_energy_threshold=thr, diagonal=diagonal)
    nodes = list(G.nodes)
    if not nodes:
        continue
    n_cases += 1
    tag = f'case{case} shape={shape} diag={diagonal}'
    vol = FreeEnergyVolume(data=data, lattice=LATTICES[case % len(LATTICES)])

    for rep in range(5):
        s = nodes[int(rng.integers(len(nodes)))]
        t = nodes[int(rng.integers(len(nodes)))]
        if rep == 3:
            t = s
        if rep == 4:
            t = (97, 98, 99)  # not a node
        # start/stop as tuple, list, ndarray, generator-less iterables
        forms = [(s, t), (list(s), list(t)), (np.array(s), np.array(t))]
        for m in METHODS:
            for fs, ft in forms[: 1 + (rep == 0) * 2]:
                po = call(old.optimal_path, G, start=fs, stop=ft, method=m)
                pn = call(new.optimal_path, G, start=fs, stop=ft, method=m)
                if not same_result(po, pn):
                    failures.append(f'{tag}: optimal_path method={m!r} {s}->{t}: {po} != {pn}')
        # default method + Volume wrapper
        po = call(old.optimal_path, G, start=s, stop=t)
        pn = call(new.optimal_path, G, start=s, stop=t)
        if not same_result(po, pn):
            failures.append(f'{tag}: optimal_path default {s}->{t}')
        if rep == 0:
            pn = call(vol.optimal_path, G, start=s, stop=t)
            if po[0] == 'ok' and not (pn[0] == 'ok' and pn[1].sites == po[1].sites and pn[1].dims == vol.dims):
                failures.append(f'{tag}: Volume.optimal_path {s}->{t}')
        # bad arguments
        for kw in ({'start': 3, 'stop': t}, {'start': s, 'stop': None}):
            if not same_result(call(old.optimal_path, G, **kw), call(new.optimal_path, G, **kw)):
                failures.append(f'{tag}: bad args {kw}')
        # the min-max helper called directly
        if rep < 3:
            base = call(nx.shortest_path, G, source=s, target=t, weight='weight')
            if base[0] == 'ok':
                po = call(old._optimal_path_minmax_energy, G, start=s, stop=t, optimal_path=list(base[1]))
                pn = call(new._optimal_path_minmax_energy, G, start=s, stop=t, optimal_path=list(base[1]))
                if po != pn:
                    failures.append(f'{tag}: minmax helper {s}->{t}')

    # graph without 'energy' on the nodes -> KeyError in both
    H = nx.Graph()
    H.add_edge((0, 0, 0), (0, 0, 1), weight=1.0, weight_exp=2.0)
    for m in ('dijkstra', 'simple', 'dijkstra-exp'):
        if call(old.optimal_path, H, start=(0, 0, 0), stop=(0, 0, 1), method=m) != call(
                new.optimal_path, H, start=(0, 0, 0), stop=(0, 0, 1), method=m):
            failures.append('no-energy graph')

# optimal_n_paths on small grids (simple-path enumeration stays finite and cheap)
for case in range(24):
    shape = [(2, 2, 1), (3, 2, 1), (2, 2, 2), (3, 1, 1), (1, 1, 4), (3, 3, 1)][case % 6]
    data = rng.random(shape) * 3.0
    if case % 4 == 1:
        data.reshape(-1)[rng.integers(data.size)] = -1.0
    if case % 4 == 2:
        data[...] = 0.25
    G = old.free_energy_graph(data, max_energy_threshold=1e7, diagonal=False)
    nodes = list(G.nodes)
    n_cases += 1
    for rep in range(3):
        s = nodes[int(rng.integers(len(nodes)))]
        t = nodes[int(rng.integers(len(nodes)))]
        for n_paths in (1, 2, 3, 5, 0):
            for min_diff in (0.15, 0.0, 0.5, 1.0, 1.5):
                for m in ('dijkstra', 'simple', 'dijkstra-exp', 'bogus'):
                    kw = dict(start=list(s), stop=np.array(t), method=m, n_paths=n_paths, min_diff=min_diff)
                    po = call(old.optimal_n_paths, G, **kw)
                    pn = call(new.optimal_n_paths, G, **kw)
                    if not same_result(po, pn, many=True):
                        failures.append(f'n_paths case{case} {s}->{t} {n_paths} {min_diff} {m}')
        if not same_result(call(old.optimal_n_paths, G, start=s, stop=t),
                           call(new.optimal_n_paths, G, start=s, stop=t), many=True):
            failures.append(f'n_paths defaults case{case}')

# similarity helpers on random site lists
for case in range(60):
    pool = [tuple(int(i) for i in rng.integers(0, 3, size=3)) for _ in range(12)]
    p1 = [pool[i] for i in rng.integers(len(pool), size=int(rng.integers(0, 7)))]
    p2 = [pool[i] for i in rng.integers(len(pool), size=int(rng.integers(0, 7)))]
    po, pn = call(old.calculate_path_difference, p1, p2), call(new.calculate_path_difference, p1, p2)
    if po[0] != pn[0] or (po[0] == 'ok' and not same_scalar(po[1], pn[1])) or (po[0] == 'exc' and po != pn):
        failures.append(f'calculate_path_difference {p1} {p2}')
    others = [old.Pathway(sites=[pool[i] for i in rng.integers(len(pool), size=int(rng.integers(1, 6)))], energy=[])
              for _ in range(int(rng.integers(0, 4)))]
    for min_diff in (0.0, 0.15, 0.5, 1.0, 2.0, float('nan')):
        po = call(old._paths_too_similar, p1, others, min_diff)
        pn = call(new._paths_too_similar, p1, others, min_diff)
        if po != pn or (po[0] == 'ok' and type(po[1]) is not type(pn[1])):
            failures.append(f'_paths_too_similar {p1} {min_diff}: {po} {pn}')
    n_cases += 1

print(f'cases={n_cases} failures={len(failures)}')
for f in failures[:20]:
    print('  DIFF', f)
sys.exit(1 if failures else 0)
